"""Interval analysis for subscripts (rule family BUF).

Intraprocedural forward analysis over the CFG (hull join, widening at loop
heads, two narrowing rounds, branch refinement), context-sensitive evaluation
of calls to repository functions (callee analysed with the argument
intervals, memoised, depth-bounded), type-based ranges for everything else.
Assertions do not exist in the release configuration, so they cannot
discharge anything. Declared assumptions (field invariants, external
function ranges) are passed in by the property module and named in evidence."""
import math
import os
import re
from collections import deque

from facts import AnalysisBroken
from prog import walk, kids, short
from rules.common import strip_casts, const_of, norm_cond

INF = math.inf
TOP = (-INF, INF)

INT_T = {
    'bool': (0, 1), 'char': (-128, 127), 'signed char': (-128, 127), 'unsigned char': (0, 255),
    'short': (-2 ** 15, 2 ** 15 - 1), 'unsigned short': (0, 2 ** 16 - 1),
    'int': (-2 ** 31, 2 ** 31 - 1), 'unsigned int': (0, 2 ** 32 - 1),
    'long': (-2 ** 63, 2 ** 63 - 1), 'unsigned long': (0, 2 ** 64 - 1),
    'long long': (-2 ** 63, 2 ** 63 - 1), 'unsigned long long': (0, 2 ** 64 - 1),
}


def hull(a, b):
    if a is None:
        return b
    if b is None:
        return a
    return (min(a[0], b[0]), max(a[1], b[1]))


def meet(a, b):
    lo, hi = max(a[0], b[0]), min(a[1], b[1])
    if lo > hi:
        return None
    return (lo, hi)


class Intervals:
    def __init__(self, prog, field_ranges=None, call_ranges=None, nonzero_scan=True, max_depth=7):
        self.p = prog
        self.field_ranges = field_ranges or {}
        self.call_ranges = call_ranges or {}
        self.max_depth = max_depth
        self.memo = {}
        self.enum_rng = {}
        for name, e in prog.enums.items():
            vals = [v for _, v in e['enumerators']]
            self.enum_rng[name] = (min(vals), max(vals))
        self.used_assumptions = set()
        self.on_call = None
        self._tr = {}
        self._static = {}
        self._pk = {}
        self.shift_sites = True
        self.memo_out = {}

    # -- types --------------------------------------------------------------------------
    def type_range(self, n_or_t, enum_semantic=True):
        if isinstance(n_or_t, dict):
            t = n_or_t.get('t', '')
            ct = n_or_t.get('ct', t)
        else:
            t = ct = n_or_t
        key = (t, ct, enum_semantic)
        r = self._tr.get(key)
        if r is None:
            r = self._tr[key] = self._type_range(t, ct, enum_semantic)
        return r

    def _type_range(self, t, ct, enum_semantic):
        t = t.replace('const ', '').replace('volatile ', '').strip().rstrip('&').strip()
        ct = ct.replace('const ', '').replace('volatile ', '').strip().rstrip('&').strip()
        if enum_semantic:
            for cand in (t, ct):
                if cand in self.enum_rng:
                    return self.enum_rng[cand]
        else:
            for cand in (t, ct):
                if cand in self.enum_rng:
                    ut = self.p.enums[cand]['underlying']
                    return INT_T.get(self._canon_int(ut), TOP)
        for cand in (ct, t):
            c = self._canon_int(cand)
            if c in INT_T:
                return INT_T[c]
        return TOP

    @staticmethod
    def _canon_int(t):
        m = {'uint8_t': 'unsigned char', 'int8_t': 'signed char', 'uint16_t': 'unsigned short', 'int16_t': 'short',
             'uint32_t': 'unsigned int', 'int32_t': 'int', 'uint64_t': 'unsigned long', 'int64_t': 'long',
             'size_t': 'unsigned long', 'std::size_t': 'unsigned long', 'engine::Depth': 'int',
             'engine::Bitboard': 'unsigned long', 'engine::Value': 'long', 'engine::Move': 'unsigned int',
             'engine::MoveInfo': 'unsigned int', 'engine::Duration': 'long'}
        return m.get(t, t)

    def wrap(self, itv, node_or_t):
        """value converted to the C++ type: if it does not fit, it wraps -> whole type range"""
        if itv is None:
            return None
        rng = self.type_range(node_or_t, enum_semantic=False)
        if rng == TOP:
            return itv
        if itv[0] >= rng[0] and itv[1] <= rng[1]:
            return itv
        return rng

    # -- function analysis ------------------------------------------------------------------
    def analyse(self, fn, params=None, depth=0, want_sites=False):
        """returns (return interval, {node id: interval of every evaluated index/expr of interest})"""
        c = fn.cfg
        nodes = fn.nodes
        env0 = {}
        for i, q in enumerate(fn.params):
            itv = None
            if params is not None and i < len(params):
                itv = params[i]
            if itv is None:
                itv = self.type_range(q.get('ct') or q.get('t'))
                t2 = self.type_range(q.get('t'))
                if t2 != TOP:
                    itv = t2
            env0[q['id']] = itv
        st_ = self._static.get(fn.id)
        if st_ is not None:
            heads, modified = st_
        else:
            heads = set(d for s, d in c.back_edges())
            modified = {}
        # variables modified inside each loop (only those may be widened at its head)
        for s_, d_ in (c.back_edges() if st_ is None else ()):
            body = c.natural_loop(s_, d_)
            mods = modified.setdefault(d_, set())
            for b_ in body:
                for nid in c.blocks[b_]['el']:
                    n_ = nodes.get(nid)
                    if n_ is None:
                        continue
                    if n_['k'] in ('BinaryOperator', 'CompoundAssignOperator') and n_.get('op', '').endswith('=') and \
                            n_['op'] not in ('==', '!=', '<=', '>='):
                        t_ = strip_casts(kids(n_)[0])
                        if t_.get('ref', {}).get('id') is not None:
                            mods.add(t_['ref']['id'])
                    elif n_['k'] == 'UnaryOperator' and n_.get('op') in ('++', '--', '&'):
                        t_ = strip_casts(kids(n_)[0])
                        if t_.get('ref', {}).get('id') is not None:
                            mods.add(t_['ref']['id'])
                    elif n_.get('callee'):
                        pts_ = _ptypes(n_['callee']['fid'])
                        as_ = kids(n_) if n_['k'] == 'CXXConstructExpr' else kids(n_)[1:]
                        if n_['k'] == 'CXXOperatorCallExpr' and len(pts_) == len(as_) - 1:
                            as_ = as_[1:]
                        for a_, pt_ in zip(as_, pts_):
                            t_ = strip_casts(a_)
                            if pt_.endswith('&') and not pt_.startswith('const ') and t_ is not None and \
                                    t_.get('ref', {}).get('k') in ('Local', 'Parm'):
                                mods.add(t_['ref']['id'])
                    elif n_['k'] == 'DeclStmt':
                        for d2 in kids(n_):
                            if d2['k'] == 'VarDecl':
                                mods.add(d2['id'])
        self._static[fn.id] = (heads, modified)
        inb = {c.entry: env0}
        visits = {}
        ret = [None]
        site_itv = {}

        def run_block(b, env, record):
            env = dict(env)
            for nid in c.blocks[b]['el']:
                n = nodes.get(nid)
                if n is None:
                    continue
                self.exec_elem(fn, n, env, depth, site_itv if record else None, ret if record else None)
            return env

        def propagate(record, widen):
            work = deque([c.entry])
            inq = {c.entry}
            while work:
                b = work.popleft()
                inq.discard(b)
                env = inb.get(b)
                if env is None:
                    continue
                out = run_block(b, env, record)
                cond = c.branch_cond(b)
                for k, s in c.succ[b]:
                    e2 = out
                    if cond is not None:
                        cn, neg = norm_cond(cond)
                        e2 = self.refine(fn, cn, (k == 0) != neg, out, depth)
                        if e2 is None:
                            continue
                    old = inb.get(s)
                    if old is None:
                        new = dict(e2)
                    else:
                        new = {}
                        for v in set(old) | set(e2):
                            a, bb = old.get(v), e2.get(v)
                            if a is None or bb is None:
                                new[v] = a if bb is None else bb
                                # variable not yet declared on one path: keep the defined one
                                continue
                            h = hull(a, bb)
                            if widen and s in heads and visits.get(s, 0) >= 2 and h != a and v in modified.get(s, ()):
                                h = (a[0] if h[0] >= a[0] else -INF, a[1] if h[1] <= a[1] else INF)
                            new[v] = h
                    if new != old:
                        inb[s] = new
                        visits[s] = visits.get(s, 0) + 1
                        if visits[s] > 60:
                            raise AnalysisBroken('interval analysis did not converge in ' + fn.id)
                        if s not in inq:
                            inq.add(s)
                            work.append(s)

        propagate(False, True)
        # narrowing: descending Jacobi iterations from the widened post-fixpoint
        for _ in range(6):
            new_in = {c.entry: env0}
            for b in list(inb):
                out = run_block(b, inb[b], False)
                cond = c.branch_cond(b)
                for k, s in c.succ[b]:
                    e2 = out
                    if cond is not None:
                        cn, neg = norm_cond(cond)
                        e2 = self.refine(fn, cn, (k == 0) != neg, out, depth)
                        if e2 is None:
                            continue
                    old = new_in.get(s)
                    if old is None:
                        new_in[s] = dict(e2)
                    else:
                        res = {}
                        for v in set(old) | set(e2):
                            x, y = old.get(v), e2.get(v)
                            res[v] = hull(x, y) if (x is not None and y is not None) else (x if y is None else y)
                        new_in[s] = res
            if new_in == inb:
                break
            inb.clear()
            inb.update(new_in)
        # final recording pass
        for b in sorted(inb, reverse=True):
            run_block(b, inb[b], True)
        if depth == 0:
            # summary for the joined parameter intervals: what a call falls back to when the context depth is used up
            self.__dict__.setdefault('top_ret', {})[fn.id] = ret[0]
        return ret[0], site_itv, inb

    def _range_for_values(self, fn, d):
        """the loop variable of `for (T x : {c1, c2, ...})`: hull of the listed constants, else None"""
        init = strip_casts(kids(d)[0])
        if init is None or init['k'] != 'UnaryOperator' or init.get('op') != '*':
            return None
        b = strip_casts(kids(init)[0])
        if not ((b.get('ref') or {}).get('n') or '').startswith('__begin'):
            return None
        loop = next((a for a in fn.ancestors(d) if a['k'] == 'CXXForRangeStmt'), None)
        if loop is None:
            return None
        rv = [x for x in walk(loop) if x['k'] == 'VarDecl' and (x.get('name') or '').startswith('__range') and kids(x)]
        if not rv:
            return None
        lists = [x for x in walk(kids(rv[0])[0]) if x['k'] == 'InitListExpr']
        if len(lists) != 1:
            return None
        vals = []
        for el in kids(lists[0]):
            c = const_of(strip_casts(el))
            if c is None:
                return None
            vals.append(c)
        return (min(vals), max(vals)) if vals else None

    # -- statements ------------------------------------------------------------------------------
    def exec_elem(self, fn, n, env, depth, site_itv, ret):
        k = n['k']
        if k == 'DeclStmt':
            for d in kids(n):
                if d['k'] == 'VarDecl':
                    if kids(d):
                        v = self._range_for_values(fn, d)
                        if v is None:
                            v = self.eval(fn, kids(d)[0], env, depth, site_itv)
                        env[d['id']] = self.wrap(v, d) if v is not None else self.type_range(d)
                    else:
                        env[d['id']] = self.type_range(d)
            return
        if k == 'ReturnStmt' and ret is not None and kids(n):
            v = self.eval(fn, kids(n)[0], env, depth, site_itv)
            ret[0] = hull(ret[0], v)
            return
        if k in ('BinaryOperator', 'CompoundAssignOperator', 'UnaryOperator', 'CXXOperatorCallExpr',
                 'CallExpr', 'CXXMemberCallExpr', 'ArraySubscriptExpr'):
            # evaluate for side effects on env and to record subscripts — only at statement roots
            par = fn.parent(n)
            # a root is an element whose parent is not itself evaluated as an element: statements, and the
            # short-circuit operators (which are control flow, not CFG elements)
            if par is None or par['k'] in ('CompoundStmt', 'IfStmt', 'ForStmt', 'WhileStmt', 'DoStmt', 'SwitchStmt',
                                           'CaseStmt', 'DefaultStmt', 'CXXForRangeStmt', 'LabelStmt') or \
                    (par['k'] == 'BinaryOperator' and par.get('op') in ('&&', '||')) or \
                    (par['i'] not in fn.cfg.pos and par['k'] not in ('DeclStmt', 'VarDecl', 'ReturnStmt')):
                self.eval(fn, n, env, depth, site_itv)
            elif site_itv is not None and k == 'ArraySubscriptExpr' or \
                    (site_itv is not None and k == 'CXXOperatorCallExpr' and n.get('op') == '[]'):
                self._record_site(fn, n, env, depth, site_itv)
            elif k in ('BinaryOperator', 'CompoundAssignOperator') and n.get('op', '') in ('=', '+=', '-=', '*=', '/=', '&=', '|=', '^=', '<<=', '>>=', '%=') \
                    or (k == 'UnaryOperator' and n.get('op') in ('++', '--')) \
                    or (k == 'CXXOperatorCallExpr' and n.get('op') in ('++', '--', '=', '+=', '-=')):
                self.eval(fn, n, env, depth, None)

    def _record_site(self, fn, n, env, depth, site_itv):
        if n['k'] == 'ArraySubscriptExpr':
            idx = kids(n)[1]
        else:
            idx = kids(n)[2]
        v = self.eval(fn, idx, env, depth, None)
        site_itv[n['i']] = hull(site_itv.get(n['i']), v if v is not None else TOP)

    # -- expressions --------------------------------------------------------------------------------
    def pure_key(self, fn, e):
        """key for side-effect-free expressions that can be refined by a comparison and stay valid until
        the next mutation: `this->field`, `obj.const_method()` without arguments"""
        e = strip_casts(e)
        if e is None:
            return None
        ck = self._pk.get((fn.id, e['i']), 0)
        if ck != 0:
            return ck
        key = None
        r = e.get('ref')
        if e['k'] == 'MemberExpr' and r and r['k'] == 'Field':
            ks = kids(e)
            if ks and ks[0]['k'] == 'CXXThisExpr':
                key = 'F:' + r['n']
        elif e['k'] == 'CXXMemberCallExpr' and e.get('callee', {}).get('const') and len(kids(e)) == 1:
            obj = kids(kids(e)[0])
            if obj:
                o = strip_casts(obj[0])
                if o['k'] == 'CXXThisExpr':
                    key = 'M:this.' + e['callee']['n']
                elif o.get('ref', {}).get('k') in ('Parm', 'Local'):
                    key = 'M:%d.%s' % (o['ref']['id'], e['callee']['n'])
        if key is None and e['k'] == 'CallExpr' and e.get('callee', {}).get('fid') in self.p.funcs:
            g = self.p.funcs[e['callee']['fid']]
            if g.d.get('constexpr') and g.name.startswith('engine::'):
                ids = []
                for a in kids(e)[1:]:
                    t = strip_casts(a)
                    if t is not None and t.get('ref', {}).get('k') in ('Local', 'Parm') and not kids(t):
                        ids.append(t['ref']['id'])
                    else:
                        ids = None
                        break
                if ids:
                    key = ('P', g.id) + tuple(ids)
        self._pk[(fn.id, e['i'])] = key
        return key

    @staticmethod
    def kill_local(env, vid):
        for k_ in [k_ for k_ in env if isinstance(k_, tuple) and vid in k_[2:]]:
            del env[k_]

    @staticmethod
    def kill_pure(env):
        for k_ in [k_ for k_ in env if isinstance(k_, str)]:
            del env[k_]

    def eval(self, fn, e, env, depth, site_itv=None):
        if e is None:
            return TOP
        k = e['k']
        if k in ('MemberExpr', 'CXXMemberCallExpr', 'CallExpr'):
            pk = self.pure_key(fn, e)
            if pk is not None and pk in env:
                return env[pk]
        if 'cv' in e and k in ('IntegerLiteral', 'CharacterLiteral', 'CXXBoolLiteralExpr'):
            return (e['cv'], e['cv'])
        r = e.get('ref')
        if k == 'DeclRefExpr' and r:
            if r['k'] in ('Local', 'Parm'):
                v = env.get(r['id'])
                if v is None:
                    v = self.type_range(e)
                return v
            if 'cv' in e:
                return (e['cv'], e['cv'])
            return self.type_range(e)
        if 'cv' in e and not any(x.get('ref', {}).get('k') in ('Local', 'Parm') for x in walk(e)) and k != 'CallExpr':
            return (e['cv'], e['cv'])
        if k == 'MemberExpr' and r and r['k'] == 'Field':
            fr = self.field_ranges.get(r['n'])
            if fr is not None:
                self.used_assumptions.add(r['n'])
                return fr
            return self.type_range(e)
        if k in ('ImplicitCastExpr', 'CStyleCastExpr', 'CXXFunctionalCastExpr', 'CXXStaticCastExpr'):
            inner = self.eval(fn, kids(e)[0], env, depth, site_itv)
            ck = e.get('ck', '')
            if ck in ('IntegralCast', 'IntegralToBoolean', 'NoOp', 'LValueToRValue', 'ConstructorConversion'):
                if ck == 'IntegralToBoolean':
                    if inner and inner[0] > 0 or inner and inner[1] < 0:
                        return (1, 1)
                    if inner == (0, 0):
                        return (0, 0)
                    return (0, 1)
                return self.wrap(inner, e)
            if ck in ('FloatingToIntegral',):
                return self.type_range(e, enum_semantic=False)
            if ck == 'ArrayToPointerDecay':
                return TOP
            return self.type_range(e, enum_semantic=False)
        if k == 'ParenExpr':
            return self.eval(fn, kids(e)[0], env, depth, site_itv)
        if k == 'ArraySubscriptExpr' or (k == 'CXXOperatorCallExpr' and e.get('op') == '[]'):
            if site_itv is not None:
                self._record_site(fn, e, env, depth, site_itv)
            ks = kids(e)
            # nested base may itself be a subscript
            base = ks[0] if k == 'ArraySubscriptExpr' else ks[1]
            for x in walk(base):
                if site_itv is not None and (x['k'] == 'ArraySubscriptExpr' or (x['k'] == 'CXXOperatorCallExpr' and x.get('op') == '[]')):
                    self._record_site(fn, x, env, depth, site_itv)
            # element value: field/global table element ranges
            b = strip_casts(base)
            while b is not None and b['k'] in ('ArraySubscriptExpr',):
                b = strip_casts(kids(b)[0])
            rr = b.get('ref') if b else None
            if rr and rr['n'] in self.field_ranges:
                self.used_assumptions.add(rr['n'])
                return self.field_ranges[rr['n']]
            if rr and rr['k'] in ('Global', 'StaticMember'):
                v = self.p.vars.get(rr['n'])
                if v is not None and 'val' in v and (v.get('const') or v.get('constexpr')):
                    flat = _flat(v['val'])
                    nums = [x for x in flat if isinstance(x, (int, float))]
                    if nums:
                        return (min(nums), max(nums))
            return self.type_range(e)
        if k == 'UnaryOperator':
            op = e['op']
            x = kids(e)[0]
            if op in ('++', '--'):
                t = strip_casts(x)
                vid = t.get('ref', {}).get('id') if t.get('ref', {}).get('k') in ('Local', 'Parm') else None
                cur = self.eval(fn, x, env, depth, site_itv)
                d = 1 if op == '++' else -1
                new = self.wrap((cur[0] + d, cur[1] + d), e)
                if vid is not None:
                    env[vid] = new
                return cur if e.get('post') else new
            v = self.eval(fn, x, env, depth, site_itv)
            if op == '-':
                return self.wrap((-v[1], -v[0]), e)
            if op == '+':
                return v
            if op == '!':
                return (0, 1)
            if op == '~':
                return self.type_range(e, enum_semantic=False)
            if op == '&':
                # address taken: the variable may be modified through the pointer
                t = strip_casts(x)
                if t.get('ref', {}).get('k') in ('Local', 'Parm'):
                    env[t['ref']['id']] = self.type_range(t, enum_semantic=False)
                return TOP
            if op == '*':
                return self.type_range(e)
            return TOP
        if k in ('BinaryOperator', 'CompoundAssignOperator'):
            op = e['op']
            a, b = kids(e)
            if op == '=':
                v = self.eval(fn, b, env, depth, site_itv)
                t = strip_casts(a)
                if site_itv is not None:
                    self.eval(fn, a, env, depth, site_itv)
                if t.get('ref', {}).get('k') in ('Local', 'Parm'):
                    env[t['ref']['id']] = self.wrap(v, t)
                    self.kill_local(env, t['ref']['id'])
                else:
                    self.kill_pure(env)
                return v
            if op == ',':
                self.eval(fn, a, env, depth, site_itv)
                return self.eval(fn, b, env, depth, site_itv)
            if op in ('&&', '||'):
                self.eval(fn, a, env, depth, site_itv)
                self.eval(fn, b, dict(env), depth, site_itv)
                return (0, 1)
            va = self.eval(fn, a, env, depth, site_itv)
            vb = self.eval(fn, b, env, depth, site_itv)
            base = op[:-1] if k == 'CompoundAssignOperator' else op
            if base in ('<', '>', '<=', '>=', '==', '!='):
                return (0, 1)
            v = self.wrap(_arith(base, va, vb), e)
            if k == 'CompoundAssignOperator':
                t = strip_casts(a)
                if t.get('ref', {}).get('k') in ('Local', 'Parm'):
                    env[t['ref']['id']] = self.wrap(v, t)
                else:
                    self.kill_pure(env)
            return v
        if k == 'ConditionalOperator':
            c, a, b = kids(e)
            cv = const_of(strip_casts(c))
            self.eval(fn, c, env, depth, site_itv)
            cn, neg = norm_cond(c)
            if cv is not None:
                return self.eval(fn, a if cv else b, env, depth, site_itv)
            ea = self.refine(fn, cn, not neg, env, depth)
            eb = self.refine(fn, cn, neg, env, depth)
            va = self.eval(fn, a, ea, depth, site_itv) if ea is not None else None
            vb = self.eval(fn, b, eb, depth, site_itv) if eb is not None else None
            return hull(va, vb) or TOP
        if k in ('CallExpr', 'CXXMemberCallExpr', 'CXXOperatorCallExpr', 'CXXConstructExpr'):
            return self.call(fn, e, env, depth, site_itv)
        if k == 'CXXThisExpr':
            return TOP
        if k in ('SubstNonTypeTemplateParmExpr', 'ConstantExpr', 'ExprWithCleanups', 'CXXDefaultArgExpr'):
            if 'cv' in e:
                return (e['cv'], e['cv'])
            if kids(e):
                return self.eval(fn, kids(e)[0], env, depth, site_itv)
        if k == 'UnaryExprOrTypeTraitExpr' and 'cv' in e:
            return (e['cv'], e['cv'])
        # anything else: evaluate children for side effects / recording, value by type
        for c in kids(e):
            if c.get('k') not in ('CompoundStmt',):
                self.eval(fn, c, env, depth, site_itv)
        return self.type_range(e)

    def call(self, fn, e, env, depth, site_itv):
        c = e.get('callee')
        ks = kids(e)
        if e['k'] == 'CXXConstructExpr':
            args = ks
        elif e['k'] == 'CXXMemberCallExpr':
            args = ks[1:]
            # object expression may contain subscripts
            if ks:
                for x in walk(ks[0]):
                    if site_itv is not None and (x['k'] == 'ArraySubscriptExpr' or (x['k'] == 'CXXOperatorCallExpr' and x.get('op') == '[]')):
                        self._record_site(fn, x, env, depth, site_itv)
        else:
            args = ks[1:]
        vals = [self.eval(fn, a, env, depth, site_itv) for a in args]
        if not c:
            self.kill_pure(env)
            return self.type_range(e)
        nm = c['n']
        if not c.get('const') and not c.get('static') and e['k'] == 'CXXMemberCallExpr':
            self.kill_pure(env)
        elif e['k'] in ('CallExpr', 'CXXConstructExpr') and not nm.startswith('engine::operator') and \
                any(pt.endswith('&') and not pt.startswith('const ') for pt in _ptypes(c['fid'])):
            self.kill_pure(env)
        # shift sites: square_bb(x) is 1ULL << x
        if nm == 'engine::square_bb' and site_itv is not None and self.shift_sites and vals:
            site_itv[e['i']] = hull(site_itv.get(e['i']), vals[0])
        # by-reference integer arguments are clobbered
        ptypes = _ptypes(c['fid'])
        for a, pt in zip(args, ptypes):
            if pt.endswith('&') and not pt.startswith('const '):
                t = strip_casts(a)
                if t.get('ref', {}).get('k') in ('Local', 'Parm'):
                    if e['k'] == 'CXXOperatorCallExpr' and e.get('op') in ('++', '--') and nm.startswith('engine::'):
                        cur = env.get(t['ref']['id']) or self.type_range(t)
                        d = 1 if e['op'] == '++' else -1
                        env[t['ref']['id']] = self.wrap((cur[0] + d, cur[1] + d), t) if self._fits_enum_step(cur, d, t) else self.type_range(t, False)
                        return env[t['ref']['id']]
                    if e['k'] == 'CXXOperatorCallExpr' and e.get('op') in ('+=', '-=') and nm.startswith('engine::') and len(vals) == 2:
                        cur = env.get(t['ref']['id']) or self.type_range(t)
                        o = vals[1]
                        nv = (cur[0] + o[0], cur[1] + o[1]) if e['op'] == '+=' else (cur[0] - o[1], cur[1] - o[0])
                        env[t['ref']['id']] = self.wrap(nv, t)
                        return env[t['ref']['id']]
                    env[t['ref']['id']] = self.type_range(t, enum_semantic=False)
        if nm in self.call_ranges:
            r = self.call_ranges[nm]
            if callable(r):
                r = r(self, fn, e, args, vals, env)
            if r is not None:
                return r
        if nm in ('std::min',) and len(vals) >= 2:
            return (min(vals[0][0], vals[1][0]), min(vals[0][1], vals[1][1]))
        if nm in ('std::max',) and len(vals) >= 2:
            return (max(vals[0][0], vals[1][0]), max(vals[0][1], vals[1][1]))
        if nm in ('abs', 'std::abs') and vals:
            x = vals[0]
            lo = 0 if x[0] <= 0 <= x[1] else min(abs(x[0]), abs(x[1]))
            return (lo, max(abs(x[0]), abs(x[1])))
        if nm in ('__builtin_popcountll',):
            return (0, 64)
        if nm in ('__builtin_ffsll',):
            return (0, 64)
        if nm in ('__builtin_clzll',):
            return (0, 63)
        if c['fid'] in self.p.funcs and self.on_call is not None and depth == 0:
            # arguments are recorded from the caller's own top-level analysis only: it runs with the join of that caller's
            # parameters, so what it passes on covers every nested context, and is not blurred by the context depth limit
            g0 = self.p.funcs[c['fid']]
            pv0 = vals[1:] if (e['k'] == 'CXXOperatorCallExpr' and (g0.cls or len(vals) == len(g0.params) + 1)) else vals
            if os.environ.get('DEBUG_ONCALL') and os.environ['DEBUG_ONCALL'] in g0.name:
                print('on_call', fn.name, fn.targs, '->', g0.name, g0.targs, pv0, 'line', e.get('l'))
            self.on_call(g0, pv0)
        if c['fid'] in self.p.funcs and depth < self.max_depth:
            g = self.p.funcs[c['fid']]
            key = (g.id, tuple(vals))
            if key in self.memo:
                r = self.memo[key]
                self._apply_outs(args, ptypes, self.memo_out.get(key), env)
                return r if r is not None else self.type_range(e)
            self.memo[key] = None       # recursion guard
            outs = None
            try:
                pv = vals
                if e['k'] == 'CXXOperatorCallExpr' and (g.cls or len(vals) == len(g.params) + 1):
                    pv = vals[1:]            # member operator / lambda call: the first operand is the object itself
                r, _, ginb = self.analyse(g, pv, depth + 1)
                xenv = ginb.get(g.cfg.exit)
                if xenv is not None:
                    outs = [xenv.get(q['id']) for q in g.params]
            except AnalysisBroken:
                r = None
            if r is not None:
                r = self.wrap(r, e) if self.type_range(e, False) != TOP else r
            self.memo[key] = r
            self.memo_out[key] = outs
            self._apply_outs(args, ptypes, outs, env)
            return r if r is not None else self.type_range(e)
        if c['fid'] in self.p.funcs and c['fid'] in self.__dict__.get('top_ret', {}):
            # context depth used up: the callee's result for the join of all its callers' arguments (which include these)
            r = self.top_ret[c['fid']]
            tr = self.type_range(e)
            if r is not None:
                r = self.wrap(r, e) if self.type_range(e, False) != TOP else r
                if tr is not None and tr != TOP and r is not None:
                    lo, hi = max(r[0], tr[0]), min(r[1], tr[1])
                    return (lo, hi) if lo <= hi else tr
                return r
            return tr
        return self.type_range(e)

    def _apply_outs(self, args, ptypes, outs, env):
        """values of non-const reference parameters at the callee's exit flow back into the caller's locals"""
        for a, pt in zip(args, ptypes):
            if pt.endswith('&') and not pt.startswith('const '):
                t = strip_casts(a)
                if t is not None and t.get('ref', {}).get('k') in ('Local', 'Parm'):
                    self.kill_local(env, t['ref']['id'])
        if not outs:
            return
        for a, pt, o in zip(args, ptypes, outs):
            if o is not None and pt.endswith('&') and not pt.startswith('const '):
                t = strip_casts(a)
                if t.get('ref', {}).get('k') in ('Local', 'Parm'):
                    env[t['ref']['id']] = self.wrap(o, t)

    def _fits_enum_step(self, cur, d, t):
        return cur is not None and not math.isinf(cur[0]) and not math.isinf(cur[1])

    # -- branch refinement -------------------------------------------------------------------------------
    def refine(self, fn, cond, truth, env, depth):
        c = strip_casts(cond)
        if c is None:
            return env
        if c['k'] == 'BinaryOperator' and c.get('op') in ('&&', '||'):
            a, b = kids(c)
            an, aneg = norm_cond(a)
            bn, bneg = norm_cond(b)
            if (c['op'] == '&&') == truth:
                # both hold (a&&b true) / both fail (a||b false)
                e1 = self.refine(fn, an, truth != aneg, env, depth)
                if e1 is None:
                    return None
                return self.refine(fn, bn, truth != bneg, e1, depth)
            return env
        if c['k'] == 'DeclRefExpr' and c.get('ref', {}).get('k') in ('Local', 'Parm'):
            vid = c['ref']['id']
            cur = env.get(vid) or self.type_range(c)
            if truth:
                if cur == (0, 0):
                    return None
                if cur[0] == 0:
                    cur = (1, cur[1])
            else:
                m = meet(cur, (0, 0))
                if m is None:
                    return None
                cur = m
            e2 = dict(env)
            e2[vid] = cur
            return e2
        if c['k'] == 'BinaryOperator' and c.get('op') in ('<', '>', '<=', '>=', '==', '!='):
            a, b = kids(c)
            op = c['op']
            if not truth:
                op = {'<': '>=', '>=': '<', '>': '<=', '<=': '>', '==': '!=', '!=': '=='}[op]
            va = self.eval(fn, a, dict(env), depth)
            vb = self.eval(fn, b, dict(env), depth)
            e2 = dict(env)
            for side, (x, vx, vy, o) in enumerate(((a, va, vb, op),
                                                   (b, vb, va, {'<': '>', '>': '<', '<=': '>=', '>=': '<=', '==': '==', '!=': '!='}[op]))):
                t = _through_casts(x)
                if t.get('ref', {}).get('k') not in ('Local', 'Parm'):
                    vid = self.pure_key(fn, t) if t else None
                    if vid is None:
                        continue
                    cur = e2.get(vid) or vx
                else:
                    vid = t['ref']['id']
                    cur = e2.get(vid) or self.type_range(t)
                if o == '<':
                    new = meet(cur, (-INF, vy[1] - 1))
                elif o == '<=':
                    new = meet(cur, (-INF, vy[1]))
                elif o == '>':
                    new = meet(cur, (vy[0] + 1, INF))
                elif o == '>=':
                    new = meet(cur, (vy[0], INF))
                elif o == '==':
                    new = meet(cur, vy)
                else:  # !=
                    new = cur
                    if vy[0] == vy[1]:
                        if cur[0] == cur[1] == vy[0]:
                            new = None
                        elif cur[0] == vy[0]:
                            new = (cur[0] + 1, cur[1])
                        elif cur[1] == vy[0]:
                            new = (cur[0], cur[1] - 1)
                if new is None:
                    return None
                e2[vid] = new
            return e2
        return env


def _through_casts(x):
    x = strip_casts(x)
    while x is not None and x['k'] in ('ImplicitCastExpr', 'CStyleCastExpr', 'CXXFunctionalCastExpr', 'CXXStaticCastExpr') and kids(x):
        x = strip_casts(kids(x)[0])
    return x or {}


def _flat(v):
    if isinstance(v, list):
        out = []
        for x in v:
            out += _flat(x)
        return out
    return [v]


_PT = {}


def _ptypes(fid):
    r = _PT.get(fid)
    if r is None:
        from prog import _param_types
        r = _PT[fid] = _param_types(fid)
    return r


def _arith(op, a, b):
    if a is None or b is None:
        return TOP
    try:
        if op == '+':
            return (a[0] + b[0], a[1] + b[1])
        if op == '-':
            return (a[0] - b[1], a[1] - b[0])
        if op == '*':
            c = [_mul(x, y) for x in a for y in b]
            return (min(c), max(c))
        if op == '/':
            if b[0] <= 0 <= b[1]:
                return TOP
            c = [_div(x, y) for x in a for y in b]
            return (math.floor(min(c)), math.ceil(max(c)))
        if op == '%':
            if b[0] > 0 and not math.isinf(b[1]):
                if a[0] >= 0:
                    return (0, min(a[1], b[1] - 1))
                return (-(b[1] - 1), b[1] - 1)
            return TOP
        if op == '&':
            if a[0] >= 0 and b[0] >= 0:
                return (0, min(a[1], b[1]))
            if b[0] >= 0:
                return (0, b[1])
            if a[0] >= 0:
                return (0, a[1])
            return TOP
        if op == '|' or op == '^':
            if a[0] >= 0 and b[0] >= 0 and not math.isinf(a[1]) and not math.isinf(b[1]):
                bits = max(int(a[1]).bit_length(), int(b[1]).bit_length())
                # x|y <= x+y and x^y <= x+y for non-negative operands
                return (0, min((1 << bits) - 1, int(a[1]) + int(b[1])))
            return TOP
        if op == '>>':
            if a[0] >= 0 and b[0] >= 0 and not math.isinf(b[0]):
                hi = a[1] if math.isinf(a[1]) else int(a[1]) >> int(b[0])
                lo = 0 if math.isinf(b[1]) else (int(a[0]) >> int(b[1]) if not math.isinf(a[0]) else 0)
                return (lo, hi)
            return TOP
        if op == '<<':
            if a[0] >= 0 and b[0] >= 0 and not math.isinf(a[1]) and not math.isinf(b[1]) and b[1] < 64:
                return (int(a[0]) << int(b[0]), int(a[1]) << int(b[1]))
            return TOP
    except (OverflowError, ValueError):
        return TOP
    return TOP


def _mul(x, y):
    if x == 0 or y == 0:
        return 0
    return x * y


def _div(x, y):
    if math.isinf(x):
        return x if y > 0 else -x
    return x / y
