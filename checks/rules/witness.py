"""Compile-time witnesses: static_assert translation units compiled (syntax only)
against the repository's own headers. A failing relation fails the build and
clang's diagnostic names it."""
import os
import re
import subprocess

from facts import VERIF, repo_root, flags, CACHE, _gen_config


def compile_witness(name, config='release'):
    """returns (n_asserts, failures[list of (line, message)])"""
    src = os.path.join(VERIF, 'witness', name)
    root = repo_root()
    gen = os.path.join(CACHE, 'gen-witness')
    os.makedirs(gen, exist_ok=True)
    _gen_config(root, gen)
    fl = flags(root, gen, config)
    cmd = ['clang++', '-fsyntax-only', '-ferror-limit=0'] + fl + [src]
    p = subprocess.run(cmd, capture_output=True, text=True)
    n = len(re.findall(r'\bstatic_assert\s*\(', open(src).read()))
    fails = []
    for line in p.stderr.splitlines():
        m = re.match(r'(.*?):(\d+):(\d+): (fatal )?error: (.*)', line)
        if m:
            fails.append((os.path.relpath(m.group(1), VERIF) if m.group(1).startswith(VERIF) else m.group(1),
                          int(m.group(2)), m.group(5)))
    if p.returncode != 0 and not fails:
        fails.append((name, 0, 'witness did not compile: ' + p.stderr[-500:]))
    return n, fails
