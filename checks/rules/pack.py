"""PACK — bit-packed encoders and their decoders agree.

encoder: every `return` whose value is an OR of terms  x << k  (x a parameter,
a constant, or a small expression) yields one *arm*: {field name: (shift, node)}.
decoder: `(v >> k) & mask`, `v & mask`, possibly behind a flag test.
Obligations are produced by the property modules from these layouts."""
from facts import AnalysisBroken
from prog import walk, kids, short
from rules.common import strip_casts, const_of


def _strip(n):
    n = strip_casts(n)
    # !!x  -> x (bool normalisation)
    while n is not None and n['k'] == 'UnaryOperator' and n.get('op') == '!':
        inner = strip_casts(kids(n)[0])
        if inner['k'] == 'UnaryOperator' and inner.get('op') == '!':
            n = strip_casts(kids(inner)[0])
        else:
            break
    # C(x) macro: static_cast<uint64_t>((x))
    return n


def flatten_or(e):
    e = strip_casts(e)
    if e is not None and e['k'] == 'BinaryOperator' and e.get('op') == '|':
        a, b = kids(e)
        return flatten_or(a) + flatten_or(b)
    return [e]


def term(e):
    """x << k  -> (x node, k); x -> (x node, 0)"""
    e = strip_casts(e)
    if e['k'] == 'BinaryOperator' and e.get('op') == '<<':
        a, b = kids(e)
        k = const_of(strip_casts(b))
        if k is None:
            return None
        return _strip(a), k
    return _strip(e), 0


def operand_name(x):
    r = x.get('ref') if x else None
    if r and r['k'] in ('Parm', 'Local'):
        return r['n']
    if x is not None and const_of(x) is not None:
        return 'const:%d' % const_of(x)
    return 'expr@%d' % x['i'] if x is not None else None


def encoder_arms(fn):
    """[(return node, {name: (shift, operand node)})]"""
    arms = []
    for r in fn.all_nodes():
        if r['k'] != 'ReturnStmt' or not kids(r):
            continue
        fields = {}
        for t in flatten_or(kids(r)[0]):
            tk = term(t)
            if tk is None:
                raise AnalysisBroken('PACK: non-constant shift in %s' % fn.name)
            x, k = tk
            nm = operand_name(x)
            if nm in fields:
                raise AnalysisBroken('PACK: operand %s appears twice in %s' % (nm, fn.name))
            fields[nm] = (k, x)
        arms.append((r, fields))
    if not arms:
        raise AnalysisBroken('PACK: no return in encoder %s' % fn.name)
    return arms


def extract_field(e):
    """(v >> k) & mask  /  v & mask  /  v >> k  -> (shift, mask or None, source node)"""
    e = strip_casts(e)
    if e is None:
        return None
    if e['k'] in ('CXXFunctionalCastExpr', 'CStyleCastExpr', 'CXXStaticCastExpr'):
        return extract_field(kids(e)[0])
    if e['k'] == 'BinaryOperator' and e.get('op') == '&':
        a, b = [strip_casts(x) for x in kids(e)]
        m = const_of(b)
        if m is None:
            m, a = const_of(a), b
        if m is None:
            return None
        inner = extract_field(a)
        if inner is None:
            return (0, m, a)
        s, m2, src = inner
        return (s, m if m2 is None else (m & m2), src)
    if e['k'] == 'BinaryOperator' and e.get('op') == '>>':
        a, b = [strip_casts(x) for x in kids(e)]
        k = const_of(b)
        if k is None:
            # shift by a constant-foldable expression such as C(4 * piece)
            return None
        inner = extract_field(a)
        if inner is None:
            return (k, None, a)
        s, m2, src = inner
        if m2 is not None:
            return None
        return (s + k, None, src)
    return None


def decoder_fields(fn):
    """all (shift, mask) extractions applied to the (single) parameter anywhere in fn"""
    out = []
    pid = fn.params[0]['id'] if fn.params else None
    seen = set()
    for n in fn.all_nodes():
        if n['k'] == 'BinaryOperator' and n.get('op') in ('&', '>>'):
            par = fn.parent(n)
            while par is not None and par['k'] in ('ImplicitCastExpr', 'ParenExpr'):
                par = fn.parent(par)
            if par is not None and par['k'] == 'BinaryOperator' and par.get('op') in ('&', '>>') :
                # only outermost extraction
                if par.get('op') == '&' or (par.get('op') == '>>' and strip_casts(kids(par)[0]) is n):
                    continue
            f = extract_field(n)
            if f is None:
                continue
            s, m, src = f
            src = strip_casts(src)
            if src.get('ref', {}).get('id') == pid and (s, m) not in seen:
                seen.add((s, m))
                out.append((s, m, n))
    return out


def mask_width(m):
    """contiguous low mask -> width, else None"""
    if m is None or m <= 0 or (m & (m + 1)) != 0:
        return None
    return m.bit_length()


def bits_for(maxval):
    return max(1, int(maxval).bit_length())
