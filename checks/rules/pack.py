"""PACK — bit-packed encoders and their decoders agree.

encoder: every `return` whose value is an OR of terms  x << k  (x a parameter,
a constant, or a small expression) yields one *arm*: {field name: (shift, node)}.
decoder: `(v >> k) & mask`, `v & mask`, possibly behind a flag test.
Obligations are produced by the property modules from these layouts."""
from facts import AnalysisBroken
from prog import walk, kids, short
from rules.common import strip_casts, const_of


def _strip(n):
    n = strip_casts(n)
    # !!x  -> x (bool normalisation)
    while n is not None and n['k'] == 'UnaryOperator' and n.get('op') == '!':
        inner = strip_casts(kids(n)[0])
        if inner['k'] == 'UnaryOperator' and inner.get('op') == '!':
            n = strip_casts(kids(inner)[0])
        else:
            break
    # C(x) macro: static_cast<uint64_t>((x))
    return n


def flatten_or(e):
    e = strip_casts(e)
    if e is not None and e['k'] == 'BinaryOperator' and e.get('op') == '|':
        a, b = kids(e)
        return flatten_or(a) + flatten_or(b)
    return [e]


def term(e):
    """x << k  -> (x node, k); x -> (x node, 0)"""
    e = strip_casts(e)
    if e['k'] == 'BinaryOperator' and e.get('op') == '<<':
        a, b = kids(e)
        k = const_of(strip_casts(b))
        if k is None:
            return None
        return _strip(a), k
    return _strip(e), 0


def operand_name(x):
    r = x.get('ref') if x else None
    if r and r['k'] in ('Parm', 'Local'):
        return r['n']
    if x is not None and const_of(x) is not None:
        return 'const:%d' % const_of(x)
    return 'expr@%d' % x['i'] if x is not None else None


class Arm(tuple):
    """(return node, {operand name: (shift, operand node)}) with the conditions of the path that builds the value in .conds"""
    def __new__(cls, ret, fields, conds):
        o = tuple.__new__(cls, (ret, fields))
        o.conds = conds
        return o


def encoder_arms(fn):
    """one arm per path of the encoder: the packed value is the OR of terms `operand << shift`, written directly in a return or
    accumulated in a local (`v = a | b; if (c) v |= d; return v;`). [(return node, {name: (shift, operand node)})] with .conds =
    [(condition node, truth)] of the path."""
    arms = []

    def expand(e, env):
        out = []
        for t in flatten_or(e):
            tt = strip_casts(t)
            r = (tt.get('ref') or {}) if tt is not None else {}
            if r.get('k') == 'Local' and r.get('id') in env:
                out.extend(env[r['id']])
            else:
                out.append(t)
        return out

    def fields_of(terms):
        fields = {}
        for t in terms:
            tk = term(t)
            if tk is None:
                raise AnalysisBroken('PACK: non-constant shift in %s' % fn.name)
            x, k = tk
            nm = operand_name(x)
            if nm in fields:
                raise AnalysisBroken('PACK: operand %s appears twice in %s' % (nm, fn.name))
            fields[nm] = (k, x)
        return fields

    def run(stmts, env, conds):
        """returns True when every path through stmts has returned"""
        for i, st in enumerate(stmts):
            if st is None or st.get('mac') in ('assert', 'ASSERT'):
                continue
            k = st['k']
            if k == 'CompoundStmt':
                if run(kids(st) + stmts[i + 1:], env, conds):
                    return True
                return True
            if k == 'ReturnStmt':
                if kids(st):
                    arms.append(Arm(st, fields_of(expand(kids(st)[0], env)), list(conds)))
                return True
            if k == 'IfStmt':
                ks = kids(st)
                rest = stmts[i + 1:]
                for truth, br in ((True, ks[1]), (False, ks[2] if len(ks) > 2 else None)):
                    e2 = {v: list(t) for v, t in env.items()}
                    run(([br] if br is not None else []) + rest, e2, conds + [(ks[0], truth)])
                return True
            if k == 'DeclStmt':
                for d in kids(st):
                    if d['k'] == 'VarDecl' and kids(d):
                        env[d['id']] = expand(kids(d)[0], env)
                continue
            e = strip_casts(st)
            while e is not None and e['k'] in ('ExprWithCleanups',) and kids(e):
                e = strip_casts(kids(e)[0])
            if e is not None and e['k'] in ('BinaryOperator', 'CompoundAssignOperator') and e.get('op') in ('=', '|='):
                t = strip_casts(kids(e)[0])
                r = (t.get('ref') or {})
                if r.get('k') == 'Local':
                    new = expand(kids(e)[1], env)
                    env[r['id']] = (env.get(r['id'], []) if e['op'] == '|=' else []) + new
                    continue
            if k in ('ForStmt', 'WhileStmt', 'DoStmt', 'SwitchStmt'):
                raise AnalysisBroken('PACK: %s in encoder %s' % (k, fn.name))
        return False
    run(kids(fn.body), {}, [])
    if not arms:
        raise AnalysisBroken('PACK: no return in encoder %s' % fn.name)
    return arms


def extract_field(e):
    """(v >> k) & mask  /  v & mask  /  v >> k  -> (shift, mask or None, source node)"""
    e = strip_casts(e)
    if e is None:
        return None
    if e['k'] in ('CXXFunctionalCastExpr', 'CStyleCastExpr', 'CXXStaticCastExpr'):
        return extract_field(kids(e)[0])
    if e['k'] == 'BinaryOperator' and e.get('op') == '&':
        a, b = [strip_casts(x) for x in kids(e)]
        m = const_of(b)
        if m is None:
            m, a = const_of(a), b
        if m is None:
            return None
        inner = extract_field(a)
        if inner is None:
            return (0, m, a)
        s, m2, src = inner
        return (s, m if m2 is None else (m & m2), src)
    if e['k'] == 'BinaryOperator' and e.get('op') == '>>':
        a, b = [strip_casts(x) for x in kids(e)]
        k = const_of(b)
        if k is None:
            # shift by a constant-foldable expression such as C(4 * piece)
            return None
        inner = extract_field(a)
        if inner is None:
            return (k, None, a)
        s, m2, src = inner
        if m2 is not None:
            return None
        return (s + k, None, src)
    return None


def decoder_fields(fn):
    """all (shift, mask) extractions applied to the (single) parameter anywhere in fn"""
    out = []
    pid = fn.params[0]['id'] if fn.params else None
    seen = set()
    for n in fn.all_nodes():
        if n['k'] == 'BinaryOperator' and n.get('op') in ('&', '>>'):
            par = fn.parent(n)
            while par is not None and par['k'] in ('ImplicitCastExpr', 'ParenExpr'):
                par = fn.parent(par)
            if par is not None and par['k'] == 'BinaryOperator' and par.get('op') in ('&', '>>') :
                # only outermost extraction
                if par.get('op') == '&' or (par.get('op') == '>>' and strip_casts(kids(par)[0]) is n):
                    continue
            f = extract_field(n)
            if f is None:
                continue
            s, m, src = f
            src = strip_casts(src)
            if src.get('ref', {}).get('id') == pid and (s, m) not in seen:
                seen.add((s, m))
                out.append((s, m, n))
    return out


def mask_width(m):
    """contiguous low mask -> width, else None"""
    if m is None or m <= 0 or (m & (m + 1)) != 0:
        return None
    return m.bit_length()


def bits_for(maxval):
    return max(1, int(maxval).bit_length())


# ---- byte composition: abstract evaluation over "which buffer byte sits at which bit offset" -----------------------------
# Values: {'b': {byte index: shift}}      an OR of (buf[k] & 0xFF) << s with pairwise disjoint bit ranges
#         ('raw', k)                      the unmasked (possibly sign-extended) byte buf[k]
#         ('int', c)                      an integer constant
#         ('ptr', off)                    a pointer into the buffer
# None = outside the domain.  Counting loops with constant bounds are unrolled (at most 64 trips); helpers
# with a body are evaluated with their arguments bound (depth <= 3).

def _bv(d):
    return {'b': d}


def byte_value(prog, f, e, bufname, env=None, depth=0):
    from rules.common import counting_for, for_init_const
    env = env if env is not None else {}

    def is_b(v):
        return isinstance(v, dict)

    def disjoint(a, b):
        ra = [(s, s + 8) for s in a.values()]
        rb = [(s, s + 8) for s in b.values()]
        return not set(a) & set(b) and all(x[1] <= y[0] or y[1] <= x[0] for x in ra for y in rb)

    def is_bad(v):
        return isinstance(v, tuple) and v[0] == 'bad'

    def unsigned8(n):
        t = (n.get('ct') or n.get('t') or '').replace('const ', '').strip()
        return t in ('unsigned char', 'uint8_t', 'std::uint8_t', '__uint8_t', 'std::byte')

    def ev(n):
        # explicit conversion to an unsigned 8-bit type masks a raw byte
        while n is not None and n['k'] in ('ImplicitCastExpr', 'CStyleCastExpr', 'CXXFunctionalCastExpr', 'CXXStaticCastExpr',
                                           'ParenExpr', 'ExprWithCleanups', 'MaterializeTemporaryExpr') and kids(n):
            t = (n.get('ct') or n.get('t') or '').replace('const ', '')
            if n['k'] != 'ParenExpr' and t in ('unsigned char', 'uint8_t', 'std::uint8_t', '__uint8_t'):
                v = ev(kids(n)[-1])
                if v is not None and not is_b(v) and v[0] == 'raw':
                    return _bv({v[1]: 0})
                return v
            n = kids(n)[-1]
        n = _strip(n)
        if n is None:
            return None
        c = const_of(n)
        if c is not None:
            return ('int', c)
        k = n['k']
        if k == 'DeclRefExpr':
            r = n.get('ref', {})
            if r.get('k') in ('Local', 'Parm'):
                if r['id'] in env:
                    return env[r['id']]
                if r.get('n') == bufname:
                    return ('ptr', 0)
            return None
        if k == 'ArraySubscriptExpr':
            b, i = ev(kids(n)[0]), ev(kids(n)[1])
            if b and i and not is_b(b) and not is_b(i) and b[0] == 'ptr' and i[0] == 'int':
                if unsigned8(n):
                    return _bv({b[1] + i[1]: 0})        # an element of an unsigned 8-bit buffer is the byte itself
                return ('raw', b[1] + i[1])
            return None
        if k == 'UnaryOperator' and n.get('op') == '*':
            b = ev(kids(n)[0])
            if b and not is_b(b) and b[0] == 'ptr' and unsigned8(n):
                return _bv({b[1]: 0})
            return ('raw', b[1]) if b and not is_b(b) and b[0] == 'ptr' else None
        if k == 'UnaryOperator' and n.get('op') == '&':
            b = ev(kids(n)[0])
            return ('ptr', b[1]) if b and not is_b(b) and b[0] == 'raw' else None
        if k == 'BinaryOperator':
            op = n.get('op')
            a, b = ev(kids(n)[0]), ev(kids(n)[1])
            if is_bad(a) or is_bad(b):
                return a if is_bad(a) else b
            if a is None or b is None:
                return None
            if op == '<<' and not is_b(a) and a[0] == 'raw' and not is_b(b) and b[0] == 'int':
                t = (n.get('ct') or n.get('t') or '').replace('const ', '')
                w = {'unsigned long': 64, 'uint64_t': 64, 'unsigned long long': 64, 'unsigned int': 32, 'uint32_t': 32}.get(t)
                if w is not None and b[1] == w - 8:
                    return _bv({a[1]: b[1]})        # the sign extension is shifted out of the value
            if op in ('|', '+', '^', '<<'):
                for x in (a, b):
                    if not is_b(x) and x[0] == 'raw':
                        return ('bad', 'byte %d enters the value unmasked (a plain char sign-extends)' % x[1])
            ai, bi = (not is_b(a) and a[0] == 'int'), (not is_b(b) and b[0] == 'int')
            if ai and bi:
                try:
                    return ('int', {'+': a[1] + b[1], '-': a[1] - b[1], '*': a[1] * b[1], '<<': a[1] << b[1],
                                    '|': a[1] | b[1], '&': a[1] & b[1]}[op])
                except (KeyError, ValueError):
                    return None
            if op in ('+', '-') and not is_b(a) and a[0] == 'ptr' and bi:
                return ('ptr', a[1] + (b[1] if op == '+' else -b[1]))
            if op == '+' and not is_b(b) and b[0] == 'ptr' and ai:
                return ('ptr', b[1] + a[1])
            if op == '&':
                if bi:
                    a, b = b, a
                    ai, bi = bi, ai
                if ai and a[1] == 0xFF and not is_b(b) and b[0] == 'raw':
                    return _bv({b[1]: 0})
                if ai and a[1] == 0xFF and is_b(b) and list(b['b'].values()) == [0]:
                    return b
                if ai and not is_b(b) and b[0] == 'raw':
                    if (a[1] & 0xFF) != 0xFF:
                        return ('bad', 'byte %d is masked with %#x: bits of the byte are dropped' % (b[1], a[1]))
                    return ('bad', 'byte %d is masked with %#x: sign-extension bits are kept' % (b[1], a[1]))
                return None
            if op == '<<' and bi:
                if is_b(a):
                    return _bv({x: s + b[1] for x, s in a['b'].items()})
                return None
            if op in ('|', '+', '^'):
                if ai and a[1] == 0:
                    return b if is_b(b) else None
                if bi and b[1] == 0:
                    return a if is_b(a) else None
                if is_b(a) and is_b(b) and disjoint(a['b'], b['b']):
                    d = dict(a['b'])
                    d.update(b['b'])
                    return _bv(d)
                if is_b(a) and is_b(b):
                    return ('bad', 'bytes %s and %s overlap in the composed value' % (sorted(a['b'].items()), sorted(b['b'].items())))
            return None
        if k in ('CallExpr',) and depth < 3:
            cal = n.get('callee') or {}
            g = prog.funcs.get(cal.get('fid'))
            if g is None or g.body is None:
                return None
            args = kids(n)[1:]
            if len(args) != len(g.params):
                return None
            e2 = {}
            for q, a in zip(g.params, args):
                v = ev(a)
                if v is None or is_bad(v):
                    return v
                e2[q['id']] = v
            return _byte_body(prog, g, bufname, e2, depth + 1)
        return None

    return ev(e)


def _byte_body(prog, g, bufname, env, depth):
    from rules.common import counting_for, for_init_const
    ret = []

    def tgt_id(n):
        n = strip_casts(n)
        r = n.get('ref', {}) if n else {}
        return r.get('id') if r.get('k') in ('Local', 'Parm') else None

    def run(s):
        """False = outside the domain; 'ret' = returned; True = fell through"""
        k = s['k']
        if k == 'CompoundStmt':
            for c in kids(s):
                r = run(c)
                if r is not True:
                    return r
            return True
        if k == 'NullStmt':
            return True
        if k == 'DeclStmt':
            for d in kids(s):
                if d['k'] != 'VarDecl' or not kids(d):
                    return False
                v = byte_value(prog, g, kids(d)[0], bufname, env, depth)
                if v is None:
                    return False
                if isinstance(v, tuple) and v[0] == 'bad':
                    ret.append(v)
                    return 'ret'
                env[d['id']] = v
            return True
        if k == 'ReturnStmt':
            v = byte_value(prog, g, kids(s)[0], bufname, env, depth) if kids(s) else None
            if v is None:
                return False
            ret.append(v)
            return 'ret'
        if k == 'ForStmt':
            cf = counting_for(g, s)
            start = for_init_const(s)
            if cf is None or start is None:
                return False
            vid, bound, op = cf
            b = byte_value(prog, g, bound, bufname, env, depth)
            if b is None or isinstance(b, dict) or b[0] != 'int':
                return False
            inc = strip_casts(s['ch'][3])
            if not (inc['k'] in ('UnaryOperator',) and inc.get('op') == '++'):
                return False
            end = b[1] + (1 if op == '<=' else 0)
            if end - start > 64:
                return False
            for i in range(start, end):
                env[vid] = ('int', i)
                r = run(s['ch'][4])
                if r == 'ret' and ret and isinstance(ret[-1], tuple) and ret[-1][0] == 'bad':
                    return 'ret'
                if r is not True:
                    return False          # return inside a loop: outside the domain
            env.pop(vid, None)
            return True
        e = strip_casts(s)
        while e is not None and e['k'] in ('ExprWithCleanups', 'ParenExpr'):
            e = strip_casts(kids(e)[0])
        if e is not None and e['k'] in ('BinaryOperator', 'CompoundAssignOperator'):
            op = e.get('op')
            t = tgt_id(kids(e)[0])
            if t is None:
                return False
            if op == '=':
                v = byte_value(prog, g, kids(e)[1], bufname, env, depth)
            elif op in ('|=', '<<=', '+='):
                # x op= y  is  x = x op y: evaluate on a synthetic node
                syn = {'k': 'BinaryOperator', 'op': op[:-1], 'ch': [kids(e)[0], kids(e)[1]]}
                v = byte_value(prog, g, syn, bufname, env, depth)
            else:
                return False
            if v is None:
                return False
            if isinstance(v, tuple) and v[0] == 'bad':
                ret.append(v)
                return 'ret'
            env[t] = v
            return True
        return False

    r = run(g.body)
    if r != 'ret' or len(ret) != 1:
        return None
    return ret[0]
