"""CASES — the effect of a function under a semantic case.

A case fixes the values of the expressions a function branches on (e.g. castling(move) = KING_CASTLING, the moved piece is a
pawn, the target square is empty). The structured body is walked with every condition decided from the case; the calls to a
given set of primitives met on the way are the *effect* of the case, with their arguments in normal form (rules/norm.py) for a
given binding of the side to move. Whether a distinction is made by control flow (if/else) or by data (a conditional expression
feeding an argument) does not matter. A condition the case does not decide is skipped when nothing under it calls a
primitive, otherwise the function is unrecognised."""
from facts import AnalysisBroken
from prog import walk, kids, short
from rules.norm import Norm, cond_value, Unknown


def case_events(fn, val, env, is_prim, what=''):
    nm = Norm(fn, env=env)
    nm.val = val
    events = []

    def prims_in(st):
        return [x for x in walk(st) if x.get('callee') and is_prim(x['callee'].get('n', ''))]

    def emit(st):
        for x in prims_in(st):
            events.append((short(x['callee']['n']),) + tuple(nm.s(a) for a in kids(x)[1:] if a['k'] != 'CXXDefaultArgExpr'))

    def run(stmts):
        for st in stmts:
            if st is None or st.get('mac') in ('assert', 'ASSERT', 'ASSERT_WITH_MSG'):
                continue
            k = st['k']
            if k == 'CompoundStmt':
                if run(kids(st)):
                    return True
            elif k == 'IfStmt':
                ks = kids(st)
                try:
                    c = cond_value(nm, ks[0], val)
                except Unknown as u:
                    if prims_in(st) or any(x['k'] == 'ReturnStmt' for x in walk(st)):
                        raise AnalysisBroken('%s: in the case %s the condition at line %s depends on `%s`, which the case does not fix'
                                             % (fn.name, what, st.get('l'), u))
                    continue
                br = ks[1] if c else (ks[2] if len(ks) > 2 else None)
                if br is not None and run([br]):
                    return True
            elif k == 'ReturnStmt':
                emit(st)
                return True
            elif k in ('ForStmt', 'WhileStmt', 'DoStmt', 'SwitchStmt', 'CXXForRangeStmt'):
                if prims_in(st):
                    raise AnalysisBroken('%s: primitive called inside a loop/switch at line %s' % (fn.name, st.get('l')))
            else:
                emit(st)
        return False
    run(kids(fn.body))
    return events
