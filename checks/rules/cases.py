"""CASES — the effect of a function under a semantic case.

A case fixes the values of the expressions a function branches on (e.g. castling(move) = KING_CASTLING, the moved piece is a
pawn, the target square is empty). The structured body is walked with every condition decided from the case; the calls to a
given set of primitives met on the way are the *effect* of the case, with their arguments in normal form (rules/norm.py) for a
given binding of the side to move. Whether a distinction is made by control flow (if/else) or by data (a conditional expression
feeding an argument) does not matter. A condition the case does not decide is skipped when nothing under it calls a
primitive, otherwise the function is unrecognised."""
import re
from facts import AnalysisBroken
from prog import walk, kids, short
from rules.norm import Norm, cond_value, Unknown


def case_events(fn, val, env, is_prim, what=''):
    nm = Norm(fn, env=env)
    nm.val = val
    events = []

    def prims_in(st):
        return [x for x in walk(st) if x.get('callee') and is_prim(x['callee'].get('n', ''))]

    def emit(st):
        for x in prims_in(st):
            events.append((short(x['callee']['n']),) + tuple(nm.s(a) for a in kids(x)[1:] if a['k'] != 'CXXDefaultArgExpr'))

    def run(stmts):
        for st in stmts:
            if st is None or st.get('mac') in ('assert', 'ASSERT', 'ASSERT_WITH_MSG'):
                continue
            k = st['k']
            if k == 'CompoundStmt':
                if run(kids(st)):
                    return True
            elif k == 'IfStmt':
                ks = kids(st)
                try:
                    c = cond_value(nm, ks[0], val)
                except Unknown as u:
                    if prims_in(st) or any(x['k'] == 'ReturnStmt' for x in walk(st)):
                        raise AnalysisBroken('%s: in the case %s the condition at line %s depends on `%s`, which the case does not fix'
                                             % (fn.name, what, st.get('l'), u))
                    continue
                br = ks[1] if c else (ks[2] if len(ks) > 2 else None)
                if br is not None and run([br]):
                    return True
            elif k == 'ReturnStmt':
                emit(st)
                return True
            elif k in ('ForStmt', 'WhileStmt', 'DoStmt', 'SwitchStmt', 'CXXForRangeStmt'):
                if prims_in(st):
                    raise AnalysisBroken('%s: primitive called inside a loop/switch at line %s' % (fn.name, st.get('l')))
            else:
                emit(st)
        return False
    run(kids(fn.body))
    return events


class OpenAtom(Exception):
    """a condition with effects under it reads something the case valuation does not fix"""

    def __init__(self, what, line):
        Exception.__init__(self, what)
        self.what = what
        self.line = line


def effects_all(fn, stmts, val, keep=(), loops='stop', max_open=3):
    """effects_under for every completion of the valuation over the *state flags* the code additionally branches on: a
    condition that reads a data member (or a global) the case does not mention is tried both ways, provided both values can
    occur (the member is assigned a non-constant, or both constants, somewhere in the program). Yields (completed valuation,
    {flag: value}, effects). Anything else the valuation leaves open stops the analysis as before."""
    import itertools
    opened = []
    while True:
        try:
            outs = []
            for combo in itertools.product((0, 1), repeat=len(opened)):
                v2 = dict(val)
                v2.update(dict(zip(opened, combo)))
                outs.append((v2, dict(zip(opened, combo)), effects_under(fn, stmts, v2, keep=keep, loops=loops, open_atoms=True)))
            return outs
        except OpenAtom as oa:
            w = oa.what
            prog_ = fn.prog
            fld = None
            m = re.fullmatch(r'(?:\w+\.)*(\w+)', w)
            if m and prog_ is not None:
                for rec, rd in prog_.records.items():
                    for fd in rd['fields']:
                        if fd['name'] == m.group(1) and (fd.get('t') or '').replace('const ', '') in ('bool', 'int', 'std::atomic<bool>', 'std::atomic_bool'):
                            fld = (rec, fd['name'])
            if fld is None or w in opened or len(opened) >= max_open:
                raise AnalysisBroken('%s: the condition at line %s depends on `%s`, which the case does not fix' % (fn.name, oa.line, w))
            # can the flag take both values?
            vals = set()
            from rules.common import written_value, const_of, strip_casts
            for g, n, k in prog_.field_accesses(fld[0], fld[1]):
                if k in ('write', 'rmw', 'addr', 'call'):
                    wv = written_value(g, n) if k == 'write' else None
                    c = const_of(strip_casts(wv)) if wv is not None else None
                    vals.add(bool(c) if c is not None else None)
                elif k == 'ctorinit':
                    c = const_of(strip_casts(n)) if isinstance(n, dict) and 'k' in n else None
                    vals.add(bool(c) if c is not None else None)
            if not (None in vals or {True, False} <= vals):
                raise AnalysisBroken('%s: the condition at line %s depends on `%s`, which the case does not fix' % (fn.name, oa.line, w))
            opened.append(w)


def effects_under(fn, stmts, val, env=None, keep=(), loops='stop', nm=None, open_atoms=False):
    """the side-effecting statements executed by `stmts` under a valuation of the conditions, in order, each as the normal form
    of its expression ("(a=b)", "(x+=1)", "f(a,b)", "(stream<<c)"); declarations are read through unless their initialiser
    calls something. if/else, ?: in conditions and switch are decided from `val`; a condition the valuation leaves open raises
    AnalysisBroken when something under it has an effect. A return ends the walk with ('return', value)."""
    from rules.norm import Norm, cond_value, Unknown
    nm = nm or Norm(fn, env=env or {}, keep=keep)
    nm.val = val
    out = []

    def has_effect(st):
        return any(x['k'] in ('BinaryOperator', 'CompoundAssignOperator', 'CXXOperatorCallExpr', 'UnaryOperator', 'CallExpr',
                              'CXXMemberCallExpr', 'ReturnStmt') and
                   (x.get('op') in ('=', '+=', '-=', '|=', '&=', '^=', '++', '--', '<<', '>>', '<<=', '>>=') or x['k'] in ('CallExpr', 'CXXMemberCallExpr', 'ReturnStmt'))
                   for x in walk(st)) or any(x['k'] in ('BreakStmt', 'ContinueStmt') and
                                             not any(a['k'] in ('SwitchStmt', 'ForStmt', 'WhileStmt', 'DoStmt', 'CXXForRangeStmt') and a is not st and
                                                     any(y is a for y in walk(st)) for a in fn.ancestors(x))
                                             for x in walk(st))

    def switch_body(sw, value):
        body = kids(sw)[-1]
        flat = []                       # (labels or None, statement)
        for st in kids(body):
            labels = []
            cur = st
            while cur is not None and cur['k'] in ('CaseStmt', 'DefaultStmt'):
                labels.append(cur.get('casev') if cur['k'] == 'CaseStmt' else 'default')
                nxt = [x for x in kids(cur) if x['k'] not in ('ImplicitCastExpr', 'IntegerLiteral', 'ConstantExpr', 'DeclRefExpr', 'CharacterLiteral')]
                cur = nxt[-1] if nxt else None
            flat.append((labels or None, cur))
        all_labels = [l for ls, _ in flat if ls for l in ls]
        target = value if value in all_labels else ('default' if 'default' in all_labels else None)
        res, on = [], False
        for ls, st in flat:
            if ls and target in ls:
                on = True
            if on and st is not None:
                if st['k'] == 'BreakStmt':
                    break
                res.append(st)
        return res

    def list_elements(loop):
        ch = loop.get('ch') or []
        decls = [d for c in ch if c is not None and c['k'] == 'DeclStmt' for d in kids(c) if d['k'] == 'VarDecl']
        rng = [d for d in decls if (d.get('name') or '').startswith('__range') and kids(d)]
        var = [d for d in decls if not (d.get('name') or '').startswith('__')]
        if len(rng) != 1 or len(var) != 1 or not ch or ch[-1] is None:
            return None
        g = kids(rng[0])[0]
        while g is not None and g['k'] in ('ImplicitCastExpr', 'ParenExpr') and kids(g):
            g = kids(g)[-1]
        gr = (g.get('ref') or {}) if g is not None else {}
        if gr.get('k') in ('Global', 'StaticMember', 'Local') and fn.prog is not None:
            # a constant table: the rows are its compile-time value; a structured binding names the columns
            if gr['k'] == 'Local':
                ld = [x for x in fn.all_nodes() if x['k'] == 'VarDecl' and x.get('id') == gr.get('id')]
                gv = dict(ld[0], const=('const' in (ld[0].get('t') or '') or 'constexpr' in (ld[0].get('t') or ''))) if len(ld) == 1 else {}
            else:
                gv = fn.prog.vars.get(gr['n']) or {}
            rows = gv.get('val')
            tq = var[0].get('t') or ''
            if not isinstance(rows, list) or not gv.get('const') or ('&' in tq and 'const' not in tq):
                return None
            names = [b['name'] for b in (var[0].get('bindings') or [])]
            out_rows = []
            for row in rows:
                if isinstance(row, int) and not names:
                    out_rows.append({var[0]['name']: row})
                    continue
                cols = [x for x in row if not isinstance(x, list)] if isinstance(row, list) else None
                if cols is None or not names or len(cols) != len(names) or not all(isinstance(x, int) for x in cols):
                    return None
                out_rows.append(dict(zip(names, cols)))
            return var[0], out_rows, ch[-1]
        if 'initializer_list' not in (rng[0].get('t') or ''):
            return None
        t = var[0].get('t') or ''
        if '&' in t and 'const' not in t:
            return None
        lists = [x for x in walk(kids(rng[0])[0]) if x['k'] == 'InitListExpr']
        if len(lists) != 1:
            return None
        elems = []
        for el in kids(lists[0]):
            e = el
            while e is not None and e['k'] in ('ImplicitCastExpr', 'ParenExpr') and kids(e):
                e = kids(e)[-1]
            if nm0.cval(e) is not None:
                elems.append(nm0.cval(e))
            elif e['k'] == 'UnaryOperator' and e.get('op') == '&' and (kids(e)[0].get('ref') or {}).get('k') in ('Local', 'Parm'):
                elems.append('&' + short((kids(e)[0]['ref'])['n']))
            else:
                return None
        return var[0], elems, ch[-1]

    def run(sts):
        for st in sts:
            if st is None or st.get('mac') in ('assert', 'ASSERT', 'ASSERT_WITH_MSG'):
                continue
            k = st['k']
            if k == 'CompoundStmt':
                if run(kids(st)):
                    return True
            elif k == 'IfStmt':
                ks = kids(st)
                try:
                    c = cond_value(nm, ks[0], val)
                except Unknown as u:
                    if has_effect(st):
                        if open_atoms:
                            raise OpenAtom(str(u), st.get('l'))
                        raise AnalysisBroken('%s: the condition at line %s depends on `%s`, which the case does not fix' % (fn.name, st.get('l'), u))
                    continue
                br = ks[1] if c else (ks[2] if len(ks) > 2 else None)
                if br is not None and run([br]):
                    return True
            elif k == 'SwitchStmt':
                v = nm.cval(kids(st)[0])
                if v is None:
                    v = val.get(nm.s(kids(st)[0]))
                if v is None:
                    raise AnalysisBroken('%s: switch on `%s`, which the case does not fix' % (fn.name, nm.s(kids(st)[0])))
                if run(switch_body(st, v)):
                    return True
            elif k == 'ReturnStmt':
                out.append('return ' + (nm.s(kids(st)[0]) if kids(st) else ''))
                return True
            elif k == 'CXXForRangeStmt' and list_elements(st) is not None:
                # a loop over a braced list of constants / addresses of variables: the body once per element, in order
                var, elems, body = list_elements(st)
                for el in elems:
                    mark = len(out)
                    bind = el if isinstance(el, dict) else {var['name']: el}
                    nm.env.update(bind)
                    nm0.env.update(bind)
                    try:
                        done = run([body])
                    finally:
                        for b_ in bind:
                            nm.env.pop(b_, None)
                            nm0.env.pop(b_, None)
                    out[mark:] = [re.sub(r'\*\(&(\w+)\)', r'\1', x) for x in out[mark:]]
                    if done:
                        if out and out[-1] == 'continue':
                            out.pop()
                            continue
                        if out and out[-1] == 'break':
                            out.pop()
                            break
                        return True
            elif k in ('ForStmt', 'WhileStmt', 'DoStmt', 'CXXForRangeStmt'):
                if loops == 'stop' and has_effect(st):
                    raise AnalysisBroken('%s: loop at line %s inside a fragment evaluated per case' % (fn.name, st.get('l')))
                if loops == 'mark':
                    out.append('loop@%s' % nm.s(kids(st)[0]) if k == 'WhileStmt' else 'loop')
            elif k == 'DeclStmt':
                for d in kids(st):
                    if d['k'] == 'VarDecl' and kids(d) and any(x['k'] in ('CallExpr', 'CXXMemberCallExpr') and
                                                                not (x.get('callee') or {}).get('const', False) and
                                                                (x.get('callee') or {}).get('n', '').startswith('engine::') and
                                                                fn.prog is not None and (fn.prog.mods(x['callee'].get('fid', '')) if x['callee'].get('fid') in fn.prog.funcs else False)
                                                                for x in walk(kids(d)[0])):
                        out.append('%s:=%s' % (d['name'], nm.s(kids(d)[0])))
            elif k in ('NullStmt', 'BreakStmt', 'ContinueStmt'):
                if k == 'ContinueStmt':
                    out.append('continue')
                    return True
                if k == 'BreakStmt':
                    out.append('break')
                    return True
                continue
            else:
                # a call of a lambda written in this function: its body's effects happen here
                e = st
                while e is not None and e['k'] in ('ExprWithCleanups', 'ImplicitCastExpr', 'ParenExpr') and kids(e):
                    e = kids(e)[-1]
                g = fn.prog.funcs.get((e.get('callee') or {}).get('fid')) if fn.prog is not None and e.get('callee') else None
                if g is not None and getattr(g, 'enclosing', None) is fn and g.body is not None and not g.params:
                    sub = effects_under(g, kids(g.body), val, env, keep, loops)
                    out.extend(x for x in sub if x != 'return ')
                else:
                    out.append(show(st))
        return False

    nm0 = Norm(fn, env=env or {}, keep=keep)          # targets of assignments are shown without the valuation

    def lhs_of(node):
        """assignment target; a local reference (`T& r = c ? a : b;`) stands for what it was bound to under the valuation"""
        t = node
        while t is not None and t['k'] in ('ImplicitCastExpr', 'ParenExpr') and kids(t):
            t = kids(t)[-1]
        r = (t.get('ref') or {}) if t is not None else {}
        if r.get('k') == 'Local':
            d = [x for x in fn.all_nodes() if x['k'] == 'VarDecl' and x.get('id') == r['id']]
            if d and (d[0].get('t') or '').endswith('&') and kids(d[0]):
                return nm.s(kids(d[0])[0])
        return nm0.s(node)

    def show(st):
        e = st
        while e is not None and e['k'] in ('ExprWithCleanups', 'ImplicitCastExpr', 'ParenExpr') and kids(e):
            e = kids(e)[-1]
        if e['k'] in ('BinaryOperator', 'CompoundAssignOperator') and (e.get('op') == '=' or e['k'] == 'CompoundAssignOperator'):
            lhs = lhs_of(kids(e)[0])
            if e.get('op') == '=':
                # x = x op y is shown like x op= y
                r = nm0.resolve(kids(e)[1])
                if r is not None and r['k'] == 'BinaryOperator' and r.get('op') in ('+', '-', '|', '&', '^') and len(kids(r)) == 2:
                    a, b = kids(r)
                    if nm0.s(a) == lhs:
                        return '(%s%s=%s)' % (lhs, r['op'], nm.s(b))
                    if nm0.s(b) == lhs and r['op'] in ('+', '|', '&', '^'):
                        return '(%s%s=%s)' % (lhs, r['op'], nm.s(a))
            return '(%s%s%s)' % (lhs, e['op'], nm.s(kids(e)[1]))
        if e['k'] == 'CXXOperatorCallExpr' and e.get('op') in ('=', '+=', '-=', '|=', '&=', '^=') and len(kids(e)) == 3:
            return '(%s%s%s)' % (nm0.s(kids(e)[1]), e['op'], nm.s(kids(e)[2]))
        if e['k'] == 'UnaryOperator' and e.get('op') in ('++', '--'):
            return '%s(%s)%s' % (e['op'], nm0.s(kids(e)[0]), ' post' if e.get('post') else '')
        return nm.s(e)
    run(stmts)
    return out
