"""Path summaries: for a loop-free function, the set of (event sequence,
relevant facts) over all entry->exit paths, computed with the disjunctive
dataflow (identical summaries merge at joins, so irrelevant branches do not
multiply paths). Plus canonical expression strings with single-definition
locals inlined, used to compare argument expressions across functions."""
from facts import AnalysisBroken
from prog import walk, kids, short
from rules import flow
from rules.common import strip_casts, const_of, local_writes, written_value


def canon(fn, n, inline=True, depth=0, keep=(), subst=None):
    """canonical string of expression n; locals with a single definition are inlined"""
    # strip casts, but keep an explicit conversion to bool visible (it changes the value)
    while n is not None and n.get('k') in ('ImplicitCastExpr', 'CStyleCastExpr', 'CXXFunctionalCastExpr', 'CXXStaticCastExpr',
                                           'ParenExpr') and kids(n):
        if n['k'] != 'ImplicitCastExpr' and n.get('t') == 'bool':
            return 'bool(%s)' % canon(fn, kids(n)[0], inline, depth, keep, subst)
        n = kids(n)[-1]
    n = strip_casts(n)
    if n is None:
        return '?'
    k = n['k']
    r = n.get('ref')
    if r:
        if r['k'] == 'Enum':
            return short(r['n'])
        if r['k'] in ('Field',):
            base = ''
            ks = kids(n)
            if ks and ks[0]['k'] != 'CXXThisExpr':
                base = canon(fn, ks[0], inline, depth, keep, subst) + '.'
            return base + short(r['n'])
        if r['k'] in ('Global', 'StaticMember'):
            return short(r['n'])
        if r['k'] in ('Parm',):
            if subst and r['n'] in subst:
                return subst[r['n']]
            return r['n']
        if r['k'] in ('Local', 'Parm') and getattr(fn, 'enclosing', None) is not None and depth <= 6 and r['n'] not in keep:
            # a variable captured by a lambda: what it stands for is decided in the function the lambda is written in
            enc = fn.enclosing
            own = _own_names(fn)
            if r['n'] not in own and getattr(enc, 'frozen_locals', None) is not None and r['n'] not in enc.frozen_locals:
                ds = [x for x in enc.all_nodes() if x['k'] == 'VarDecl' and x.get('name') == r['n']]
                if len(ds) == 1:
                    d = single_def(enc, ds[0]['id'])
                    if d is not None:
                        return canon(enc, d, inline, depth + 1, keep, subst)
        if r['k'] == 'Local':
            fl = getattr(fn, 'frozen_locals', None)
            if not inline and fl is not None and r['n'] not in fl and r['n'] not in keep and depth <= 6:
                # a local that the reference tree did not have: show what it stands for
                d = single_def(fn, r['id'])
                if d is not None:
                    return canon(fn, d, inline, depth + 1, keep, subst)
            if r['n'] in keep or not inline or depth > 6:
                return r['n']
            d = single_def(fn, r['id'])
            if d is None:
                d = reaching_def(fn, n)
            if d is None:
                return r['n']
            return canon(fn, d, inline, depth + 1, keep, subst)
        if r['k'] in ('Func', 'Method'):
            return short(r['n'])
    if k == 'SubstNonTypeTemplateParmExpr' and n.get('tparm'):
        return n['tparm']
    if 'cv' in n and k in ('IntegerLiteral', 'CharacterLiteral', 'CXXBoolLiteralExpr'):
        return str(n['cv'])
    if k in ('CStyleCastExpr', 'CXXFunctionalCastExpr', 'CXXStaticCastExpr', 'ImplicitCastExpr'):
        return canon(fn, kids(n)[0], inline, depth, keep, subst)
    if k == 'CXXThisExpr':
        return 'this'
    if k == 'UnaryOperator':
        return '%s(%s)' % (n['op'], canon(fn, kids(n)[0], inline, depth, keep, subst))
    if k in ('BinaryOperator', 'CompoundAssignOperator'):
        a, b = kids(n)
        return '(%s%s%s)' % (canon(fn, a, inline, depth, keep, subst), n['op'], canon(fn, b, inline, depth, keep, subst))
    if k == 'ConditionalOperator':
        c, a, b = kids(n)
        return '(%s?%s:%s)' % (canon(fn, c, inline, depth, keep, subst), canon(fn, a, inline, depth, keep, subst),
                                canon(fn, b, inline, depth, keep, subst))
    if k == 'ArraySubscriptExpr':
        a, b = kids(n)
        return '%s[%s]' % (canon(fn, a, inline, depth, keep, subst), canon(fn, b, inline, depth, keep, subst))
    if k == 'CXXOperatorCallExpr':
        ks = kids(n)[1:]
        op = n.get('op')
        if len(ks) == 1:
            return '%s(%s)' % (op, canon(fn, ks[0], inline, depth, keep, subst))
        if op == '[]':
            return '%s[%s]' % (canon(fn, ks[0], inline, depth, keep, subst), canon(fn, ks[1], inline, depth, keep, subst))
        return '(%s%s%s)' % (canon(fn, ks[0], inline, depth, keep, subst), op, canon(fn, ks[1], inline, depth, keep, subst))
    if k == 'CallExpr' and depth <= 6:
        # a helper the reference tree did not have, consisting of one return: show what it computes
        prog_ = getattr(fn, 'prog', None)
        callee = prog_.funcs.get(n.get('callee', {}).get('fid')) if prog_ is not None else None
        if callee is not None and callee.body is not None and prog_.is_new_function(callee) and callee.file.startswith(prog_.root):
            st = [x for x in kids(callee.body) if not (x.get('mac') == 'assert' or (x['k'] == 'CXXStaticCastExpr' and x.get('ck') == 'ToVoid'))]
            args_ = kids(n)[1:]
            if len(st) == 1 and st[0]['k'] == 'ReturnStmt' and kids(st[0]) and len(args_) == len(callee.params):
                sub = {q['name']: canon(fn, a, inline, depth, keep, subst) for q, a in zip(callee.params, args_)}
                return canon(callee, kids(st[0])[0], inline, depth + 1, (), sub)
    if k in ('CallExpr', 'CXXMemberCallExpr'):
        c = n.get('callee', {})
        ks = kids(n)
        args = ks[1:]
        name = short(c.get('n', '?'))
        pre = ''
        if k == 'CXXMemberCallExpr' and ks:
            obj = kids(ks[0])
            if obj and obj[0]['k'] != 'CXXThisExpr':
                pre = canon(fn, obj[0], inline, depth, keep, subst) + '.'
        return '%s%s(%s)' % (pre, name, ','.join(canon(fn, a, inline, depth, keep, subst) for a in args))
    if k == 'MemberExpr':
        ks = kids(n)
        return (canon(fn, ks[0], inline, depth, keep, subst) + '.' if ks else '') + '?'
    if k == 'CXXConstructExpr':
        return '%s(%s)' % (short(n.get('callee', {}).get('n', 'ctor')),
                           ','.join(canon(fn, a, inline, depth, keep, subst) for a in kids(n)))
    if 'cv' in n:
        return str(n['cv'])
    return k


_SD = {}


_OWN = {}


def _own_names(fn):
    o = _OWN.get((id(fn), fn.id))
    if o is None:
        o = _OWN[(id(fn), fn.id)] = {x.get('name') for x in fn.all_nodes() if x['k'] == 'VarDecl'} | {q.get('name') for q in fn.params}
    return o


def single_def(fn, vid):
    """the defining expression of a local that is defined exactly once (VarDecl init, never written again)"""
    key = (id(fn), fn.id, vid)
    if key in _SD:
        return _SD[key]
    init = None
    for n in fn.all_nodes():
        if n['k'] == 'VarDecl' and n.get('id') == vid:
            init = kids(n)[0] if kids(n) else None
    res = None
    if init is not None and not local_writes(fn, vid):
        res = init
    _SD[key] = res
    return res


_RD = {}


def reaching_def(fn, use):
    """the one definition of a local that reaches the use node `use` on every path: its defining expression, else None.
    Definitions are the initialiser and plain assignments; any other write (compound assignment, ++, address taken)
    anywhere makes the variable opaque."""
    r = use.get('ref') or {}
    if r.get('k') != 'Local':
        return None
    key = (id(fn), fn.id, use['i'])
    if key in _RD:
        return _RD[key]
    vid = r['id']
    res = None
    defs = []          # (anchor node in the CFG, value expression)
    opaque = False
    for n in fn.all_nodes():
        if n['k'] == 'VarDecl' and n.get('id') == vid and kids(n):
            defs.append((n, kids(n)[0]))
    for w in local_writes(fn, vid):
        par = fn.parent(w)
        while par is not None and par['k'] in ('ImplicitCastExpr', 'ParenExpr'):
            par = fn.parent(par)
        if par is not None and par['k'] == 'BinaryOperator' and par.get('op') == '=' and strip_casts(kids(par)[0]) is w:
            defs.append((par, kids(par)[1]))
        elif par is not None and par['k'] == 'CXXOperatorCallExpr' and par.get('op') == '=' and strip_casts(kids(par)[1]) is w:
            defs.append((par, kids(par)[2]))
        else:
            opaque = True
    if not opaque and defs:
        c = fn.cfg
        try:
            dom = [d for d in defs if c.node_dominates(d[0], use) and not fn.inside(use, d[0])]
            if dom:
                # the dominating definition closest to the use
                best = dom[0]
                for d in dom[1:]:
                    if c.node_dominates(best[0], d[0]):
                        best = d
                pos_use = {use['i']} | {a['i'] for a in fn.ancestors(use)}
                clean = True
                for d in defs:
                    if d is best or (c.node_dominates(d[0], best[0]) and d in dom):
                        continue
                    p0 = c.position(d[0])
                    if p0 is None:
                        clean = False
                        break
                    if c.path_avoiding(p0, {best[0]['i']}, pos_use) is not None:
                        clean = False
                        break
                if clean:
                    res = best[1]
        except Exception:
            res = None
    _RD[key] = res
    return res


def summaries(fn, event_of, fact_of, entry=((), frozenset())):
    """event_of(fn, node) -> hashable event or None (called per CFG element)
    fact_of(fn, cond node, truth) -> (key, value) or None
    returns the set of (events tuple, facts frozenset) at function exit"""
    c = fn.cfg
    if c.back_edges():
        raise AnalysisBroken('effects: %s has loops' % fn.name)

    def transfer(f, n, st):
        ev = event_of(f, n)
        if ev is None:
            return [st]
        return [(st[0] + (ev,), st[1])]

    def refine(f, cond, truth, st):
        fk = fact_of(f, cond, truth)
        if fk is None:
            return st
        key, val = fk
        for k2, v2 in st[1]:
            if k2 == key and v2 != val:
                return None
        return (st[0], st[1] | {(key, val)})

    at, exits = flow.run(fn, [entry], transfer, refine)
    return exits
