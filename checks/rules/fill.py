"""FILL — a table that is filled by loops is filled completely: wherever a namespace-scope fixed-extent
array is written with a `for`-loop induction variable as subscript, that variable's interval at the write
(from the interval analysis) must be exactly [0, extent-1]."""
import re

from prog import kids, short, access_kind
from rules.common import strip_casts
from rules.interval import Intervals
from rules.effects import canon


def fill_sites(p, table_names, funcs=None):
    """yields (func, write node, table, dim index, extent, (lo,hi), loop var name)"""
    iv = Intervals(p)
    iv.shift_sites = False
    out = []
    for f in (funcs or list(p.repo_funcs('engine/'))):
        touched = False
        for n in f.all_nodes():
            r = n.get('ref')
            if r and r['k'] in ('Global', 'StaticMember') and r['n'] in table_names:
                touched = True
                break
        if not touched:
            continue
        try:
            ret, sites, inb = iv.analyse(f)
        except Exception:
            continue
        for n in f.all_nodes():
            r = n.get('ref')
            if not (r and r['k'] in ('Global', 'StaticMember') and r['n'] in table_names):
                continue
            if access_kind(f, n) not in ('write', 'rmw'):
                continue
            # climb the subscripts
            cur = n
            dim = 0
            while True:
                par = f.parent(cur)
                if par is not None and par['k'] == 'ImplicitCastExpr':
                    cur = par
                    continue
                if par is None or par['k'] != 'ArraySubscriptExpr' or strip_casts(kids(par)[0]) is not strip_casts(cur) and kids(par)[0] is not cur:
                    break
                idx = strip_casts(kids(par)[1])
                bt = strip_casts(cur).get('t', '') if cur['k'] != 'ImplicitCastExpr' else strip_casts(kids(cur)[0]).get('t', '')
                m = re.search(r'\[(\d+)\]', bt)
                ext = int(m.group(1)) if m else None
                lv = idx.get('ref', {})
                if lv.get('k') == 'Local' and ext is not None and _is_for_var(f, par, lv['id']):
                    out.append((f, par, r['n'], dim, ext, sites.get(par['i']), lv['n']))
                cur = par
                dim += 1
    return out


def _is_for_var(f, node, vid):
    for a in f.ancestors(node):
        if a['k'] == 'ForStmt':
            init = (a.get('ch') or [None])[0]
            if init is not None:
                for x in kids(init):
                    if x['k'] == 'VarDecl' and x.get('id') == vid:
                        return True
    return False
