"""Helpers shared by the property modules: thread roots, call-graph SCCs,
slot filling from the repository, literal/const helpers."""
from collections import defaultdict

from facts import AnalysisBroken
from prog import walk, kids, short, access_kind, ASSIGN_OPS


def thread_entries(p):
    """[(Func where the thread is created, construct node, entry Func)]"""
    out = []
    for f in p.funcs.values():
        for n, fid, nm in f.calls():
            if nm.startswith('std::thread::thread') or nm.startswith('std::jthread::jthread') \
                    or nm == 'std::async':
                for a in kids(n):
                    r = a.get('ref')
                    if r and r['k'] in ('Func', 'Method') and r.get('fid') in p.funcs:
                        out.append((f, n, p.funcs[r['fid']]))
                        break
                    if a.get('lambda') and a['lambda'] in p.funcs:
                        out.append((f, n, p.funcs[a['lambda']]))
                        break
    return out


def uci_handlers(p):
    """name -> Func for every <name>_command method dispatched from Uci::loop"""
    loop = p.fn('engine::Uci::loop')
    out = {}
    for n, fid, nm in loop.calls():
        if nm.startswith('engine::Uci::') and nm.endswith('_command') and fid in p.funcs:
            out[short(nm)[:-len('_command')]] = p.funcs[fid]
    # ... or entered in a table of (name, member function) pairs that loop() looks the token up in
    for n in loop.all_nodes():
        r = n.get('ref') or {}
        if n['k'] == 'DeclRefExpr' and r.get('k') == 'Method' and r.get('n', '').startswith('engine::Uci::') and \
                r['n'].endswith('_command') and r.get('fid') in p.funcs:
            par = loop.parent(n)
            if par is not None and par['k'] == 'UnaryOperator' and par.get('op') == '&':
                out.setdefault(short(r['n'])[:-len('_command')], p.funcs[r['fid']])
    return loop, out


def sccs(p, fids):
    """Tarjan over the call graph restricted to fids; returns list of sets
    (only non-trivial SCCs: size>1 or self-recursive)"""
    fids = set(fids)
    graph = {f: [c for c in p.callees(p.funcs[f]) if c in fids] for f in fids}
    index = {}
    low = {}
    onst = set()
    st = []
    out = []
    counter = [0]

    def strong(v):
        work = [(v, iter(graph[v]))]
        index[v] = low[v] = counter[0]
        counter[0] += 1
        st.append(v)
        onst.add(v)
        while work:
            x, it = work[-1]
            adv = False
            for w in it:
                if w not in index:
                    index[w] = low[w] = counter[0]
                    counter[0] += 1
                    st.append(w)
                    onst.add(w)
                    work.append((w, iter(graph[w])))
                    adv = True
                    break
                elif w in onst:
                    low[x] = min(low[x], index[w])
            if adv:
                continue
            work.pop()
            if work:
                low[work[-1][0]] = min(low[work[-1][0]], low[x])
            if low[x] == index[x]:
                comp = set()
                while True:
                    w = st.pop()
                    onst.discard(w)
                    comp.add(w)
                    if w == x:
                        break
                if len(comp) > 1 or x in graph[x]:
                    out.append(comp)

    for v in sorted(fids):
        if v not in index:
            strong(v)
    for comp in out:
        lam = [w for w in comp if getattr(p.funcs.get(w), 'enclosing', None) is not None]
        if lam:
            # the recursion passes through a lambda: the rules about recursive functions (polls, frames, returned values) read
            # each function's own body and CFG, in which the call inside the lambda does not appear
            raise AnalysisBroken('the recursion of %s goes through a lambda written in it (%s); the rules read recursive calls in the '
                                 'function\'s own body only' % (sorted(short(p.funcs[w].name) for w in comp if w not in lam),
                                                                  p.funcs[lam[0]].loc()))
    return out


def written_value(f, n):
    """for an access node n classified write: the assigned expression node"""
    cur = n
    while True:
        par = f.parent(cur)
        if par is None:
            return None
        if par['k'] in ('BinaryOperator', 'CompoundAssignOperator') and par.get('op') in ASSIGN_OPS \
                and kids(par)[0] is cur:
            return kids(par)[1]
        if par['k'] == 'CXXOperatorCallExpr' and par.get('op') in ASSIGN_OPS:
            ks = kids(par)
            if len(ks) >= 3 and ks[1] is cur:
                return ks[2]
        if par['k'] == 'CXXMemberCallExpr':
            # x.store(v) / x.exchange(v)
            nm = short(par.get('callee', {}).get('n', ''))
            if nm in ('store', 'exchange'):
                ks = kids(par)
                return ks[1] if len(ks) > 1 else None
            return None
        if par['k'] in ('MemberExpr', 'ArraySubscriptExpr', 'ImplicitCastExpr'):
            cur = par
            continue
        return None


def const_of(n):
    if n is None:
        return None
    if 'cv' in n:
        return n['cv']
    return None


def strip_casts(n):
    while n and n['k'] in ('ImplicitCastExpr', 'CStyleCastExpr', 'CXXFunctionalCastExpr',
                           'CXXStaticCastExpr', 'ParenExpr') and kids(n):
        n = kids(n)[-1]
    return n


def strip_conv(n):
    """strip casts and single-argument converting constructors (std::atomic<bool>(false))"""
    while True:
        m = strip_casts(n)
        if m and m['k'] == 'CXXConstructExpr' and len(kids(m)) == 1:
            n = kids(m)[0]
            continue
        return m


def is_atomic_type(t):
    return 'std::atomic' in (t or '')


def enclosing_stmt_chain(f, n):
    return [n] + list(f.ancestors(n))


def norm_cond(n):
    """strip `!` wrappers: returns (node, negated)"""
    neg = False
    n = strip_casts(n)
    while n and n['k'] == 'UnaryOperator' and n.get('op') == '!':
        neg = not neg
        n = strip_casts(kids(n)[0])
    while n and n['k'] == 'CXXOperatorCallExpr' and n.get('op') == '!' and \
            'Castling' not in n.get('t', '') and 'Color' not in n.get('t', ''):
        neg = not neg
        n = strip_casts(kids(n)[1])
    return n, neg


def guard_facts(f, n):
    """Facts that hold on every path reaching node n, as a list of
    (atom node, truth) — from dominating branch edges; `a && b` true-edges and
    `a || b` false-edges are already split by the CFG; `!x` is normalised."""
    out = []
    for cond, k, termk, blk in f.cfg.guards(n):
        if cond is None:
            continue
        if termk == 'SwitchStmt':
            continue
        if termk in ('IfStmt', 'WhileStmt', 'ForStmt', 'DoStmt', 'ConditionalOperator',
                     'BinaryOperator', 'CXXForRangeStmt'):
            truth = (k == 0)
            if termk == 'BinaryOperator':
                # short-circuit: for `a && b` / `a || b` terminator the cond is `a`;
                # successor 0 is taken when a is true for both
                truth = (k == 0)
            c, neg = norm_cond(cond)
            _expand_fact(c, truth != neg, out)
    return out


def ast_guards(f, n):
    """structural control dependence: for every enclosing if/else (and ?:) the condition with the truth value of the arm
    that contains n; complements guard_facts (CFG dominance), which cannot attribute the else-arm of `if (a && b)` to a
    single branch edge"""
    out = []
    cur = n
    for a in f.ancestors(n):
        ch = a.get('ch') or []
        if a['k'] == 'IfStmt':
            ks = [x for x in ch if x]
            cond = ks[0]
            if len(ks) > 1 and (cur is ks[1]):
                out.append((cond, True))
            elif len(ks) > 2 and (cur is ks[2]):
                out.append((cond, False))
        elif a['k'] == 'ConditionalOperator' and len(ch) == 3:
            if cur is ch[1]:
                out.append((ch[0], True))
            elif cur is ch[2]:
                out.append((ch[0], False))
        cur = a
    return out


def all_guards(f, n):
    """guard_facts plus ast_guards, without duplicates"""
    out = list(guard_facts(f, n))
    seen = {(c['i'], t) for c, t in out}
    for c, t in ast_guards(f, n):
        cc, neg = norm_cond(c)
        if (cc['i'], t != neg) not in seen and (c['i'], t) not in seen:
            out.append((c, t))
    return out


def _expand_fact(c, truth, out):
    """(a && b)=true gives a, b true; (a || b)=false gives a, b false; `!` is normalised"""
    out.append((c, truth))
    if c['k'] == 'BinaryOperator' and ((c.get('op') == '&&' and truth) or (c.get('op') == '||' and not truth)):
        for x in kids(c):
            xc, neg = norm_cond(x)
            _expand_fact(xc, truth != neg, out)


def local_writes(f, var_id, within=None):
    """nodes writing local variable #var_id (optionally only inside subtree `within`)"""
    out = []
    it = walk(within) if within is not None else f.all_nodes()
    for n in it:
        r = n.get('ref')
        if r and r.get('id') == var_id and r['k'] in ('Local', 'Parm', 'StaticLocal'):
            if access_kind(f, n) in ('write', 'rmw', 'addr'):
                out.append(n)
    return out


def counting_for(f, loop):
    """If `loop` is `for (...; i < N; ++i)` over a local induction variable that the body
    does not write, with N invariant in the loop, return (var id, bound node, op); else None."""
    if loop['k'] != 'ForStmt':
        return None
    ch = loop.get('ch') or []
    # ForStmt children: init, condvar, cond, inc, body
    if len(ch) != 5:
        return None
    init, _cv, cond, inc, body = ch
    if not cond or not inc:
        return None
    c = strip_casts(cond)
    if c['k'] != 'BinaryOperator' or c.get('op') not in ('<', '<=', '!='):
        return None
    lhs, rhs = [strip_casts(x) for x in kids(c)]
    r = lhs.get('ref') if lhs else None
    if not r or r['k'] not in ('Local',):
        return None
    vid = r['id']
    i = strip_casts(inc)
    ok_inc = False
    if i['k'] == 'UnaryOperator' and i.get('op') == '++':
        t = strip_casts(kids(i)[0])
        ok_inc = t.get('ref', {}).get('id') == vid
    elif i['k'] == 'CXXOperatorCallExpr' and i.get('op') == '++':
        t = strip_casts(kids(i)[1])
        ok_inc = t.get('ref', {}).get('id') == vid
    elif i['k'] == 'CompoundAssignOperator' and i.get('op') == '+=':
        t = strip_casts(kids(i)[0])
        cv = const_of(strip_casts(kids(i)[1]))
        ok_inc = t.get('ref', {}).get('id') == vid and cv is not None and cv > 0
    if not ok_inc:
        return None
    if body and local_writes(f, vid, body):
        return None
    # bound invariant: constant, or local/param not written in the loop, or a call-free expr of those
    for x in walk(rhs):
        rr = x.get('ref')
        if rr and rr['k'] in ('Local', 'Parm'):
            if local_writes(f, rr['id'], loop):
                return None
        if x.get('callee') and not x['callee'].get('const') and \
                not x['callee']['n'].startswith('engine::operator'):
            return None
    return vid, rhs, c['op']


def for_init_const(loop):
    """constant the induction variable of `for (T i = C; ...)` starts from, else None"""
    init = (loop.get('ch') or [None])[0]
    if not init:
        return None
    v = [x for x in walk(init) if x['k'] == 'VarDecl']
    if len(v) != 1 or not kids(v[0]):
        return None
    return const_of(strip_casts(kids(v[0])[0]))


def expr_key(n):
    """structural identity of an expression (after stripping casts): same key => same syntax"""
    n = strip_casts(n)
    if n is None:
        return None
    r = n.get('ref')
    ref = None
    if r:
        ref = (r['k'], r['n'], r.get('id'))
    return (n['k'], n.get('op'), ref, n.get('cv') if not r else None,
            n.get('callee', {}).get('fid'),
            tuple(expr_key(c) for c in kids(n)))


def base_locals(n):
    """ids of local variables/params appearing in expression n"""
    out = set()
    for x in walk(n):
        r = x.get('ref')
        if r and r['k'] in ('Local', 'Parm') and 'id' in r:
            out.add(r['id'])
    return out


def string_literal_sites(p, text, under='engine/'):
    out = []
    for f in p.repo_funcs(under):
        for n in f.all_nodes():
            if n['k'] == 'StringLiteral' and n.get('s') == text:
                out.append((f, n))
    return out


def in_loop(f, n):
    c = f.cfg
    pos = c.position(n)
    if pos is None:
        return False
    for s, d in c.back_edges():
        if pos[0] in c.natural_loop(s, d):
            return True
    return False


def enclosing_full_stmt(f, n):
    """outermost expression statement containing n (child of a CompoundStmt/If/For/...)"""
    cur = n
    for a in f.ancestors(n):
        if a['k'] in ('CompoundStmt', 'IfStmt', 'ForStmt', 'WhileStmt', 'DoStmt', 'SwitchStmt',
                      'CaseStmt', 'DefaultStmt', 'CXXForRangeStmt', 'LabelStmt'):
            return cur
        cur = a
    return cur


class SubCtx:
    """collects the obligations of another property's rule set when a check depends on them"""

    def __init__(self, parent):
        self.parent = parent
        self.tier = parent.tier
        self.results = []
        self.info = {}

    def prog(self, *a, **k):
        return self.parent.prog(*a, **k)

    def ob(self, rule, key, ok, what, site='', detail=None, sample=True):
        self.results.append((rule, key, ok, what, site))
        return ok

    def floor(self, rule, n, minimum, what='instances', exact=False):
        if not exact:
            minimum = max(1, (minimum + 1) // 2)
        if n < minimum:
            raise AnalysisBroken('rule %s matched %d %s, floor is %d' % (rule, n, what, minimum))

    def assume(self, text):
        pass

    def note(self, text):
        pass

    def analysed(self, fn):
        self.parent.analysed(fn)


# ---- E-IDX: every dimension of an engine table is indexed through one enumeration -----------------------------------------
def enum_index_confusions(prog, fids=None):
    """[(Func, subscript node, array, dimension, expected enum, enum found)]: subscripts whose index has an enumeration type other
    than the one all the other subscripts of that array dimension use (a PieceKind where the table is laid out by Piece reads
    another piece's entry). Plain integers (loop counters) are not judged. `fids`: restrict the reports to these functions;
    the expected type is always taken over the whole program."""
    import collections
    cache = prog.__dict__.setdefault('_eidx', None)
    if cache is None:
        use = collections.defaultdict(collections.Counter)
        sites = []

        def strip_imp(n):
            while n is not None and n['k'] in ('ImplicitCastExpr', 'ParenExpr') and kids(n):
                n = kids(n)[-1]
            return n
        for f in prog.funcs.values():
            if f.body is None or not f.name.startswith('engine::'):
                continue
            for n in f.all_nodes():
                if n['k'] != 'ArraySubscriptExpr':
                    continue
                b, i = strip_imp(kids(n)[0]), strip_imp(kids(n)[1])
                depth = 0
                while b is not None and b['k'] == 'ArraySubscriptExpr':
                    depth += 1
                    b = strip_imp(kids(b)[0])
                r = (b or {}).get('ref') or {}
                if r.get('k') not in ('Field', 'Global', 'StaticMember'):
                    continue
                t = (i.get('ct') or i.get('t') or '').replace('const ', '')
                if t in prog.enums:
                    use[(r['n'], depth)][t] += 1
                    sites.append((f, n, r['n'], depth, t))
        cache = prog.__dict__['_eidx'] = (use, sites)
    use, sites = cache
    out = []
    for f, n, arr, depth, t in sites:
        c = use[(arr, depth)]
        if len(c) < 2:
            continue
        best = c.most_common()
        if best[0][1] == best[1][1]:
            raise AnalysisBroken('E-IDX: %s dimension %d is indexed through %s equally often' % (arr, depth, dict(c)))
        if t != best[0][0] and (fids is None or f.id in fids):
            out.append((f, n, arr, depth, best[0][0], t))
    return out


def range_for_consts(loop):
    """`for (T x : {c1, c2, ...})` over compile-time constants: (the loop variable's VarDecl, [c1, c2, ...], body), else None"""
    if loop is None or loop.get('k') != 'CXXForRangeStmt':
        return None
    ch = [c for c in (loop.get('ch') or [])]
    decls = [d for c in ch if c is not None and c['k'] == 'DeclStmt' for d in kids(c) if d['k'] == 'VarDecl']
    rng = [d for d in decls if (d.get('name') or '').startswith('__range') and kids(d)]
    var = [d for d in decls if not (d.get('name') or '').startswith('__')]
    if len(rng) != 1 or len(var) != 1 or not ch or ch[-1] is None:
        return None
    if 'initializer_list' not in (rng[0].get('t') or ''):
        return None
    lists = [x for x in walk(kids(rng[0])[0]) if x['k'] == 'InitListExpr']
    if len(lists) != 1:
        return None
    vals = []
    for el in kids(lists[0]):
        c = const_of(strip_casts(el))
        if c is None:
            return None
        vals.append(c)
    t = (var[0].get('t') or '')
    if '&' in t and 'const' not in t:
        return None
    return var[0], vals, ch[-1]
