"""Disjunctive forward dataflow over a function CFG.

A *state* is any hashable value; each program point carries a frozenset of
states (powerset domain => path-sensitive for the finite facts tracked).
The client supplies
  transfer(fn, node, state)        -> iterable of successor states (usually one)
  refine(fn, cond, truth, state)   -> state, or None when the edge is infeasible
                                      under that state (cond already `!`-normalised)
  on_backedge(fn, src, dst, state) -> state   (optional)
`run` returns (at, exits): at[node id] = frozenset of states *before* the
element executes; exits = frozenset of states reaching the function exit
(union over return statements)."""
from collections import deque

from rules.common import norm_cond

MAX_STATES = 4096


class TooManyStates(Exception):
    pass


def run(fn, entry_states, transfer, refine=None, on_backedge=None, want_edges=False):
    c = fn.cfg
    nodes = fn.nodes
    inb = {c.entry: frozenset(entry_states)}
    at = {}
    exits = set()
    back = set(c.back_edges()) if on_backedge else set()
    work = deque([c.entry])
    queued = {c.entry}
    edge_states = {}
    while work:
        b = work.popleft()
        queued.discard(b)
        cur = set(inb.get(b, ()))
        blk = c.blocks[b]
        for nid in blk['el']:
            n = nodes.get(nid)
            at[nid] = frozenset(at.get(nid, frozenset()) | cur)
            if n is None:
                continue
            nxt = set()
            for s in cur:
                for t in transfer(fn, n, s):
                    nxt.add(t)
            cur = nxt
            if len(cur) > MAX_STATES:
                raise TooManyStates(fn.id)
        if b == c.exit:
            exits |= cur
            continue
        cond = c.branch_cond(b)
        succs = c.succ[b]
        two_way = cond is not None
        for k, s in succs:
            out = set()
            for st in cur:
                st2 = st
                if two_way and refine is not None:
                    cn, neg = norm_cond(cond)
                    truth = (k == 0) != neg
                    st2 = refine(fn, cn, truth, st)
                    if st2 is None:
                        continue
                if (b, s) in back:
                    st2 = on_backedge(fn, b, s, st2)
                    if st2 is None:
                        continue
                out.add(st2)
            if want_edges:
                edge_states[(b, k, s)] = frozenset(edge_states.get((b, k, s), frozenset()) | out)
            if s == c.exit:
                # falls off / return edge: states are exit states
                pass
            old = inb.get(s, frozenset())
            new = old | out
            if new != old:
                inb[s] = frozenset(new)
                if s not in queued:
                    queued.add(s)
                    work.append(s)
    if want_edges:
        return at, frozenset(exits), edge_states
    return at, frozenset(exits)
