"""ATOMS — conditions as sets of normalised atoms.

A condition is flattened over && (or ||) and every atom is brought to a normal
form that does not depend on how it is spelt:

  e cmp CONST  with e of a small enumeration type -> ('in', e, frozenset of allowed values)
                 (so `r != RANK_7`, `r < RANK_7`, `!(r == RANK_7)` coincide; a tautology disappears,
                 an unsatisfiable atom becomes FALSE)
  e cmp CONST  with e integral                   -> ('le'|'ge', e, c) / ('in',...) for == and !=
  a == b, a != b                                 -> ('eq'|'ne', sorted operands)
  anything else                                  -> ('truthy', e, polarity)

Two conditions with the same atom set are equivalent; the converse does not
hold, which is why a difference the rule cannot attribute to a missing atom is
reported as unrecognised (analysis-broken) rather than as a violation."""
from prog import kids, short
from rules.common import strip_casts, const_of
from rules.effects import canon

DOMS = {'engine::Rank': 8, 'engine::File': 8, 'engine::Color': 2, 'engine::Square': 65, 'bool': 2,
        'engine::PieceKind': 7, 'engine::Castling': 16}
TAUT = ('taut',)
FALSE = ('false',)
_CMP = {'==': lambda a, b: a == b, '!=': lambda a, b: a != b, '<': lambda a, b: a < b, '<=': lambda a, b: a <= b,
        '>': lambda a, b: a > b, '>=': lambda a, b: a >= b}
_SWAP = {'<': '>', '<=': '>=', '>': '<', '>=': '<=', '==': '==', '!=': '!='}


def _unbool(n):
    """strip casts including explicit bool(...) conversions and double negation"""
    while True:
        m = n
        while m is not None and m.get('k') in ('ImplicitCastExpr', 'CStyleCastExpr', 'CXXFunctionalCastExpr', 'CXXStaticCastExpr',
                                               'ParenExpr', 'ExprWithCleanups') and kids(m):
            m = kids(m)[-1]
        m = strip_casts(m)
        if m is n:
            return n
        n = m


def _type_of(n):
    t = (n.get('t') or '').replace('const ', '').strip()
    return t


def flatten(n, op):
    n = _unbool(n)
    if n is not None and n['k'] == 'BinaryOperator' and n.get('op') == op:
        a, b = kids(n)
        return flatten(a, op) + flatten(b, op)
    return [n]


def cn(f, n, inline=False):
    return canon(f, n, inline=inline).replace(' ', '')


def norm_atom(f, n, truth=True, inline=False):
    n = _unbool(n)
    if n['k'] == 'UnaryOperator' and n.get('op') == '!':
        return norm_atom(f, kids(n)[0], not truth, inline)
    op = n.get('op')
    if n['k'] in ('BinaryOperator', 'CXXOperatorCallExpr') and op in _CMP:
        ks = kids(n) if n['k'] == 'BinaryOperator' else kids(n)[1:]
        a, b = _unbool(ks[0]), _unbool(ks[1])
        ca, cb = const_of(a), const_of(b)
        if ca is not None and cb is None:
            a, b, ca, cb, op = b, a, cb, ca, _SWAP[op]
        if cb is not None and ca is None:
            e = cn(f, a, inline)
            dom = DOMS.get(_type_of(a))
            if dom is not None:
                allowed = frozenset(v for v in range(dom) if _CMP[op](v, cb) == truth)
                if len(allowed) == dom:
                    return TAUT
                if not allowed:
                    return FALSE
                return ('in', e, allowed)
            if op in ('==', '!='):
                return ('eq' if (op == '==') == truth else 'ne', e, cb)
            # integral: normalise to le / ge
            if not truth:
                op = {'<': '>=', '<=': '>', '>': '<=', '>=': '<'}[op]
            if op == '<':
                return ('le', e, cb - 1)
            if op == '<=':
                return ('le', e, cb)
            if op == '>':
                return ('ge', e, cb + 1)
            return ('ge', e, cb)
        if op in ('==', '!='):
            pair = tuple(sorted([cn(f, a, inline), cn(f, b, inline)]))
            return ('eq' if (op == '==') == truth else 'ne',) + pair
        if not truth:
            op = {'<': '>=', '<=': '>', '>': '<=', '>=': '<'}[op]
        x, y = cn(f, a, inline), cn(f, b, inline)
        if op in ('>', '>='):
            x, y, op = y, x, _SWAP[op]
        return (op, x, y)
    return ('truthy', cn(f, n, inline), truth)


def conj(f, n, inline=False):
    """atom set of a conjunction (tautologies dropped)"""
    out = set()
    for a in flatten(n, '&&'):
        at = norm_atom(f, a, True, inline)
        if at != TAUT:
            out.add(at)
    return frozenset(out)


def disj(f, n, inline=False):
    """set of alternatives, each an atom set (a conjunction)"""
    out = set()
    for a in flatten(n, '||'):
        c = conj(f, a, inline)
        if FALSE in c:
            continue
        out.add(c)
    return frozenset(out)


def facts_atoms(f, facts, inline=False):
    """guard facts [(cond, truth)] (as produced by common.guard_facts, which already splits
    true conjunctions and false disjunctions into their members) -> atom set; exits of loops
    (`while (x)` left with x false) are not guards and are dropped"""
    loop_conds = {cn(f, kids(l)[0], inline) for l in f.all_nodes() if l['k'] == 'WhileStmt'} | \
                 {cn(f, l['ch'][2], inline) for l in f.all_nodes() if l['k'] == 'ForStmt' and len(l['ch']) > 2 and l['ch'][2]}
    out = set()
    for c, t in facts:
        c = _unbool(c)
        if c['k'] == 'BinaryOperator' and ((c.get('op') == '&&' and t) or (c.get('op') == '||' and not t)):
            continue
        if c['k'] == 'BinaryOperator' and c.get('op') in ('&&', '||'):
            out.add(('compound', cn(f, c, inline), t))
            continue
        if not t and cn(f, c, inline) in loop_conds:
            continue
        at = norm_atom(f, c, t, inline)
        if at != TAUT:
            out.add(at)
    return frozenset(out)


def IN(e, dom, *vals):
    return ('in', e, frozenset(vals))


def show(s):
    def one(a):
        if a[0] == 'in':
            return '%s in {%s}' % (a[1], ','.join(map(str, sorted(a[2]))))
        return ' '.join(map(str, a))
    if s and isinstance(next(iter(s)), frozenset):
        return ' || '.join(sorted('(' + ' && '.join(sorted(one(a) for a in c)) + ')' for c in s))
    return ' && '.join(sorted(one(a) for a in s))
