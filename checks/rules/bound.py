"""BOUND — coarse interval bounds of the evaluators' results.

A Score is abstracted by one interval covering both of its components. The
interpreter walks the structured AST (declarations, assignments, if, counting
for loops, pop_lsb while loops, returns). Loops are handled by the additive
rule: inside a loop an accumulator declared outside may only be changed by
`+=`/`-=` of a value that does not depend on outer accumulators; the effect
of n <= N iterations is then n times the per-iteration interval. Atoms:
popcount in [0,64], distance/rank/file in [0,7], number_of_pieces in [0,10]
(pawns [0,8]) — assumption A-MAT (legal material), bools in [0,1], constants and
tables by their evaluated values. Anything else raises AnalysisBroken."""
from facts import AnalysisBroken
from prog import walk, kids, short
from rules.common import strip_casts, const_of, range_for_consts

TOP = None


def hull(*xs):
    xs = [x for x in xs if x is not None]
    if not xs:
        return None
    return (min(x[0] for x in xs), max(x[1] for x in xs))


def add(a, b):
    return (a[0] + b[0], a[1] + b[1])


def sub(a, b):
    return (a[0] - b[1], a[1] - b[0])


def mul(a, b):
    c = [a[0] * b[0], a[0] * b[1], a[1] * b[0], a[1] * b[1]]
    return (min(c), max(c))


def div(a, b):
    if b[0] <= 0 <= b[1]:
        raise AnalysisBroken('BOUND: division by an interval containing zero')
    c = [int(a[0] / b[0]), int(a[0] / b[1]), int(a[1] / b[0]), int(a[1] / b[1])]
    return (min(c), max(c))


def flat(v):
    if isinstance(v, list):
        for x in v:
            yield from flat(x)
    else:
        yield v


NUMERIC = ('Value', 'Score', 'int', 'long', 'int64_t', 'int32_t', 'unsigned', 'uint32_t', 'Rank', 'File', 'bool', 'size_t', 'Depth')


def is_num(t):
    t = (t or '').replace('const ', '').replace('engine::', '').replace('&', '').strip()
    return t in ('Value', 'Score', 'int', 'long', 'int64_t', 'int32_t', 'unsigned int', 'uint32_t', 'Rank', 'File', 'bool',
                 'unsigned long', 'long long', 'Depth', 'uint8_t', 'unsigned char')


class Bound:
    def __init__(self, prog, ctx=None, weight=None, endgame=None):
        self.p = prog
        self.ctx = ctx
        self.memo = {}
        self.stack = []
        self.weight = weight            # interval of PositionScorer::_weight
        self.endgame = endgame          # interval of endgame::score when it is not VALUE_NONE
        self.assumed = set()
        self.nfun = set()

    def summary(self, fn, args=None):
        key = fn.id if not args or all(a is None for a in args) else (fn.id, tuple(args))
        if key in self.memo:
            return self.memo[key]
        if fn.id in self.stack:
            raise AnalysisBroken('BOUND: recursion through %s' % fn.id)
        if fn.body is None:
            raise AnalysisBroken('BOUND: no body for %s' % fn.id)
        self.stack.append(fn.id)
        self.nfun.add(fn.id)
        if self.ctx is not None:
            self.ctx.analysed(fn)
        fr = BFrame(self, fn)
        for q, a in zip(fn.params, args or []):
            if a is not None:
                fr.env[('P', q['id'])] = a
        fr.run(fn.body)
        if fr.need_second:
            fr2 = BFrame(self, fn)
            for q, a in zip(fn.params, args or []):
                if a is not None:
                    fr2.env[('P', q['id'])] = a
            fr2.cache = fr.cache
            fr2.run(fn.body)
            fr = fr2
        r = hull(*fr.rets) if fr.rets else (0, 0)
        self.stack.pop()
        self.memo[key] = (r, fr.ret_sites)
        return self.memo[key]


class BFrame:
    def __init__(self, b, fn):
        self.b = b
        self.fn = fn
        self.env = {}
        self.rets = []
        self.ret_sites = []
        self.cache = None
        self.need_second = False
        self.loop_outer = []      # stack of sets of accumulator keys that are in delta mode
        self.tags = {}

    def key_of(self, lhs):
        l = strip_casts(lhs)
        if l['k'] == 'DeclRefExpr' and l['ref']['k'] in ('Local', 'Parm'):
            return (l['ref']['k'][0], l['ref']['id'])
        if l['k'] == 'MemberExpr' and l.get('ref', {}).get('k') == 'Field':
            base = kids(l)
            if base and strip_casts(base[0])['k'] != 'CXXThisExpr':
                return self.key_of(base[0])            # score.mg -> score
            return ('F', l['ref']['n'])
        if l['k'] == 'ArraySubscriptExpr':
            base = l
            idx = []
            while base['k'] == 'ArraySubscriptExpr':
                idx.insert(0, strip_casts(kids(base)[1]))
                base = strip_casts(kids(base)[0])
            k = self.key_of(base)
            if k is not None and k[0] == 'F' and all('cv' in i for i in idx):
                return k + tuple(i['cv'] for i in idx)        # element addressed by constants: its own cell
            return k
        return None

    # ---- statements -----------------------------------------------------------------------------------------
    def run(self, n):
        if n is None:
            return
        k = n['k']
        ks = kids(n)
        if k in ('CompoundStmt', 'DeclStmt'):
            for c in ks:
                self.run(c)
        elif k == 'VarDecl':
            key = ('L', n['id'])
            if not is_num(n.get('t')) and 'Score' not in (n.get('t') or ''):
                if ks and ks[0]['k'] not in ('LambdaExpr',):
                    self.ev(ks[0], want=False)
                self.env[key] = TOP
                return
            if ks:
                self.env[key] = self.ev(ks[0])
                c0 = strip_casts(ks[0])
                if c0.get('callee', {}).get('n') == 'engine::endgame::score':
                    self.tags[key] = 'endgame'
            else:
                self.env[key] = (0, 0) if 'Score' in (n.get('t') or '') else TOP
        elif k == 'IfStmt':
            cv = const_of(ks[0])
            self.ev(ks[0], want=False)
            if cv is not None:
                sel = 1 if cv else 2
                if sel < len(ks) and ks[sel] is not None:
                    self.run(ks[sel])
                return
            before = dict(self.env)
            # `if (v != VALUE_NONE)` on the dispatcher's result separates the evaluators' values from the sentinel
            split = None
            c = strip_casts(ks[0])
            if c['k'] == 'BinaryOperator' and c.get('op') in ('!=', '=='):
                l, r = [strip_casts(x) for x in kids(c)]
                kk = self.key_of(l)
                none = self.b.p.val('engine::VALUE_NONE')
                if kk is not None and self.tags.get(kk) == 'endgame' and const_of(r) == none:
                    split = (kk, c['op'] == '!=')
            if split:
                self.env[split[0]] = self.b.endgame if split[1] else (none, none)
            self.run(ks[1])
            a = self.env
            self.env = dict(before)
            if split:
                self.env[split[0]] = (none, none) if split[1] else self.b.endgame
            if len(ks) > 2 and ks[2] is not None:
                self.run(ks[2])
            for key in set(a) | set(self.env):
                if key in a and key in self.env:
                    x, y = a[key], self.env[key]
                    self.env[key] = hull(x, y) if x is not None and y is not None else TOP
                elif key in a:
                    self.env[key] = a[key]
        elif k in ('ForStmt', 'WhileStmt'):
            self.loop(n)
        elif k == 'ReturnStmt':
            if ks:
                v = self.ev(ks[0])
                if v is None:
                    raise AnalysisBroken('BOUND: unbounded return value at %s' % self.fn.loc(n))
                self.rets.append(v)
                self.ret_sites.append((n.get('l'), v))
        elif k in ('BreakStmt', 'ContinueStmt', 'NullStmt'):
            pass
        elif k == 'CXXForRangeStmt' and range_for_consts(n) is not None:
            # a loop over a braced list of constants: the body once per listed value, in order
            var, vals, body = range_for_consts(n)
            if any(x['k'] in ('BreakStmt', 'ContinueStmt', 'ReturnStmt') for x in walk(body)):
                raise AnalysisBroken('BOUND: break/continue/return inside a loop over a constant list in %s' % self.fn.name)
            for v in vals:
                self.env[('L', var['id'])] = (v, v)
                self.run(body)
        elif k in ('CXXForRangeStmt', 'DoStmt', 'SwitchStmt'):
            raise AnalysisBroken('BOUND: statement kind %s in %s' % (k, self.fn.name))
        else:
            self.ev(n, want=False)

    def trip_bound(self, n):
        if n['k'] == 'WhileStmt':
            if any(x.get('callee', {}).get('n') == 'engine::pop_lsb' for x in walk(kids(n)[1])):
                return 64
            raise AnalysisBroken('BOUND: while loop without pop_lsb in %s' % self.fn.name)
        ch = n['ch']
        cond = ch[2]
        if cond is None or cond['k'] != 'BinaryOperator' or cond.get('op') not in ('<', '<=', '!='):
            raise AnalysisBroken('BOUND: loop condition in %s' % self.fn.name)
        hi = self.ev(kids(cond)[1])
        init = ch[0]
        lo = 0
        if init is not None:
            v = [x for x in walk(init) if x['k'] == 'VarDecl']
            if len(v) == 1 and kids(v[0]):
                iv = self.ev(kids(v[0])[0])
                lo = iv[0] if iv else 0
                self.env[('L', v[0]['id'])] = (lo, hi[1] if hi else lo)
        if hi is None:
            raise AnalysisBroken('BOUND: unbounded loop in %s at line %s' % (self.fn.name, n.get('l')))
        return max(0, hi[1] - lo + (1 if cond['op'] == '<=' else 0))

    def loop(self, n):
        N = self.trip_bound(n)
        body = n['ch'][4] if n['k'] == 'ForStmt' else kids(n)[1]
        # accumulators: keys existing before the loop
        outer = {k for k in self.env}
        saved = {k: self.env[k] for k in outer}
        acc = self.accumulators(body, outer)
        for k in acc:
            if saved.get(k) is None and k in saved:
                pass
            self.env[k] = (0, 0)
        self.loop_outer.append(acc)
        self.run(body)
        self.loop_outer.pop()
        for k in outer:
            if k in acc:
                d = self.env.get(k)
                if d is None or saved[k] is None:
                    self.env[k] = TOP
                else:
                    self.env[k] = add(saved[k], (min(0, N * d[0]), max(0, N * d[1])))
            else:
                cur = self.env.get(k)
                self.env[k] = hull(saved[k], cur) if saved[k] is not None and cur is not None else saved[k] if cur is saved[k] else TOP
        # loop-local declarations go out of scope: harmless to keep

    def accumulators(self, body, outer):
        acc = set()
        for x in walk(body):
            op = x.get('op')
            if x['k'] in ('CompoundAssignOperator', 'CXXOperatorCallExpr', 'BinaryOperator') and op in ('+=', '-=', '*=', '/=', '='):
                ks = kids(x) if x['k'] != 'CXXOperatorCallExpr' else kids(x)[1:]
                if len(ks) != 2:
                    continue
                key = self.key_of(ks[0])
                if key is None or key not in outer:
                    if key is not None and key[0] == 'F':
                        pass
                    else:
                        continue
                l = strip_casts(ks[0])
                if not (is_num(l.get('t')) or 'Score' in (l.get('t') or '')):
                    continue
                if op in ('+=', '-='):
                    acc.add(key)
                elif op == '=':
                    # plain assignment of a value that does not depend on outer numeric state: the variable ends up as old or new
                    dep = False
                    for y in walk(ks[1]):
                        k2 = self.key_of(y) if y['k'] in ('DeclRefExpr', 'MemberExpr') else None
                        if k2 is not None and k2 in outer and (is_num(y.get('t')) or 'Score' in (y.get('t') or '')) and \
                                self.env.get(k2) is not None and k2 == key:
                            dep = True
                    if dep:
                        raise AnalysisBroken('BOUND: self-dependent assignment of an outer variable inside a loop in %s (line %s)' % (self.fn.name, x.get('l')))
                else:
                    raise AnalysisBroken('BOUND: %s of an outer numeric variable inside a loop in %s (line %s)' % (op, self.fn.name, x.get('l')))
        return acc

    # ---- expressions -------------------------------------------------------------------------------------------
    def ev(self, n, want=True):
        """interval of a numeric expression, TOP(None) when not numeric/unknown; want=False: evaluate for effects only"""
        if n is None:
            return TOP
        k = n['k']
        ks = kids(n)
        if 'cv' in n and isinstance(n['cv'], (int, float)) and k not in ('CallExpr', 'CXXMemberCallExpr'):
            return (n['cv'], n['cv'])
        if k in ('ParenExpr', 'ExprWithCleanups', 'MaterializeTemporaryExpr', 'CXXBindTemporaryExpr', 'ConstantExpr',
                 'ImplicitCastExpr', 'CStyleCastExpr', 'CXXFunctionalCastExpr', 'CXXStaticCastExpr', 'SubstNonTypeTemplateParmExpr'):
            if not ks:
                return TOP
            v = self.ev(ks[-1], want)
            t = (n.get('t') or '').replace('const ', '')
            if t == 'bool' or n.get('ck') in ('IntegralToBoolean',):
                return (0, 1)
            if v is None and is_num(n.get('t')):
                inner = strip_casts(ks[-1])
                it = (inner.get('t') or '').replace('const ', '').replace('engine::', '')
                if it in ('Rank', 'File'):
                    return (0, 7)
                if it == 'bool':
                    return (0, 1)
            return v
        if k == 'DeclRefExpr':
            r = n['ref']
            if r['k'] in ('Local', 'Parm'):
                v = self.env.get((r['k'][0], r['id']))
                if v is None:
                    t = (n.get('t') or '').replace('const ', '').replace('engine::', '')
                    if t == 'bool':
                        return (0, 1)
                    if t in ('Rank', 'File'):
                        return (0, 7)
                return v
            if r['k'] in ('Global', 'StaticMember'):
                v = self.b.p.vars.get(r['n'])
                if v is not None and v.get('val') is not None:
                    val = self.b.p.val(r['n'])
                    fl = [x for x in flat(val) if isinstance(x, (int, float))]
                    if fl:
                        return (min(fl), max(fl))
                return TOP
            if r['k'] == 'Enum':
                return (n['cv'], n['cv']) if 'cv' in n else TOP
            return TOP
        if k == 'MemberExpr':
            name = (n.get('ref') or {}).get('n', '')
            if name == 'engine::PositionScorer::_weight':
                if self.b.weight is None:
                    raise AnalysisBroken('BOUND: _weight read without an established range')
                return self.b.weight
            if short(name) in ('mg', 'eg', 'first', 'second'):
                return self.ev(ks[0], want) if ks else TOP
            if short(name) == 'value' and ks:
                if self.cache is None:
                    self.need_second = True
                    return (0, 0)
                return self.cache
            key = self.key_of(n)
            if key is not None and key in self.env:
                return self.env[key]
            return TOP
        if k == 'ArraySubscriptExpr':
            base = n
            idx = []
            while base['k'] == 'ArraySubscriptExpr':
                idx.insert(0, kids(base)[1])
                base = strip_casts(kids(base)[0])
            for i in idx:
                self.ev(i, False)
            r = base.get('ref') or {}
            if r.get('k') in ('Global', 'StaticMember'):
                v = self.b.p.vars.get(r['n'])
                if v is not None and v.get('val') is not None:
                    val = self.b.p.val(r['n'])
                    # constant leading indices select a sub-table
                    for i in idx:
                        c = const_of(strip_casts(i))
                        if c is not None and isinstance(val, list) and 0 <= c < len(val) and not (len(val) == 2 and not isinstance(val[0], list) and 'Score' in (v.get('elt') or '')):
                            val = val[c]
                        else:
                            break
                    fl = [x for x in flat(val) if isinstance(x, (int, float))]
                    if fl:
                        return (min(fl), max(fl))
                return TOP
            key = self.key_of(n)
            if key is not None and key in self.env:
                return self.env[key]
            if key is not None and key[0] == 'F':
                return self.env.get(key, (0, 0) if 'Score' in (n.get('t') or '') else TOP)
            return TOP
        if k == 'UnaryOperator':
            op = n.get('op')
            v = self.ev(ks[0], want)
            if op == '-':
                return (-v[1], -v[0]) if v is not None else TOP
            if op == '!':
                return (0, 1)
            if op in ('++', '--'):
                return v
            if op == '+':
                return v
            return TOP
        if k == 'CXXOperatorCallExpr' and n.get('op') == '()':
            return self.lambda_call(n)
        if k in ('BinaryOperator', 'CompoundAssignOperator', 'CXXOperatorCallExpr'):
            op = n.get('op')
            args = ks if k != 'CXXOperatorCallExpr' else ks[1:]
            if len(args) == 1:
                v = self.ev(args[0], want)
                if op == '-':
                    return (-v[1], -v[0]) if v is not None else TOP
                if op == '!':
                    return (0, 1)
                return v if op in ('+', '++', '--') else TOP
            if len(args) != 2:
                for a in args:
                    self.ev(a, False)
                return TOP
            a, b = args
            if op == '=':
                v = self.ev(b, want)
                self.store(n, a, v, '=')
                return v
            if op in ('+=', '-=', '*=', '/=', '|=', '&=', '^=', '<<=', '>>='):
                cur = self.ev(a, want)
                rhs = self.ev(b, want)
                res = self.arith(n, op[:-1], cur, rhs)
                self.store(n, a, res, op)
                return res
            x = self.ev(a, want)
            y = self.ev(b, want)
            if op in ('&&', '||', '==', '!=', '<', '<=', '>', '>='):
                return (0, 1)
            return self.arith(n, op, x, y)
        if k == 'ConditionalOperator':
            c, a, b = ks
            cv = const_of(c)
            self.ev(c, False)
            if cv is not None:
                return self.ev(a if cv else b, want)
            x, y = self.ev(a, want), self.ev(b, want)
            return hull(x, y) if x is not None and y is not None else TOP
        if k in ('CXXConstructExpr', 'CXXTemporaryObjectExpr', 'InitListExpr', 'CXXScalarValueInitExpr'):
            if not ks:
                return (0, 0)
            vs = [self.ev(a, want) for a in ks]
            if any(v is None for v in vs):
                return TOP
            return hull(*vs)
        if k in ('IntegerLiteral', 'CXXBoolLiteralExpr', 'CharacterLiteral'):
            return (n.get('cv', 0), n.get('cv', 0))
        if k in ('CallExpr', 'CXXMemberCallExpr'):
            return self.call(n, want)
        if k in ('CXXThisExpr', 'LambdaExpr', 'StringLiteral', 'CXXDefaultArgExpr', 'CXXNullPtrLiteralExpr', 'ImplicitValueInitExpr'):
            return (n['cv'], n['cv']) if isinstance(n.get('cv'), int) else TOP
        raise AnalysisBroken('BOUND: expression kind %s at %s' % (k, self.fn.loc(n)))

    def arith(self, n, op, x, y):
        if op in ('|', '&', '^', '<<', '>>', '%', '~'):
            if op == '%' and y is not None and y[0] > 0:
                return (0, y[1] - 1) if x is None or x[0] >= 0 else (-(y[1] - 1), y[1] - 1)
            if op == '&' and y is not None and y[0] >= 0:
                return (0, y[1])
            return TOP
        if x is None or y is None:
            t = n.get('t') or ''
            if is_num(t) or 'Score' in t:
                if want_num(n):
                    return TOP
            return TOP
        if op == '+':
            return add(x, y)
        if op == '-':
            return sub(x, y)
        if op == '*':
            return mul(x, y)
        if op == '/':
            return div(x, y)
        raise AnalysisBroken('BOUND: operator %s at %s' % (op, self.fn.loc(n)))

    def store(self, n, lhs, v, op):
        key = self.key_of(lhs)
        if key is None:
            return
        l = strip_casts(lhs)
        t = l.get('t') or ''
        if l['k'] == 'ArraySubscriptExpr' and key[0] == 'F' and op == '=' and not (is_num(t) or 'Score' in t):
            return
        if l['k'] == 'ArraySubscriptExpr' and op == '=' and len(key) <= 2:
            # element store: the abstract cell covers all elements
            old = self.env.get(key)
            self.env[key] = hull(old, v) if old is not None and v is not None else v
            return
        self.env[key] = v

    # ---- calls -------------------------------------------------------------------------------------------------------
    def lambda_call(self, n):
        """a call of a lambda written in this function: its body is evaluated in place with the parameters bound; a lambda that
        writes a variable it did not declare is outside the rule"""
        from prog import access_kind
        g = self.b.p.funcs.get((n.get('callee') or {}).get('fid'))
        if g is None or g.body is None or getattr(g, 'enclosing', None) is not self.fn or getattr(self, '_inl', 0) >= 3:
            raise AnalysisBroken('BOUND: call of a function object at %s' % self.fn.loc(n))
        own = {q['id'] for q in g.params} | {x['id'] for x in g.all_nodes() if x['k'] == 'VarDecl'}
        for x in g.all_nodes():
            r = x.get('ref') or {}
            if x['k'] == 'DeclRefExpr' and r.get('k') in ('Local', 'Parm') and r.get('id') not in own and \
                    access_kind(g, x) in ('write', 'rmw', 'addr'):
                raise AnalysisBroken('BOUND: the lambda called at %s writes the captured variable %s' % (self.fn.loc(n), r.get('n')))
        args = kids(n)[2:]
        for q, a in zip(g.params, args):
            v = self.ev(a)
            self.env[('P', q['id'])] = v
        saved = (self.rets, self.ret_sites)
        self.rets, self.ret_sites = [], []
        self._inl = getattr(self, '_inl', 0) + 1
        try:
            self.run(g.body)
            rets = self.rets
        finally:
            self.rets, self.ret_sites = saved
            self._inl -= 1
        if any(r is None for r in rets):
            return TOP
        return hull(*rets) if rets else TOP

    def call(self, n, want):
        cal = n.get('callee', {})
        name = cal.get('n', '')
        sn = short(name)
        ks = kids(n)
        args = ks[1:]
        for a in args:
            if a['k'] != 'LambdaExpr':
                pass
        if name in ('engine::popcount',):
            self.ev(args[0], False)
            return (0, 64)
        if name in ('engine::popcount_more_than_one', 'engine::all_on_same_file', 'engine::bitbase::check'):
            return (0, 1)
        if name in ('engine::distance',):
            return (0, 7)
        if name in ('engine::lsb', 'engine::msb', 'engine::pop_lsb'):
            for a in args:
                self.ev(a, False)
            return (0, 63)
        if name in ('engine::rank', 'engine::file'):
            return (0, 7)
        if name in ('engine::relative_rank',):
            return (0, 7)
        if name == 'engine::Position::number_of_pieces':
            self.b.assumed.add('A-MAT: at most 10 pieces of a kind and 8 pawns per colour')
            a = strip_casts(args[0])
            pe = self.b.p.enum('engine::Piece')
            txt = ' '.join(str(x.get('ref', {}).get('n', '')) for x in walk(a))
            cv = const_of(a)
            if cv in (pe['W_PAWN'], pe['B_PAWN']) or 'engine::PAWN' in txt:
                return (0, 8)
            return (0, 10)
        if name == 'engine::Position::no_nonpawns':
            return (0, 16)
        if name.startswith('engine::Position::'):
            return TOP
        if name.startswith('std::') or name in ('abs', 'labs'):
            vs = [self.ev(a, want) for a in args if 'lambda' not in (a.get('t') or '')]
            if sn in ('abs', 'labs', 'llabs'):
                v = vs[0]
                if v is None:
                    t = strip_casts(args[0])
                    return (0, 7) if 'File' in str([x.get('t') for x in walk(t)]) else TOP
                m = max(abs(v[0]), abs(v[1]))
                return (0 if v[0] <= 0 <= v[1] else min(abs(v[0]), abs(v[1])), m)
            if sn == 'min':
                if any(v is None for v in vs[:2]):
                    known = [v for v in vs[:2] if v is not None]
                    return (None if not known else (-(10 ** 18), known[0][1])) if False else TOP if not known else TOP
                return (min(vs[0][0], vs[1][0]), min(vs[0][1], vs[1][1]))
            if sn == 'max':
                if any(v is None for v in vs[:2]):
                    return TOP
                if len(args) == 3:
                    return hull(vs[0], vs[1])      # custom comparator: one of the two
                return (max(vs[0][0], vs[1][0]), max(vs[0][1], vs[1][1]))
            if sn in ('make_pair', 'move', 'forward'):
                return vs[-1] if vs else TOP
            raise AnalysisBroken('BOUND: %s at %s' % (name, self.fn.loc(n)))
        if name.endswith('::probe'):
            return TOP
        if name.endswith('::insert'):
            v = self.ev(args[1])
            self.cache = hull(self.cache, v) if self.cache is not None else v
            return TOP
        if name.endswith('PositionScorer::combine'):
            v = self.ev(args[0])
            return v       # convex combination of the two components (checked structurally in C14.R4.combine)
        if name == 'engine::endgame::score':
            if self.b.endgame is None:
                raise AnalysisBroken('BOUND: endgame::score used before its bound is known')
            none = self.b.p.val('engine::VALUE_NONE')
            return hull(self.b.endgame, (none, none))
        if name in ('engine::endgame::EndgameBase::strongSideScore',):
            if self.b.endgame is None:
                raise AnalysisBroken('BOUND: strongSideScore used before its bound is known')
            return self.b.endgame
        callee = self.b.p.funcs.get(cal.get('fid'))
        rt = (n.get('t') or '')
        argv = [self.ev(a, False) if a['k'] != 'LambdaExpr' else None for a in args]
        if callee is None or callee.body is None:
            if is_num(rt) or 'Score' in rt:
                raise AnalysisBroken('BOUND: numeric call to %s at %s has no body' % (name, self.fn.loc(n)))
            return TOP
        if not (is_num(rt) or 'Score' in rt):
            return TOP
        r, _ = self.b.summary(callee, argv if n['k'] == 'CallExpr' and len(argv) == len(callee.params) else None)
        return r


def want_num(n):
    return False
