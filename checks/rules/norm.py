"""NORM — spelling-independent normal forms of expressions and conditions.

`Norm(f, env)` evaluates an expression tree of function f partially: variables
bound in env (typically the side to move: {'side': 0}) become constants,
conditionals and comparisons over constants are folded, single-definition
locals are replaced by their definition (so local names do not matter),
`x + c`/`x - c` become a linear form, operands of commutative operators are
sorted. Conditions become sets of atoms (rules/atoms.py conventions:
('in', e, allowed values) for tests of a small enumeration against constants,
('eq'|'ne', a, b), ('le'|'ge', e, c), ('truthy', e, polarity)).

Rules that must hold "for both colours" evaluate their obligations once per
colour under env = {side: WHITE} and {side: BLACK}; `side == WHITE ? a : b`
and `side == BLACK ? b : a` are then the same thing."""
from prog import kids, short, walk
from rules.common import strip_casts
from rules.effects import single_def, reaching_def

DOMS = {'engine::Rank': 8, 'engine::File': 8, 'engine::Color': 2, 'engine::Square': 65, 'bool': 2,
        'engine::PieceKind': 7, 'engine::Castling': 16, 'engine::Piece': 13}
TAUT = ('taut',)
FALSE = ('false',)
_CMP = {'==': lambda a, b: a == b, '!=': lambda a, b: a != b, '<': lambda a, b: a < b, '<=': lambda a, b: a <= b,
        '>': lambda a, b: a > b, '>=': lambda a, b: a >= b}
_SWAP = {'<': '>', '<=': '>=', '>': '<', '>=': '<=', '==': '==', '!=': '!='}
_ARITH = {'+': lambda a, b: a + b, '-': lambda a, b: a - b, '*': lambda a, b: a * b, '&': lambda a, b: a & b,
          '|': lambda a, b: a | b, '^': lambda a, b: a ^ b, '<<': lambda a, b: a << b, '>>': lambda a, b: a >> b,
          '%': lambda a, b: (abs(a) % abs(b)) * (1 if a >= 0 else -1), '/': lambda a, b: (abs(a) // abs(b)) * (1 if (a >= 0) == (b >= 0) else -1)}
COMMUTATIVE = ('+', '*', '&', '|', '^', '==', '!=', '&&', '||')
CASTS = ('ImplicitCastExpr', 'CStyleCastExpr', 'CXXFunctionalCastExpr', 'CXXStaticCastExpr', 'ParenExpr', 'ExprWithCleanups',
         'MaterializeTemporaryExpr', 'CXXBindTemporaryExpr', 'ConstantExpr', 'SubstNonTypeTemplateParmExpr',
         'CXXRewrittenBinaryOperator')


def _type(n):
    return (n.get('t') or '').replace('const ', '').strip()


# definitional synonyms of the engine: reading through them makes `pawn_attacks<c>(x)` and the two shifts it stands for, or
# pieces(c, k1, k2) and pieces(c, k1) | pieces(c, k2), the same normal form
SYNONYMS = (('engine::pawn_attacks', None), ('engine::Position::pieces', 3))


class Norm:
    def __init__(self, f, env=None, inline=True, names=None, accessors=False, keep=(), assume=None):
        self.f = f
        self.env = env or {}
        self.inline = inline
        self.names = names or {}          # canonical string -> replacement (e.g. role names)
        self._depth = 0
        self.subst = {}                   # parameter name -> canonical string of the argument (inlined helper)
        self.this_prefix = ''             # object the inlined method was called on ('' = the caller's own object)
        self.keep = set(keep)             # locals never replaced by their definition
        self.assume = assume or {}        # normalised atom -> truth value taken as given (case analysis)
        self.val = {}                     # valuation: expression string -> concrete value / atom -> truth (case analysis)
        self._vguard = set()
        self._in_assume = False
        self._in_cond_fold = False
        self.accessors = accessors        # also read through field accessors `T f() const { return <expr over fields>; }`
        self.mark_post = None             # field names whose reads AFTER a write in this function are printed with a prime
        self.synonyms = ()                # (qualified name, number of parameters or None): reference functions that are read through

    # ---- stripping ----------------------------------------------------------------------------------------------------
    def strip(self, n):
        while n is not None and n.get('k') in CASTS and kids(n):
            n = kids(n)[-1]
        return n

    def resolve(self, n):
        """strip casts and follow single-definition locals"""
        n = self.strip(n)
        seen = 0
        while n is not None and seen < 8:
            r = n.get('ref')
            if n['k'] == 'ConditionalOperator' and self.val and not self._in_cond_fold:
                # under a case valuation a conditional expression whose condition the case decides is the chosen arm
                self._in_cond_fold = True
                try:
                    c_ = cond_value(self, kids(n)[0], self.val)
                except Unknown:
                    c_ = None
                finally:
                    self._in_cond_fold = False
                if c_ is None:
                    break
                n = self.strip(kids(n)[1] if c_ else kids(n)[2])
                seen += 1
                continue
            if r and r['k'] == 'Local' and r['n'] not in self.env and r['n'] not in self.keep:
                if not self.inline:
                    # names are kept, except locals the reference tree did not have
                    fl = getattr(self.f, 'frozen_locals', None)
                    if fl is None or r['n'] in fl:
                        break
                d = single_def(self.f, r['id'])
                if d is None:
                    d = reaching_def(self.f, n)
                if d is None and (self.env or self.assume or self.val):
                    d = self.feasible_def(n)
                if d is None or not self.stable_between(d, n):
                    break
                n = self.strip(d)
                seen += 1
            else:
                break
        return n

    _STABLE = {}
    _POST = {}

    def _clobbers(self, fields):
        """nodes of self.f at which one of `fields` (qualified names) may be written: assigning operators, address-taking,
        calls of non-const member functions on the owning object"""
        from prog import access_kind
        f = self.f
        owners = {x.rsplit('::', 1)[0] for x in fields}
        clob = []
        for x in f.all_nodes():
            r = x.get('ref') or {}
            if r.get('k') in ('Field', 'Global', 'StaticMember') and r['n'] in fields and \
                    access_kind(f, x) in ('write', 'rmw', 'addr', 'call'):
                w = x
                q = f.parent(w)
                while q is not None and q['k'] in ('ArraySubscriptExpr', 'ImplicitCastExpr', 'MemberExpr', 'ParenExpr') and \
                        kids(q) and (kids(q)[0] is w):
                    w, q = q, f.parent(q)
                if q is not None and q['k'] in ('BinaryOperator', 'CompoundAssignOperator') and kids(q)[0] is w and \
                        (q.get('op') == '=' or q['k'] == 'CompoundAssignOperator'):
                    w = q
                clob.append(w)
            c = x.get('callee')
            if c and x['k'] == 'CXXMemberCallExpr' and not c.get('const') and c.get('n', '').rsplit('::', 1)[0] in owners:
                obj = kids(kids(x)[0]) if kids(x) and kids(kids(x)[0]) else []
                if not obj or self.strip(obj[0])['k'] == 'CXXThisExpr':
                    prog_ = getattr(f, 'prog', None)
                    g = prog_.funcs.get(c.get('fid')) if prog_ is not None else None
                    if g is not None and g.body is not None:
                        m = prog_.mods(g.id)
                        if not any(fl in m for fl in fields):
                            # the callee (transitively) writes none of these fields; a field of class type written through its
                            # own member functions shows up as a 'call' access of that field in the callee
                            continue
                    clob.append(x)
        return clob

    def written_before(self, n, field):
        """some write of `field` can execute before the read at node n (so the read sees a state the function has changed)"""
        f = self.f
        key = (id(f), f.id, n['i'], field)
        if key in Norm._POST:
            return Norm._POST[key]
        res = False
        try:
            cfg = f.cfg
            uid = {n['i']} | {a['i'] for a in f.ancestors(n)}
            for cnode in self._clobbers({field}):
                if f.inside(n, cnode):
                    continue
                pc = cfg.position(cnode)
                if pc is None or cfg.path_avoiding(pc, set(), uid) is not None:
                    res = True
                    break
        except Exception:
            res = True
        Norm._POST[key] = res
        return res

    def written_after(self, n, field):
        """some write of `field` can still execute after the read at node n"""
        f = self.f
        try:
            cfg = f.cfg
            pn = cfg.position(n)
            for cnode in self._clobbers({field}):
                if f.inside(n, cnode):
                    return True
                if pn is None or cfg.path_avoiding(pn, set(), {cnode['i']} | {a['i'] for a in f.ancestors(cnode)}) is not None:
                    return True
        except Exception:
            return True
        return False

    def stable_between(self, d, use):
        """the memory that definition `d` reads is not written between the definition and the use, so that the definition may
        stand in for the variable there (fields and globals; a call to a non-const member function of the object counts as
        writing all of its fields)"""
        f = self.f
        key = (id(f), f.id, d['i'], use['i'])
        if key in Norm._STABLE:
            return Norm._STABLE[key]
        fields = set()
        for x in walk(d):
            r = x.get('ref') or {}
            if r.get('k') in ('Field', 'Global', 'StaticMember'):
                fields.add(r['n'])
        ok = True
        if fields:
            from prog import access_kind
            anchor = d
            par = f.parent(anchor)
            while par is not None and par['k'] not in ('VarDecl', 'BinaryOperator', 'CXXOperatorCallExpr', 'DeclStmt', 'CompoundStmt'):
                anchor = par
                par = f.parent(par)
            anchor = par if par is not None and par['k'] in ('VarDecl', 'BinaryOperator', 'CXXOperatorCallExpr') else anchor
            owners = {x.rsplit('::', 1)[0] for x in fields}
            clob = []
            for x in f.all_nodes():
                r = x.get('ref') or {}
                if r.get('k') in ('Field', 'Global', 'StaticMember') and r['n'] in fields and \
                        access_kind(f, x) in ('write', 'rmw', 'addr', 'call'):
                    # the write happens at the assigning operator, after its operands have been evaluated
                    w = x
                    q = f.parent(w)
                    while q is not None and q['k'] in ('ArraySubscriptExpr', 'ImplicitCastExpr', 'MemberExpr', 'ParenExpr') and \
                            kids(q) and (kids(q)[0] is w):
                        w, q = q, f.parent(q)
                    if q is not None and q['k'] in ('BinaryOperator', 'CompoundAssignOperator') and kids(q)[0] is w and \
                            (q.get('op') == '=' or q['k'] == 'CompoundAssignOperator'):
                        w = q
                    clob.append(w)
                c = x.get('callee')
                if c and x['k'] == 'CXXMemberCallExpr' and not c.get('const') and c.get('n', '').rsplit('::', 1)[0] in owners:
                    obj = kids(kids(x)[0]) if kids(x) and kids(kids(x)[0]) else []
                    if not obj or self.strip(obj[0])['k'] == 'CXXThisExpr':
                        clob.append(x)
            cfg = f.cfg
            try:
                pa = cfg.position(anchor)
                uid = {use['i']} | {a['i'] for a in f.ancestors(use)}
                for cnode in clob:
                    if f.inside(cnode, anchor) or f.inside(use, cnode):
                        continue
                    pc = cfg.position(cnode)
                    if pa is None or pc is None:
                        ok = False
                        break
                    # written after the definition and before the use?
                    if cfg.path_avoiding(pa, set(), {cnode['i']} | {a['i'] for a in f.ancestors(cnode)}) is not None and \
                            cfg.path_avoiding(pc, set(), uid) is not None:
                        ok = False
                        break
            except Exception:
                ok = False
        Norm._STABLE[key] = ok
        return ok

    def feasible_def(self, use):
        """when all but one definition of a local sit in branches that the environment rules out, that one"""
        from rules.common import all_guards, local_writes
        f = self.f
        vid = use['ref']['id']
        defs = []
        for x in f.all_nodes():
            if x['k'] == 'VarDecl' and x.get('id') == vid and kids(x):
                defs.append((x, kids(x)[0]))
        for w in local_writes(f, vid):
            par = f.parent(w)
            while par is not None and par['k'] in ('ImplicitCastExpr', 'ParenExpr'):
                par = f.parent(par)
            if par is not None and par['k'] == 'BinaryOperator' and par.get('op') == '=' and self.strip(kids(par)[0]) is w:
                defs.append((par, kids(par)[1]))
            elif par is not None and par['k'] == 'CXXOperatorCallExpr' and par.get('op') == '=' and self.strip(kids(par)[1]) is w:
                defs.append((par, kids(par)[2]))
            else:
                return None
        feas = []
        self._depth += 1
        try:
            if self._depth > 6:
                return None
            common = {(c['i'], t) for c, t in all_guards(f, use)}
            for anchor, val in defs:
                ok = True
                for c, t in all_guards(f, anchor):
                    if (c['i'], t) in common:
                        continue            # holds at the use as well: does not discriminate between the definitions
                    v = self.cval(c)
                    if v is None:
                        return None          # a definition that may or may not run: no single value
                    if bool(v) != t:
                        ok = False
                        break
                if ok:
                    feas.append((anchor, val))
        finally:
            self._depth -= 1
        if len(feas) == 1:
            return feas[0][1]
        # several feasible definitions in sequence: the last one wins (each earlier one dominates it)
        for a, v in feas:
            if all(b is a or f.cfg.node_dominates(b, a) for b, _ in feas):
                if f.cfg.node_dominates(a, use) or True:
                    return v
        return None

    # ---- transparent calls -------------------------------------------------------------------------------------------
    def expand(self, n):
        """(sub-normaliser, returned expression) when n is a call that is read through: a field accessor (`T f() const
        { return field; }`) or a helper the reference tree did not have whose body is declarations of single-definition
        locals followed by one return"""
        if n is None or self._depth > 5:
            return None
        is_lambda_call = n['k'] == 'CXXOperatorCallExpr' and n.get('op') == '()'
        if n['k'] not in ('CallExpr', 'CXXMemberCallExpr') and not is_lambda_call:
            return None
        prog = self.f.prog
        callee = prog.funcs.get(n.get('callee', {}).get('fid'))
        if callee is None or callee.body is None or not callee.file.startswith(prog.root):
            return None
        body = kids(callee.body)
        if not body or body[-1]['k'] != 'ReturnStmt' or not kids(body[-1]):
            return None
        for st in body[:-1]:
            if st['k'] == 'DeclStmt' and all(v['k'] == 'VarDecl' and single_def(callee, v['id']) is not None for v in kids(st)):
                continue
            if st.get('mac') in ('assert', 'ASSERT', 'ASSERT_WITH_MSG') or (st['k'] == 'CXXStaticCastExpr' and st.get('ck') == 'ToVoid'):
                continue
            return None
        ks = kids(n)
        args = [a for a in (ks[2:] if is_lambda_call else ks[1:])]
        accessor = self.accessors and len(body) == 1 and not callee.params and callee.cls is not None
        syn = any(callee.name == nm_ and (np_ is None or np_ == len(callee.params)) for nm_, np_ in self.synonyms)
        if not (accessor or syn or prog.is_new_function(callee)):
            return None
        if len(args) != len(callee.params):
            return None
        sub = Norm(callee, {}, self.inline, self.names, self.accessors)
        sub._depth = self._depth + 1
        sub.synonyms = self.synonyms
        for q, a in zip(callee.params, args):
            v = self.cval(a)
            if v is not None:
                sub.env[q['name']] = v
            else:
                sub.subst[q['name']] = self.s(a)
        sub.this_prefix = self.this_prefix
        if self.env.get('__targs__'):
            sub.env['__targs__'] = 1
        sub.val, sub.assume = self.val, self.assume
        if n['k'] == 'CXXMemberCallExpr' and ks and kids(ks[0]):
            obj = self.strip(kids(ks[0])[0])
            if obj['k'] == 'UnaryOperator' and obj.get('op') == '*':
                obj = self.strip(kids(obj)[0])
            if obj['k'] != 'CXXThisExpr':
                o = self.s(obj)
                sub.this_prefix = '' if o in ('this', '*(this)') else o + '.'
        return sub, kids(body[-1])[0]

    # ---- constants ------------------------------------------------------------------------------------------------------
    def cval(self, n):
        """constant value of n under env, or None"""
        n = self.resolve(n)
        if n is None:
            return None
        r = n.get('ref')
        if r and r['k'] in ('Local', 'Parm', 'Binding') and r['n'] in self.env:
            return self.env[r['n']]
        if n.get('tparm') in self.env:
            return self.env[n['tparm']]
        if 'cv' in n and isinstance(n['cv'], int):
            return n['cv']
        k = n['k']
        if (self.assume or self.val) and not self._in_assume and _type(n) == 'bool' and k in ('CallExpr', 'CXXMemberCallExpr', 'DeclRefExpr', 'MemberExpr'):
            self._in_assume = True
            try:
                at = self.atom(n)
            finally:
                self._in_assume = False
            if at == TAUT:
                return 1
            if at == FALSE:
                return 0
        if k == 'ConditionalOperator':
            c, a, b = kids(n)
            cv = self.cval(c)
            if cv is None:
                va, vb = self.cval(a), self.cval(b)
                return va if va is not None and va == vb else None
            return self.cval(a if cv else b)
        if k in ('BinaryOperator', 'CXXOperatorCallExpr'):
            ks = kids(n) if k == 'BinaryOperator' else kids(n)[1:]
            op = n.get('op')
            if len(ks) == 2:
                a, b = self.cval(ks[0]), self.cval(ks[1])
                if op == '&&':
                    if a == 0 or b == 0:
                        return 0
                    return 1 if a is not None and b is not None else None
                if op == '||':
                    if (a is not None and a != 0) or (b is not None and b != 0):
                        return 1
                    return 0 if a == 0 and b == 0 else None
                if (a is None or b is None) and op in _CMP and (self.assume or self.val) and not self._in_assume:
                    self._in_assume = True
                    try:
                        at = self.atom(n)
                    finally:
                        self._in_assume = False
                    if at == TAUT:
                        return 1
                    if at == FALSE:
                        return 0
                if a is None or b is None:
                    return None
                if op in _CMP:
                    return int(_CMP[op](a, b))
                if op in _ARITH:
                    try:
                        return _ARITH[op](a, b)
                    except Exception:
                        return None
            if len(ks) == 1 and op == '!':
                a = self.cval(ks[0])
                t = _type(self.strip(ks[0]))
                if a is not None and t in ('engine::Color',):
                    return 1 - a
                return None if a is None else int(not a)
        if self.val and k in ('CallExpr', 'CXXMemberCallExpr', 'MemberExpr', 'ArraySubscriptExpr', 'DeclRefExpr') and n['i'] not in self._vguard:
            self._vguard.add(n['i'])
            try:
                key = self.s(n)
            finally:
                self._vguard.discard(n['i'])
            if key in self.val and isinstance(self.val[key], int):
                return self.val[key]
        if k in ('CallExpr', 'CXXMemberCallExpr'):
            v = self._call_value(n) if k == 'CallExpr' else None
            if v is None:
                ex = self.expand(n)
                if ex is not None:
                    return ex[0].cval(ex[1])
            return v
        if k == 'UnaryOperator':
            a = self.cval(kids(n)[0])
            if a is None:
                return None
            if n.get('op') == '-':
                return -a
            if n.get('op') == '!':
                return int(not a)
            if n.get('op') == '~':
                return ~a
        return None

    def _call_value(self, n):
        """value of a call to a small pure repository function (straight-line `if (c) return a; ... return b;`) with constant arguments"""
        if self._depth > 6:
            return None
        callee = self.f.prog.funcs.get(n.get('callee', {}).get('fid'))
        if callee is None or callee.body is None or not callee.file.startswith(self.f.prog.root):
            return None
        args = kids(n)[1:]
        if len(args) != len(callee.params):
            return None
        vals = [self.cval(a) for a in args]
        if any(v is None for v in vals):
            return None
        return self.eval_body(callee, vals)

    def eval_body(self, callee, vals):
        """value of `callee(vals...)` for a small pure function (declarations, `if (c) return a;`, `return b;`, switch-free)"""
        sub = Norm(callee, {q['name']: v for q, v in zip(callee.params, vals)}, self.inline)
        sub._depth = self._depth + 1
        sub.val, sub.assume = self.val, self.assume
        for st in kids(callee.body):
            if st['k'] == 'ReturnStmt':
                return sub.cval(kids(st)[0]) if kids(st) else None
            if st['k'] == 'IfStmt':
                ks = kids(st)
                c = sub.cval(ks[0])
                if c is None:
                    return None
                br = ks[1] if c else (ks[2] if len(ks) > 2 else None)
                if br is None:
                    continue
                rs = br if br['k'] == 'ReturnStmt' else (kids(br)[0] if br['k'] == 'CompoundStmt' and len(kids(br)) == 1 else None)
                if rs is None or rs['k'] != 'ReturnStmt':
                    return None
                return sub.cval(kids(rs)[0])
            if st['k'] in ('NullStmt',) or st.get('mac') in ('assert', 'ASSERT', 'ASSERT_WITH_MSG') or st['k'] == 'CXXStaticCastExpr':
                continue
            if st['k'] == 'DeclStmt':
                for v in kids(st):
                    if v['k'] == 'VarDecl' and kids(v):
                        val = sub.cval(kids(v)[0])
                        if val is not None:
                            sub.env[v['name']] = val
                continue
            if st['k'] == 'SwitchStmt':
                ks = kids(st)
                sel = sub.cval(ks[0])
                body = kids(ks[-1]) if ks[-1]['k'] == 'CompoundStmt' else [ks[-1]]
                if sel is None:
                    return None
                start = None
                for i, lab in enumerate(body):
                    if lab['k'] == 'CaseStmt' and lab.get('casev') == sel:
                        start = i
                        break
                if start is None:
                    for i, lab in enumerate(body):
                        if lab['k'] == 'DefaultStmt':
                            start = i
                if start is None:
                    continue
                for lab in body[start:]:
                    x = lab
                    while x['k'] in ('CaseStmt', 'DefaultStmt'):
                        x = kids(x)[-1]
                    if x['k'] == 'ReturnStmt':
                        return sub.cval(kids(x)[0]) if kids(x) else None
                    if x['k'] == 'BreakStmt':
                        break
                    return None
                continue
            return None
        return None

    # ---- canonical strings ------------------------------------------------------------------------------------------------
    def lin(self, n):
        """(base string or None, offset): n == base + offset"""
        c = self.cval(n)
        if c is not None:
            return (None, c)
        m = self.resolve(n)
        if m['k'] in ('BinaryOperator', 'CXXOperatorCallExpr') and m.get('op') in ('+', '-'):
            ks = kids(m) if m['k'] == 'BinaryOperator' else kids(m)[1:]
            if len(ks) == 2:
                (ba, oa), (bb, ob) = self.lin(ks[0]), self.lin(ks[1])
                if m['op'] == '+':
                    if ba is None:
                        return (bb, oa + ob)
                    if bb is None:
                        return (ba, oa + ob)
                else:
                    if bb is None:
                        return (ba, oa - ob)
        return (self.s(m, _nolin=True), 0)

    def linear(self, n):
        """({term string: coefficient}, constant) when n is a linear combination with constant coefficients, else None"""
        c = self.cval(n)
        if c is not None:
            return ({}, c)
        m = self.resolve(n)
        k = m['k']
        ks = kids(m) if k != 'CXXOperatorCallExpr' else kids(m)[1:]
        op = m.get('op')
        if k in ('BinaryOperator', 'CXXOperatorCallExpr') and op in ('+', '-') and len(ks) == 2:
            a, b = self.linear(ks[0]), self.linear(ks[1])
            if a is None or b is None:
                return None
            sg = 1 if op == '+' else -1
            t = dict(a[0])
            for key, v in b[0].items():
                t[key] = t.get(key, 0) + sg * v
            return ({key: v for key, v in t.items() if v}, a[1] + sg * b[1])
        if k in ('BinaryOperator', 'CXXOperatorCallExpr') and op == '*' and len(ks) == 2:
            a, b = self.linear(ks[0]), self.linear(ks[1])
            if a is None or b is None:
                return None
            if not a[0]:
                return ({key: v * a[1] for key, v in b[0].items()}, a[1] * b[1])
            if not b[0]:
                return ({key: v * b[1] for key, v in a[0].items()}, a[1] * b[1])
            return None
        if k == 'UnaryOperator' and op == '-':
            a = self.linear(kids(m)[0])
            return None if a is None else ({key: -v for key, v in a[0].items()}, -a[1])
        if k == 'UnaryOperator' and op == '+':
            return self.linear(kids(m)[0])
        if k == 'ConditionalOperator':
            cv = self.cval(kids(m)[0])
            if cv is not None:
                return self.linear(kids(m)[1] if cv else kids(m)[2])
        return ({self.s(m, _nolin=True): 1}, 0)

    def s(self, n, _nolin=False):
        c = self.cval(n)
        if c is not None:
            return str(c)
        n = self.resolve(n)
        if n is None:
            return '?'
        k = n['k']
        r = n.get('ref')
        out = None
        if r:
            if r['k'] == 'Field':
                ks = kids(n)
                base = self.this_prefix
                if ks and self.strip(ks[0])['k'] != 'CXXThisExpr':
                    b = self.s(ks[0])
                    base = '' if b in ('this', '*(this)') else b + '.'
                out = base + short(r['n'])
                if self.mark_post and short(r['n']) in self.mark_post and not base and self.written_before(n, r['n']):
                    out += "'"
            elif r['k'] in ('Global', 'StaticMember', 'Enum', 'Func', 'Method'):
                out = short(r['n'])
            elif r['k'] in ('Parm', 'Local'):
                out = self.subst.get(r['n'], r['n']) if r['k'] == 'Parm' else r['n']
        elif n.get('tparm'):
            out = n['tparm']
        elif k == 'CXXThisExpr':
            out = 'this' if not self.this_prefix else self.this_prefix.rstrip('.')
        elif k == 'UnaryOperator':
            out = '%s(%s)' % (n['op'], self.s(kids(n)[0]))
        elif k == 'ConditionalOperator':
            c_, a, b = kids(n)
            cv = self.cval(c_)
            if cv is not None:
                return self.s(a if cv else b)
            at = self.atom(c_)
            sa, sb = self.s(a), self.s(b)
            # orient so that the spelling of the test does not matter
            key = str(at)
            nat = self.atom(c_, False)
            if str(nat) < key:
                at, sa, sb = nat, sb, sa
            out = '(%s?%s:%s)' % (self.show_atom(at), sa, sb)
        elif k in ('BinaryOperator', 'CXXOperatorCallExpr', 'CompoundAssignOperator'):
            ks = kids(n) if k != 'CXXOperatorCallExpr' else kids(n)[1:]
            op = n.get('op')
            if len(ks) == 1:
                out = '%s(%s)' % (op, self.s(ks[0]))
            elif op == '[]':
                out = '%s[%s]' % (self.s(ks[0]), self.s(ks[1]))
            elif op in ('+', '-') and not _nolin:
                b, o = self.lin(n)
                out = b if o == 0 else '(%s%+d)' % (b, o)
            elif op in _CMP or op in ('&&', '||'):
                out = self.show_cond(n)
            elif op in COMMUTATIVE:
                parts = []

                def fl(x):
                    y = self.resolve(x)
                    if y['k'] in ('BinaryOperator', 'CXXOperatorCallExpr') and y.get('op') == op and self.cval(y) is None:
                        for z in (kids(y) if y['k'] == 'BinaryOperator' else kids(y)[1:]):
                            fl(z)
                    else:
                        parts.append(self.s(x))
                for x in ks:
                    fl(x)
                out = '(' + op.join(sorted(parts)) + ')'
            else:
                out = '(%s%s%s)' % (self.s(ks[0]), op, self.s(ks[1]))
        elif k == 'ArraySubscriptExpr':
            a, b = kids(n)
            out = '%s[%s]' % (self.s(a), self.s(b))
        elif k in ('CallExpr', 'CXXMemberCallExpr') and self.expand(n) is not None:
            sub, e = self.expand(n)
            return sub.s(e)
        elif k in ('CallExpr', 'CXXMemberCallExpr'):
            c_ = n.get('callee', {})
            ks = kids(n)
            args = ks[1:]
            name = short(c_.get('n', '?'))
            pre = ''
            if k == 'CXXMemberCallExpr' and ks:
                obj = kids(ks[0])
                pre = self.this_prefix
                if obj and self.strip(obj[0])['k'] != 'CXXThisExpr':
                    o = self.s(obj[0])
                    pre = '' if o in ('this', '*(this)') else o + '.'
            targs = c_.get('targs')
            out = '%s%s%s(%s)' % (pre, name, '<%s>' % short(targs) if targs and self.env.get('__targs__') else '',
                                  ','.join(self.s(a) for a in args if a['k'] != 'CXXDefaultArgExpr'))
        elif k == 'MemberExpr':
            ks = kids(n)
            out = (self.s(ks[0]) + '.' if ks else '') + '?'
        elif k in ('CXXConstructExpr', 'CXXTemporaryObjectExpr', 'InitListExpr'):
            ks = kids(n)
            if len(ks) == 1:
                return self.s(ks[0])
            out = '%s(%s)' % (short(n.get('callee', {}).get('n', 'ctor')), ','.join(self.s(a) for a in ks))
        elif k == 'StringLiteral':
            out = '"%s"' % n.get('s', '')
        elif 'cv' in n:
            out = str(n['cv'])
        else:
            out = k
        if out is None:
            out = (r or {}).get('n') or k         # a reference of a kind the normaliser has no rule for (structured binding, ...)
        return self.names.get(out, out)

    # ---- conditions --------------------------------------------------------------------------------------------------------
    def bool_body(self, n):
        """(sub-normaliser, early, final) when n calls a helper/lambda the reference tree did not have whose body is declarations of
        single-definition locals, `if (c) return <true|false>;` statements and a final `return e;`:
        early = [(condition node, returned constant)], final = e (or a constant)."""
        if n is None or self._depth > 5:
            return None
        is_lambda_call = n['k'] == 'CXXOperatorCallExpr' and n.get('op') == '()'
        if n['k'] != 'CallExpr' and not is_lambda_call:
            return None
        prog = self.f.prog
        callee = prog.funcs.get(n.get('callee', {}).get('fid'))
        if callee is None or callee.body is None or not prog.is_new_function(callee) or not callee.file.startswith(prog.root):
            return None
        body = [st for st in kids(callee.body) if st.get('mac') not in ('assert', 'ASSERT', 'ASSERT_WITH_MSG')]
        if len(body) < 2 or body[-1]['k'] != 'ReturnStmt':
            return None
        early = []
        for st in body[:-1]:
            if st['k'] == 'DeclStmt' and all(v['k'] == 'VarDecl' and single_def(callee, v['id']) is not None for v in kids(st)):
                continue
            if st['k'] != 'IfStmt':
                return None
            ks = kids(st)
            if len(ks) != 2:
                return None
            r = ks[1] if ks[1]['k'] == 'ReturnStmt' else (kids(ks[1])[0] if ks[1]['k'] == 'CompoundStmt' and len(kids(ks[1])) == 1 else None)
            if r is None or r['k'] != 'ReturnStmt' or strip_casts(kids(r)[0]).get('cv') not in (0, 1):
                return None
            early.append((ks[0], strip_casts(kids(r)[0])['cv']))
        if not early:
            return None
        args = kids(n)[2:] if is_lambda_call else kids(n)[1:]
        if len(args) != len(callee.params):
            return None
        sub = Norm(callee, {}, self.inline, self.names, self.accessors)
        sub._depth = self._depth + 1
        sub.val, sub.assume = self.val, self.assume
        for q, a in zip(callee.params, args):
            v = self.cval(a)
            if v is not None:
                sub.env[q['name']] = v
            else:
                sub.subst[q['name']] = self.s(a)
        sub.this_prefix = self.this_prefix
        if self.env.get('__targs__'):
            sub.env['__targs__'] = 1
        return sub, early, kids(body[-1])[0]

    def flatten(self, n, op):
        """[(normaliser, node, polarity)] members of a conjunction/disjunction, reading through transparent calls; polarity False
        means the member is the negation of the node"""
        m = self.resolve(n)
        bb = self.bool_body(m)
        if bb is not None:
            sub, early, final = bb
            fc = strip_casts(final).get('cv')
            if op == '||' and all(k == 1 for c, k in early):
                # if (c1) return true; ... return e;   ==  c1 || ... || e
                out = []
                for c, k in early:
                    out += sub.flatten(c, '||')
                if fc != 0:
                    out += sub.flatten(final, '||')
                return out
            if op == '&&' and all(k == 0 for c, k in early):
                # if (c1) return false; ... return e;  ==  !c1 && ... && e
                out = [(sub, c, False) for c, k in early]
                if fc != 1:
                    out += sub.flatten(final, '&&')
                return out
        ex = self.expand(m)
        if ex is not None:
            return ex[0].flatten(ex[1], op)
        if m is not None and m['k'] == 'BinaryOperator' and m.get('op') == op:
            a, b = kids(m)
            return self.flatten(a, op) + self.flatten(b, op)
        return [(self, m, True)]

    def atom(self, n, truth=True):
        at = self._atom(n, truth)
        if self.val and at not in (TAUT, FALSE):
            try:
                return TAUT if atom_value(at, self.val) else FALSE
            except Unknown:
                pass
        if self.assume and at not in (TAUT, FALSE):
            if at in self.assume:
                return TAUT if self.assume[at] else FALSE
            neg = self._atom(n, not truth)
            if neg in self.assume:
                return FALSE if self.assume[neg] else TAUT
        return at

    def _atom(self, n, truth=True):
        c = self.cval(n)
        if c is not None:
            return TAUT if bool(c) == truth else FALSE
        n = self.resolve(n)
        ex = self.expand(n)
        if ex is not None:
            return ex[0].atom(ex[1], truth)
        if n['k'] == 'UnaryOperator' and n.get('op') == '!':
            return self.atom(kids(n)[0], not truth)
        if n['k'] == 'CXXOperatorCallExpr' and n.get('op') == '!' and len(kids(n)) == 2 and _type(n) == 'bool':
            return self.atom(kids(n)[1], not truth)
        op = n.get('op')
        if n['k'] in ('BinaryOperator', 'CXXOperatorCallExpr') and op in _CMP:
            ks = kids(n) if n['k'] == 'BinaryOperator' else kids(n)[1:]
            a, b = self.resolve(ks[0]), self.resolve(ks[1])
            ca, cb = self.cval(a), self.cval(b)
            if ca is not None and cb is None:
                a, b, ca, cb, op = b, a, cb, ca, _SWAP[op]
            if cb is not None and ca is None:
                base, off = self.lin(a)
                cb = cb - off
                e = base
                dom = DOMS.get(_type(a)) if off == 0 else None
                if dom is not None:
                    allowed = frozenset(v for v in range(dom) if _CMP[op](v, cb) == truth)
                    if len(allowed) == dom:
                        return TAUT
                    if not allowed:
                        return FALSE
                    return ('in', e, allowed)
                if op in ('==', '!=') and cb == 0 and off == 0:
                    return ('truthy', e, (op == '!=') == truth)          # x != 0 is "x is non-zero"
                if op in ('==', '!='):
                    return ('eq' if (op == '==') == truth else 'ne', e, cb)
                if not truth:
                    op = {'<': '>=', '<=': '>', '>': '<=', '>=': '<'}[op]
                if op == '<':
                    return ('le', e, cb - 1)
                if op == '<=':
                    return ('le', e, cb)
                if op == '>':
                    return ('ge', e, cb + 1)
                return ('ge', e, cb)
            if op in ('==', '!='):
                pair = tuple(sorted([self.s(a), self.s(b)]))
                return ('eq' if (op == '==') == truth else 'ne',) + pair
            if not truth:
                op = {'<': '>=', '<=': '>', '>': '<=', '>=': '<'}[op]
            x, y = self.s(a), self.s(b)
            if op in ('>', '>='):
                x, y, op = y, x, _SWAP[op]
            return (op, x, y)
        if n['k'] == 'BinaryOperator' and op in ('&&', '||'):
            return ('compound', self.show_cond(n), truth)
        return ('truthy', self.s(n), truth)

    def conj(self, n):
        """atom set of a conjunction; None when it is constantly false"""
        out = set()
        for nm, a, pol in self.flatten(n, '&&'):
            at = nm.atom(a, pol)
            if at == FALSE:
                return None
            if at != TAUT:
                out.add(at)
        return frozenset(out)

    def disj(self, n):
        out = set()
        for nm, a, pol in self.flatten(n, '||'):
            c = nm.conj(a) if pol else (None if nm.atom(a, False) == FALSE else frozenset({nm.atom(a, False)} - {TAUT}))
            if c is None:
                continue
            out.add(c)
        return frozenset(out)

    def facts(self, facts):
        """guard facts [(cond node, truth)] -> atom set (loop exits dropped, constant facts dropped); None if contradictory"""
        loop_conds = set()
        for l in self.f.all_nodes():
            if l['k'] == 'WhileStmt':
                loop_conds.add(self.s(kids(l)[0]))
            elif l['k'] == 'ForStmt' and len(l['ch']) > 2 and l['ch'][2]:
                loop_conds.add(self.s(l['ch'][2]))
        out = set()
        for c, t in facts:
            m = self.resolve(c)
            if m['k'] == 'BinaryOperator' and ((m.get('op') == '&&' and t) or (m.get('op') == '||' and not t)):
                continue
            if not t and self.s(m) in loop_conds:
                continue
            if t:
                ats = self.conj(m)
                if ats is None:
                    return None
            else:
                ats = set()
                for nm2, a2, pol2 in self.flatten(m, '||'):
                    at = nm2.atom(a2, not pol2)
                    if at == FALSE:
                        return None
                    ats.add(at)
            for at in ats:
                if '__begin' in str(at) or '__end' in str(at):
                    continue          # compiler-generated range-for iteration test
                if at != TAUT:
                    out.add(at)
        return frozenset(out)

    def show_atom(self, a):
        if a[0] == 'in':
            return '%s in {%s}' % (a[1], ','.join(map(str, sorted(a[2]))))
        return ' '.join(map(str, a))

    def show_cond(self, n):
        d = self.disj(n)
        return ' || '.join(sorted('(' + ' && '.join(sorted(self.show_atom(a) for a in c)) + ')' for c in d))


class Unknown(Exception):
    pass


def atom_value(a, val):
    """truth of a normalised atom under a valuation {expression string: concrete value}; raises Unknown"""
    if a == TAUT:
        return True
    if a == FALSE:
        return False
    k = a[0]
    if a in val:
        return bool(val[a])
    if k == 'ne' and ('eq',) + tuple(a[1:]) in val:
        return not val[('eq',) + tuple(a[1:])]
    if k == 'eq' and ('ne',) + tuple(a[1:]) in val:
        return not val[('ne',) + tuple(a[1:])]
    if k == 'truthy' and ('truthy', a[1], not a[2]) in val:
        return not val[('truthy', a[1], not a[2])]
    if k == 'in':
        if a[1] not in val:
            raise Unknown(a[1])
        return val[a[1]] in a[2]
    if k in ('eq', 'ne'):
        x, y = a[1], a[2]
        vx = val.get(x) if isinstance(x, str) else x
        vy = val.get(y) if isinstance(y, str) else y
        if isinstance(x, str) and x not in val:
            raise Unknown(x)
        if isinstance(y, str) and y not in val:
            raise Unknown(y)
        return (vx == vy) == (k == 'eq')
    if k in ('le', 'ge'):
        if a[1] not in val:
            raise Unknown(a[1])
        return val[a[1]] <= a[2] if k == 'le' else val[a[1]] >= a[2]
    if k == 'truthy':
        if a[1] not in val:
            raise Unknown(a[1])
        return bool(val[a[1]]) == a[2]
    if k in ('<', '<='):
        if a[1] not in val or a[2] not in val:
            raise Unknown(a[1] if a[1] not in val else a[2])
        return val[a[1]] < val[a[2]] if k == '<' else val[a[1]] <= val[a[2]]
    raise Unknown(str(a))


def decision(f, val, nm=None):
    """the return statement a function built from declarations, if/else and returns reaches under a valuation of its
    condition atoms; returns the ReturnStmt node. Raises Unknown (an atom without a value, another kind of statement)."""
    nm = nm or Norm(f)

    def run(stmts):
        for st in stmts:
            if st is None or st.get('mac') in ('assert', 'ASSERT', 'ASSERT_WITH_MSG'):
                continue
            k = st['k']
            if k == 'ReturnStmt':
                return st
            if k == 'CompoundStmt':
                r = run(kids(st))
                if r is not None:
                    return r
            elif k == 'IfStmt':
                ks = kids(st)
                c = cond_value(nm, ks[0], val)
                br = ks[1] if c else (ks[2] if len(ks) > 2 else None)
                if br is not None:
                    r = run([br])
                    if r is not None:
                        return r
            elif k in ('ForStmt', 'WhileStmt', 'DoStmt', 'SwitchStmt', 'CXXForRangeStmt', 'GotoStmt', 'BreakStmt', 'ContinueStmt'):
                if any(x['k'] == 'ReturnStmt' for x in walk(st)):
                    raise Unknown('statement %s' % k)
                continue
            else:
                continue            # declarations, assignments, calls: they do not choose the return
        return None
    return run(kids(f.body))


def cond_value(nm, node, val):
    """truth of condition `node` under the valuation, by structural recursion over && || ! and normalised leaves"""
    c = nm.cval(node)
    if c is not None:
        return bool(c)
    m = nm.resolve(node)
    ex = nm.expand(m)
    if ex is not None:
        return cond_value(ex[0], ex[1], val)
    bb_ = nm.bool_body(m) if m.get('k') in ('CallExpr', 'CXXOperatorCallExpr') else None
    if bb_ is not None:
        # a new boolean helper with early returns: the first early return whose condition holds decides, else the final value
        sub_, early_, final_ = bb_
        sub_.val = nm.val
        for c_, k_ in early_:
            if cond_value(sub_, c_, val):
                return bool(k_)
        if isinstance(final_, dict):
            return cond_value(sub_, final_, val)
        return bool(final_)
    if m['k'] == 'BinaryOperator' and m.get('op') in ('&&', '||'):
        a, b = kids(m)
        x = cond_value(nm, a, val)
        if m['op'] == '&&':
            return x and cond_value(nm, b, val)
        return x or cond_value(nm, b, val)
    if m['k'] == 'UnaryOperator' and m.get('op') == '!':
        return not cond_value(nm, kids(m)[0], val)
    try:
        return atom_value(nm.atom(m), val)
    except Unknown:
        # non-emptiness of a bitboard expression: a union is non-empty iff one of its parts is, and two single squares
        # intersect iff they are the same square
        if m['k'] == 'BinaryOperator' and m.get('op') == '|':
            return any([cond_value(nm, q, val) for q in kids(m)])
        if m['k'] == 'BinaryOperator' and m.get('op') in ('!=', '==') and len(kids(m)) == 2:
            for x, y in (kids(m), kids(m)[::-1]):
                if nm.cval(y) == 0:
                    r_ = cond_value(nm, x, val)
                    return r_ if m['op'] == '!=' else not r_
        if m['k'] == 'BinaryOperator' and m.get('op') == '&':
            a, b = (nm.resolve(x) for x in kids(m))
            for u, w in ((a, b), (b, a)):
                if u['k'] == 'BinaryOperator' and u.get('op') == '|':
                    parts = [{'k': 'BinaryOperator', 'op': '&', 'ch': [q, w], 'i': -1, 't': m.get('t')} for q in kids(u)]
                    return any([cond_value(nm, q, val) for q in parts])
            if all((x.get('callee') or {}).get('n') == 'engine::square_bb' for x in (a, b)):
                x, y = nm.s(kids(a)[1]), nm.s(kids(b)[1])
                return atom_value(('eq',) + tuple(sorted([x, y])), val)
        raise


class SymLin:
    """symbolic evaluation of small arithmetic code over one unknown x: values are constants ('c', k) or x plus a constant
    ('x', k); conditions are decided from case facts about x ({'mate': bool, 'pos': bool}: x is a mate score / x is positive);
    a mate score dwarfs any constant offset, so the sign of x + k is the sign of x in the mate cases. Anything else: Unknown."""

    def __init__(self, prog, facts, mate_lo):
        self.prog = prog
        self.facts = facts
        self.mate_lo = mate_lo          # smallest |mate score|

    def val(self, f, n, binds, depth=0):
        n = strip_casts(n)
        while n is not None and n.get('k') in CASTS and kids(n):
            n = strip_casts(kids(n)[-1])
        r = n.get('ref') or {}
        if r.get('k') in ('Local', 'Parm') and r['n'] in binds:
            return binds[r['n']]
        if isinstance(n.get('cv'), int):
            return ('c', n['cv'])
        k = n['k']
        if k == 'ConditionalOperator':
            c, a, b = kids(n)
            return self.val(f, a if self.cond(f, c, binds, depth) else b, binds, depth)
        if k in ('BinaryOperator', 'CXXOperatorCallExpr') and n.get('op') in ('+', '-'):
            ks = kids(n) if k == 'BinaryOperator' else kids(n)[1:]
            a, b = self.val(f, ks[0], binds, depth), self.val(f, ks[1], binds, depth)
            sg = 1 if n['op'] == '+' else -1
            if b[0] == 'c':
                return (a[0], a[1] + sg * b[1])
            if a[0] == 'c' and sg == 1:
                return (b[0], a[1] + b[1])
            raise Unknown('arithmetic on two unknowns')
        if k == 'UnaryOperator' and n.get('op') == '-':
            a = self.val(f, kids(n)[0], binds, depth)
            if a[0] == 'c':
                return ('c', -a[1])
            raise Unknown('negated unknown')
        if k == 'CallExpr':
            callee = self.prog.funcs.get(n.get('callee', {}).get('fid'))
            if callee is not None and callee.body is not None and depth < 4:
                args = [self.val(f, a, binds, depth) for a in kids(n)[1:]]
                b2 = {q['name']: v for q, v in zip(callee.params, args)}
                rv = self.run(callee, kids(callee.body), b2, depth + 1)
                if rv is not None:
                    return rv
        raise Unknown(Norm(f).s(n))

    def cond(self, f, n, binds, depth=0):
        n = strip_casts(n)
        k = n['k']
        if isinstance(n.get('cv'), int):
            return bool(n['cv'])
        if k == 'BinaryOperator' and n.get('op') in ('&&', '||'):
            a = self.cond(f, kids(n)[0], binds, depth)
            if n['op'] == '&&':
                return a and self.cond(f, kids(n)[1], binds, depth)
            return a or self.cond(f, kids(n)[1], binds, depth)
        if k == 'UnaryOperator' and n.get('op') == '!':
            return not self.cond(f, kids(n)[0], binds, depth)
        if k == 'CallExpr' and n.get('callee', {}).get('n') == 'engine::is_mate':
            v = self.val(f, kids(n)[1], binds, depth)
            if v[0] == 'c':
                return abs(v[1]) >= self.mate_lo
            if v[1] == 0:
                return self.facts['mate']
            raise Unknown('is_mate of a shifted score')
        if k in ('BinaryOperator', 'CXXOperatorCallExpr') and n.get('op') in _CMP:
            ks = kids(n) if k == 'BinaryOperator' else kids(n)[1:]
            a, b = self.val(f, ks[0], binds, depth), self.val(f, ks[1], binds, depth)
            op = n['op']
            if a[0] == 'c' and b[0] == 'c':
                return _CMP[op](a[1], b[1])
            if a[0] == 'c':
                a, b, op = b, a, _SWAP[op]
            if b[0] != 'c':
                raise Unknown('comparison of two unknowns')
            # x + k  op  c   with |x| >= mate_lo >> |k|, |c| in the mate cases
            if self.facts.get('mate') and abs(a[1]) + abs(b[1]) < self.mate_lo // 2:
                big = 1 if self.facts['pos'] else -1
                return _CMP[op](big * self.mate_lo, b[1] - a[1])
            raise Unknown('sign of a non-mate score')
        raise Unknown(Norm(f).s(n))

    def run(self, f, stmts, binds, depth=0, track=None):
        """execute statements; returns the returned value (if a return is reached) else None; binds is updated"""
        from prog import access_kind
        for st in stmts:
            if st is None or st.get('mac') in ('assert', 'ASSERT', 'ASSERT_WITH_MSG'):
                continue
            k = st['k']
            if k == 'CompoundStmt':
                rv = self.run(f, kids(st), binds, depth, track)
                if rv is not None:
                    return rv
            elif k == 'ReturnStmt':
                return self.val(f, kids(st)[0], binds, depth)
            elif k == 'DeclStmt':
                for v in kids(st):
                    if v['k'] == 'VarDecl' and kids(v):
                        try:
                            binds[v['name']] = self.val(f, kids(v)[0], binds, depth)
                        except Unknown:
                            if track is None:
                                raise
            elif k == 'IfStmt':
                ks = kids(st)
                touches = track is None or any((x.get('ref') or {}).get('n') in track and access_kind(f, x) != 'read'
                                               for x in walk(st)) or any(x['k'] == 'ReturnStmt' for x in walk(st))
                if not touches:
                    continue
                c = self.cond(f, ks[0], binds, depth)
                br = ks[1] if c else (ks[2] if len(ks) > 2 else None)
                if br is not None:
                    rv = self.run(f, [br], binds, depth, track)
                    if rv is not None:
                        return rv
            elif k in ('BinaryOperator', 'CompoundAssignOperator', 'CXXOperatorCallExpr') and st.get('op', '').endswith('=') and \
                    st.get('op') not in ('==', '!=', '<=', '>='):
                ks = kids(st) if k != 'CXXOperatorCallExpr' else kids(st)[1:]
                name = (strip_casts(ks[0]).get('ref') or {}).get('n')
                if track is not None and name not in track:
                    continue
                rhs = self.val(f, ks[1], binds, depth)
                if st['op'] == '=':
                    binds[name] = rhs
                elif st['op'] in ('+=', '-=') and rhs[0] == 'c' and name in binds:
                    binds[name] = (binds[name][0], binds[name][1] + (rhs[1] if st['op'] == '+=' else -rhs[1]))
                else:
                    raise Unknown('update %s' % st['op'])
            else:
                if track is not None and not any((x.get('ref') or {}).get('n') in track and access_kind(f, x) not in ('read',)
                                                 for x in walk(st)):
                    continue
                raise Unknown('statement %s' % k)
        return None


def eval_function(prog, name, vals):
    """constant value of a small pure repository function on constant arguments, or None"""
    fs = [f for f in prog.fns(name) if f.body is not None and len(f.params) == len(vals)]
    if len(fs) != 1:
        return None
    return Norm(fs[0]).eval_body(fs[0], list(vals))


def show(atoms):
    if atoms is None:
        return 'false'

    def one(a):
        if a[0] == 'in':
            return '%s in {%s}' % (a[1], ','.join(map(str, sorted(a[2]))))
        return ' '.join(map(str, a))
    if atoms and isinstance(next(iter(atoms)), frozenset):
        return ' || '.join(sorted('(' + ' && '.join(sorted(one(a) for a in c)) + ')' for c in atoms))
    return ' && '.join(sorted(one(a) for a in atoms))
