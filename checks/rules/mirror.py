"""MIRROR — a relational type system for colour symmetry.

Two runs are compared: run 1 on a position P, run 2 on the mirrored position
(ranks flipped, colours swapped); in colour-generic code run 1 executes the
WHITE instantiation (or strongSide = c) and run 2 the BLACK twin (strongSide
= !c). Every expression gets a *mirror type* that says how its value in run 2
relates to its value in run 1:

   I   equal                                   (scores, counts, files, distances, relative squares)
   M   mirror image, by C++ type               (Square: rank flipped; Bitboard: byte-swapped; Rank: 7-r;
                                                Color/Piece: colour swapped; Castling: wings swapped by colour;
                                                Direction: vertical part negated; bool from a colour test: negated)
   N   negated number                          (vertical steps +-1/+-8, white-minus-black sums)
   L   a linear form over colour-indexed terms (non-template code naming both colours explicitly)
   U   no stable relation                      (order/choice dependent)

The evaluation is colour-symmetric when every returned score is I, every
branch condition is I, and every value stored into a per-colour slot is M.
Typing is compositional; constants that depend on the template colour are
compared through clang's evaluated values of the two instantiations (a
`side == WHITE ? a : b` is fine iff b is the mirror image of a); run-time
choices on a colour must be *mirror pairs* (x / flip_vertically(x),
r / RANK_8 - r, v / -v, msb / lsb). Tables are consulted by value:
T[mirror(i)] == T[i] gives I, == mirror(T[i]) gives M, anything else is a
violation at the subscript.

What is not in the rules is unrecognised (AnalysisBroken), never a pass."""
import re

from facts import AnalysisBroken
from prog import walk, kids, short
from rules.common import strip_casts, const_of, range_for_consts
from rules.effects import canon

M64 = (1 << 64) - 1


class T:
    """mirror type with optional attributes:
       val   : value when the expression is the same constant in both runs
       attrs : 'sym' constant that is its own mirror image / every entry symmetric
               '1f'  bitboard confined to one file
               'f?'  square whose rank is related as stated but whose file is not determined
               'elem' value derived from the element of an unordered iteration
    """
    __slots__ = ('m', 'val', 'attrs', 'lin')

    def __init__(self, m, val=None, attrs=(), lin=None):
        self.m = m
        self.val = val
        self.attrs = frozenset(attrs)
        self.lin = lin

    def __repr__(self):
        return self.m + (''.join('{' + a + '}' for a in sorted(self.attrs)))

    def with_(self, *a):
        return T(self.m, self.val, self.attrs | set(a), self.lin)

    def without(self, *a):
        return T(self.m, self.val, self.attrs - set(a), self.lin)


I, Mt, N, U = T('I'), T('M'), T('N'), T('U')


def cat(t):
    t = (t or '').replace('const ', '').replace('&', '').replace('volatile ', '').strip()
    t = t.replace('engine::', '')
    if t in ('Square', 'Rank', 'File', 'Color', 'Piece', 'PieceKind', 'Castling', 'Direction', 'bool', 'Bitboard',
             'PieceCountVector'):
        return t
    if t in ('uint64_t', 'unsigned long'):
        return 'Bitboard'
    return 'num'


def bswap(v):
    v &= M64
    out = 0
    for r in range(8):
        out |= ((v >> (8 * r)) & 0xFF) << (8 * (7 - r))
    return out


class Mirror:
    def __init__(self, prog, ctx=None):
        self.p = prog
        self.ctx = ctx
        self.viol = []           # (fn, node, rule, message)
        self.memo = {}
        self.stack = []
        self.nexpr = 0
        self.nfun = set()
        self.tables = {}
        self.assumed = set()
        self.exceptions_used = set()
        self.exceptions = {}
        pe = prog.enum('engine::Piece')
        self.piece_mirror = {}
        for k, v in pe.items():
            if k.startswith('W_'):
                self.piece_mirror[v] = pe['B_' + k[2:]]
                self.piece_mirror[pe['B_' + k[2:]]] = v
            elif not k.startswith('B_'):
                self.piece_mirror[v] = v
        ce = prog.enum('engine::Castling')
        self.castle_bits = [(ce['W_OO'], ce['B_OO']), (ce['W_OOO'], ce['B_OOO'])]
        self.no_square = prog.enum('engine::Square').get('NO_SQUARE', 64)
        self.rank8 = prog.enum('engine::Rank')['RANK_8']

    # ---- mirror images of values ---------------------------------------------------------------------------------
    def mv(self, c, v):
        if v is None:
            return None
        if isinstance(v, list):
            return [self.mv(c, x) for x in v]
        if c == 'Square':
            return v ^ 56 if 0 <= v < 64 else v
        if c == 'Rank':
            return self.rank8 - v
        if c == 'Bitboard':
            return bswap(v)
        if c == 'Color':
            return 1 - v if v in (0, 1) else v
        if c == 'Piece':
            return self.piece_mirror.get(v, v)
        if c == 'Castling':
            out = 0
            for w, b in self.castle_bits:
                if v & w:
                    out |= b
                if v & b:
                    out |= w
            return out
        if c == 'Direction':
            vert = (v + 4) // 8 if v >= 0 else -((-v + 4) // 8)
            h = v - 8 * vert
            return -8 * vert + h
        if c == 'PieceCountVector':
            lo = v & (0xFFFFFF << 4)
            hi = (v >> 24) & (0xFFFFFF << 4)
            return (lo << 24) | hi | (v & 0xF)
        return v

    def exception_for(self, fn, var):
        for (fpat, v), reason in self.exceptions.items():
            if v == var and fpat in (fn.ctargs or fn.name):
                return (fpat, reason)
        return None

    def bad(self, fn, n, rule, msg):
        key = (fn.id, n.get('i'), rule)
        if not any((f.id, x.get('i'), r) == key for f, x, r, m in self.viol):
            self.viol.append((fn, n, rule, msg))

    # ---- twins -----------------------------------------------------------------------------------------------------------
    def twin_id(self, fid):
        def sw(m):
            return {'engine::WHITE': 'engine::BLACK', 'engine::BLACK': 'engine::WHITE'}[m.group(0)]
        # only template arguments (inside <...> before the parameter list)
        head, sep, tail = fid.partition('(')
        return re.sub(r'engine::WHITE|engine::BLACK', sw, head) + sep + tail

    def twin(self, fn):
        tid = self.twin_id(fn.id)
        if tid == fn.id:
            return fn
        t = self.p.funcs.get(tid)
        if t is None or t.body is None:
            self.bad(fn, fn.body, 'pairing', '%s is instantiated for one colour only: the other colour is never evaluated this way' % fn.id.split('(')[0])
            return fn
        return t

    # ---- function summaries ------------------------------------------------------------------------------------
    def summary(self, fn, argtypes, this_fields=None, caller=None):
        """returns (return type, {param index: type at exit} for reference parameters)"""
        key = (fn.id, tuple((a.m, a.attrs) for a in argtypes))
        if key in self.memo:
            return self.memo[key]
        if key in self.stack:
            raise AnalysisBroken('MIRROR: recursion through %s' % fn.id)
        if fn.body is None:
            raise AnalysisBroken('MIRROR: no body for %s' % fn.id)
        self.stack.append(key)
        self.nfun.add(fn.id)
        if self.ctx is not None:
            self.ctx.analysed(fn)
        tw = self.twin(fn)
        fr = Frame(self, fn, tw)
        for i, prm in enumerate(fn.params):
            fr.env[('P', prm['id'])] = argtypes[i] if i < len(argtypes) else I
        # two passes: the second one sees cache/insert types and loop-carried facts
        nv = len(self.viol)
        fr.run(fn.body, tw.body)
        if fr.need_second_pass:
            self.viol[nv:] = [v for v in self.viol[nv:] if v[0].id != fn.id]
            fr.rets = []
            fr.env_reset_locals()
            fr.run(fn.body, tw.body)
        rt = None
        for r in fr.rets:
            rt = r if rt is None else fr.join(rt, r, fn.body, 'return')
        outs = {i: fr.env.get(('P', prm['id'])) for i, prm in enumerate(fn.params) if '&' in (prm.get('t') or '') and
                'const' not in (prm.get('t') or '')}
        self.stack.pop()
        fr.finish()
        self.memo[key] = (rt if rt is not None else I, outs)
        return self.memo[key]


SYM_NAMES_RUNTIME = {
    # run-time initialised geometry tables: equivariance under the vertical flip is C11's matter (assumption A-C11)
    'engine::KING_MASK': 1, 'engine::KNIGHT_MASK': 1, 'engine::LINES': 2, 'engine::FULL_LINES': 2,
}

POSITION_METHODS = {
    # name: (requirements on args, result)
    'pieces': 'M', 'piece_position': 'M', 'number_of_pieces': 'I', 'no_nonpawns': 'I', 'castling_rights': 'M',
    'color': 'M', 'get_pcv': 'M', 'piece_at': 'M', 'enpassant_square': 'M', 'pawn_hash': 'I',
}

PURE_I = {'engine::popcount', 'engine::popcount_more_than_one', 'engine::all_on_same_file'}


class Frame:
    def __init__(self, mir, fn, tw):
        self.mir = mir
        self.fn = fn
        self.tw = tw
        self.env = {}
        self.rets = []
        self.elem_loops = []       # stack of (loop node, set of loop-local var ids)
        self.cache_t = None
        self.need_second_pass = False
        self.tokens = []           # colour-indexed void calls in non-template code: (key, colour)
        self.slots = {}            # (member array, constant colour) -> type, for explicit W/B slots
        self.is_generic = fn.id != tw.id or self._has_colour_state()

    def _has_colour_state(self):
        return False

    def env_reset_locals(self):
        self.env = {k: v for k, v in self.env.items() if k[0] == 'P'}

    def finish(self):
        if self.tokens:
            w = sorted(k for k, c in self.tokens if c == 0)
            b = sorted(k for k, c in self.tokens if c == 1)
            if w != b:
                self.mir.bad(self.fn, self.fn.body, 'pairing',
                             'colour-specific calls are not issued for both colours alike: WHITE %s, BLACK %s' % (w, b))

    # ---- helpers ----------------------------------------------------------------------------------------------------
    unrolled = {}

    def cn(self, n):
        s = canon(self.fn, n, inline=False).replace(' ', '')
        for name, v in self.unrolled.items():
            s = s.replace(name, str(v)) if not name.isidentifier() else re.sub(r'\b%s\b' % re.escape(name), str(v), s)
        return s

    def bad(self, n, rule, msg):
        if getattr(self, '_inl', 0):
            # inside a lambda typed in place captured variables are found by name and parameters by position: good enough to carry
            # types through, not to rest a verdict on
            raise AnalysisBroken('MIRROR: inside the lambda called at this point of %s the typing does not go through (%s: %s); lambdas are '
                                 'typed in place on a best-effort basis' % (self.fn.name, rule, msg[:120]))
        self.mir.bad(self.fn, n, rule, msg)

    def join(self, a, b, n, what=''):
        if a is None:
            return b
        if b is None:
            return a
        if a.m == b.m:
            return T(a.m, a.val if a.val == b.val else None, a.attrs & b.attrs if a.m == 'I' else (a.attrs | b.attrs) - {'sym', '1f'} | (a.attrs & b.attrs))
        # a symmetric constant fits both
        for x, y in ((a, b), (b, a)):
            if x.m == 'I' and 'sym' in x.attrs and y.m == 'M':
                return y
            if x.m == 'I' and x.val == 0 and y.m in ('N', 'L'):
                return y
        return T('U', attrs={'join'})

    def is_sym_const(self, t, c):
        if t.m != 'I':
            return False
        if t.val is not None and not isinstance(t.val, (list, tuple)):
            return self.mir.mv(c, t.val) == t.val
        return 'sym' in t.attrs

    def need(self, n, t, want, c, what):
        """t must be usable as `want` ('I' or 'M')"""
        if t.m == 'U':
            self.bad(n, 'unstable', '%s has no stable relation between the two colours (%s)' % (what, ','.join(sorted(t.attrs)) or 'order/choice dependent'))
            return False
        if 'rot' in t.attrs:
            self.bad(n, 'pair', '%s is a diagonally shifted set used without its left/right sibling' % what)
            return False
        if want == 'M':
            if t.m == 'M' or self.is_sym_const(t, c):
                return True
            self.bad(n, 'frame', '%s must be colour-relative here but is %s' % (what, self.describe(t, c)))
            return False
        if want == 'I':
            if t.m == 'I':
                return True
            if t.m == 'M' and c in ('File',):
                return True
            self.bad(n, 'frame', '%s must be the same for both colours but is %s' % (what, self.describe(t, c)))
            return False
        return True

    def describe(self, t, c):
        if t.m == 'M':
            return 'an absolute %s (mirrored between the colours)' % c
        if t.m == 'I':
            return 'a colour-independent %s' % c
        if t.m == 'N':
            return 'a number that changes sign between the colours'
        if t.m == 'L':
            return 'a sum over explicitly named colours that is not balanced'
        return 'unstable'

    # ---- statements ---------------------------------------------------------------------------------------------------
    def run(self, n, tn):
        if n is None:
            return
        k = n['k']
        if tn is None or tn['k'] != k:
            raise AnalysisBroken('MIRROR: instantiations of %s differ in shape at line %s' % (self.fn.name, n.get('l')))
        ks, tks = kids(n), kids(tn)
        if k == 'CompoundStmt':
            for a, b in zip(ks, tks):
                self.run(a, b)
        elif k == 'DeclStmt':
            for a, b in zip(ks, tks):
                self.run(a, b)
        elif k == 'VarDecl':
            vid = ('L', n['id'])
            if self.elem_loops:
                self.elem_loops[-1][1].add(vid)
            if n.get('dims') or '[' in (n.get('t') or ''):
                self.env[vid] = I
                return
            if ks:
                init, tinit = ks[0], tks[0]
                if init['k'] == 'LambdaExpr':
                    self.env[vid] = I
                    return
                self.env[vid] = self.ty(init, tinit)
            else:
                self.env[vid] = None
        elif k == 'IfStmt':
            cond, tcond = n['ch'][0] if False else ks[0], tks[0]
            self.branch(n, tn)
        elif k == 'ForStmt':
            ch, tch = n['ch'], tn['ch']
            init, _, cond, inc, body = ch[0], ch[1], ch[2], ch[3], ch[4]
            tinit, tcond, tinc, tbody = tch[0], tch[2], tch[3], tch[4]
            if init:
                self.run_or_expr(init, tinit)
            elem = self.is_piece_list_loop(n)
            bitvar = self.bit_loop_var(n)
            if bitvar is not None:
                # for (Bitboard b = X; b; b &= b - 1) ... lsb(b): the elements of a set one by one, like while (b) pop_lsb(&b)
                elem = True
                self.bitvars = getattr(self, 'bitvars', set()) | {bitvar}
            for _ in range(2):
                if cond:
                    ct = self.ty(cond, tcond)
                    self.need(cond, ct, 'I', 'bool', 'the loop condition')
                if elem:
                    self.elem_loops.append((n, set()))
                before = dict(self.env)
                self.run_or_expr(body, tbody)
                if inc and bitvar is None:
                    self.ty(inc, tinc)
                if elem:
                    self.elem_loops.pop()
                self.merge_env(before, n)
        elif k == 'WhileStmt':
            cond, body = ks[0], ks[1]
            tcond, tbody = tks[0], tks[1]
            elem = any(x.get('callee', {}).get('n') == 'engine::pop_lsb' for x in walk(body))
            for _ in range(2):
                ct = self.ty(cond, tcond)
                c = cat(strip_casts(cond).get('t'))
                if ct.m == 'M' and c in ('Bitboard', 'Castling'):
                    ct = I
                self.need(cond, ct, 'I', 'bool', 'the loop condition')
                if elem:
                    self.elem_loops.append((n, set()))
                before = dict(self.env)
                self.run_or_expr(body, tbody)
                if elem:
                    self.elem_loops.pop()
                self.merge_env(before, n)
        elif k == 'ReturnStmt':
            if ks:
                t = self.ty(ks[0], tks[0])
                self.rets.append(t)
                if self.elem_loops:
                    self.bad(n, 'order', 'return from inside an iteration over an unordered set')
            else:
                self.rets.append(I)
        elif k in ('BreakStmt', 'ContinueStmt', 'NullStmt'):
            if k == 'BreakStmt' and self.elem_loops:
                self.check_break(n)
        elif k == 'CXXForRangeStmt' and range_for_consts(n) is not None and range_for_consts(tn) is not None:
            # a loop over a braced list of constants: the body once per listed value, the variable being that constant
            var, vals, body = range_for_consts(n)
            tvar, tvals, tbody = range_for_consts(tn)
            if vals != tvals or any(x['k'] in ('BreakStmt', 'ContinueStmt', 'ReturnStmt') for x in walk(body)):
                raise AnalysisBroken('MIRROR: loop over a constant list in %s: lists differ between the colours, or the body leaves the loop' % self.fn.name)
            vinit = canon(self.fn, kids(var)[0], inline=False).replace(' ', '')
            for v in vals:
                self.env[('L', var['id'])] = T('I', v)
                self.unrolled[var.get('name')] = v
                self.unrolled[vinit] = v
                self.run_or_expr(body, tbody)
            self.unrolled.pop(var.get('name'), None)
            self.unrolled.pop(vinit, None)
        elif k == 'CXXForRangeStmt' or k == 'DoStmt' or k == 'SwitchStmt':
            raise AnalysisBroken('MIRROR: statement kind %s in %s is outside the rules' % (k, self.fn.name))
        else:
            self.ty(n, tn)

    def run_or_expr(self, n, tn):
        if n['k'] in ('CompoundStmt', 'DeclStmt', 'IfStmt', 'ForStmt', 'WhileStmt', 'ReturnStmt', 'BreakStmt', 'ContinueStmt',
                      'NullStmt'):
            self.run(n, tn)
        else:
            self.ty(n, tn)

    def merge_env(self, before, n):
        for key in list(self.env):
            if key in before:
                self.env[key] = self.join(before[key], self.env[key], n, 'loop')

    def branch(self, n, tn):
        ks, tks = kids(n), kids(tn)
        cond, tcond = ks[0], tks[0]
        cv, tcv = const_of(cond), const_of(tcond)
        if cv is not None and tcv is not None:
            if bool(cv) != bool(tcv):
                self.bad(n, 'asym-branch', 'a statement is executed for one colour only (condition is constant %s for WHITE and %s for BLACK)' % (cv, tcv))
                for a, b in zip(ks[1:], tks[1:]):
                    self.run_or_expr(a, b)
                return
            sel = 1 if cv else 2
            if sel < len(ks) and ks[sel] is not None:
                self.run_or_expr(ks[sel], tks[sel])
            return
        ct = self.ty(cond, tcond)
        c = cat(strip_casts(cond).get('t'))
        if ct.m == 'M' and c in ('Bitboard', 'Castling', 'PieceCountVector'):
            ct = I        # being non-zero does not depend on the frame
        self.need(cond, ct, 'I', c, 'the condition')
        before = dict(self.env)
        self.run_or_expr(ks[1], tks[1])
        after_then = self.env
        self.env = dict(before)
        if len(ks) > 2 and ks[2] is not None:
            self.run_or_expr(ks[2], tks[2])
        for key in set(after_then) | set(self.env):
            a, b = after_then.get(key), self.env.get(key)
            if key in after_then and key in self.env:
                self.env[key] = self.join(a, b, n, 'if')
            elif key in after_then:
                self.env[key] = a

    def bit_loop_var(self, loop):
        ch = loop['ch']
        init, cond, inc = ch[0], ch[2], ch[3]
        if not init or init['k'] != 'DeclStmt' or cond is None or inc is None:
            return None
        v = [x for x in walk(init) if x['k'] == 'VarDecl']
        if len(v) != 1 or cat(v[0].get('t')) != 'Bitboard':
            return None
        vid = v[0]['id']
        c = strip_casts(cond)
        if (c.get('ref') or {}).get('id') != vid:
            return None
        i = strip_casts(inc)
        if i['k'] != 'CompoundAssignOperator' or i.get('op') != '&=' or (strip_casts(kids(i)[0]).get('ref') or {}).get('id') != vid:
            return None
        r = strip_casts(kids(i)[1])
        if r['k'] != 'BinaryOperator' or r.get('op') != '-' or (strip_casts(kids(r)[0]).get('ref') or {}).get('id') != vid or \
                const_of(strip_casts(kids(r)[1])) != 1:
            return None
        return vid

    def is_piece_list_loop(self, loop):
        ch = loop['ch']
        init = ch[0]
        if not init or init['k'] != 'DeclStmt':
            return False
        v = [x for x in walk(init) if x['k'] == 'VarDecl']
        if len(v) != 1:
            return False
        vid = v[0]['id']
        for x in walk(ch[4]):
            if x.get('callee', {}).get('n') == 'engine::Position::piece_position':
                a = kids(x)
                if len(a) >= 3 and any(y.get('ref', {}).get('k') == 'Local' and y['ref'].get('id') == vid for y in walk(a[2])):
                    return True
        return False

    def check_break(self, n):
        # allowed: if (c) { acc op= <loop-invariant>; break; }
        par = self.fn.parent(n)
        ok = False
        if par is not None and par['k'] == 'CompoundStmt':
            sib = [x for x in kids(par) if x is not n]
            ok = all(x['k'] in ('CompoundAssignOperator', 'CXXOperatorCallExpr') and x.get('op') in ('+=', '|=', '-=') and
                     not self.depends_on_elem(kids(x)[-1]) for x in sib) and bool(sib)
        if not ok:
            self.bad(n, 'order', 'leaving an iteration over an unordered set early makes the result depend on the order')

    def depends_on_elem(self, e):
        if not self.elem_loops:
            return False
        loc = set()
        for l, s in self.elem_loops:
            loc |= s
        for x in walk(e):
            r = x.get('ref')
            if r and r['k'] == 'Local' and ('L', r['id']) in loc:
                return True
            if x.get('callee', {}).get('n') in ('engine::pop_lsb',):
                return True
        return False

    # ---- expressions -----------------------------------------------------------------------------------------------------
    def ty(self, n, tn):
        self.mir.nexpr += 1
        t = self._ty(n, tn)
        if t is None:
            raise AnalysisBroken('MIRROR: no type for %s at %s' % (n['k'], self.fn.loc(n)))
        return t

    def const_pair(self, n, tn):
        a, b = n.get('cv'), (tn or {}).get('cv')
        if a is None or b is None:
            return None
        c = cat(n.get('t'))
        if a == b:
            at = set()
            if self.mir.mv(c, a) == a:
                at.add('sym')
            return T('I', a, at)
        if self.mir.mv(c, a) == b:
            return T('M', (a, b))
        if c in ('num', 'Direction') and (a == -b or (a + b) in (1 << 32, 1 << 64)):
            if a + b != 0:
                a, b = (a, b - (a + b)) if b > a else (a - (a + b), b)
            return T('N', (a, b))
        self.bad(n, 'const-pair', 'colour-dependent constant: %s for WHITE but %s for BLACK, which is not its mirror image (%s)'
                 % (a, b, self.mir.mv(c, a)))
        return T('I', a)

    def _ty(self, n, tn):
        k = n['k']
        if tn is None or tn['k'] != k:
            raise AnalysisBroken('MIRROR: instantiations of %s differ in shape at line %s' % (self.fn.name, n.get('l')))
        ks, tks = kids(n), kids(tn)
        # constants (including constant-folded colour-dependent expressions)
        if 'cv' in n and 'cv' in tn and k not in ('CallExpr', 'CXXMemberCallExpr') or \
                ('cv' in n and 'cv' in tn and k == 'CallExpr'):
            cp = self.const_pair(n, tn)
            if cp is not None:
                return cp
        if k in ('ParenExpr', 'ExprWithCleanups', 'MaterializeTemporaryExpr', 'CXXBindTemporaryExpr', 'ConstantExpr'):
            return self.ty(ks[-1], tks[-1])
        if k in ('ImplicitCastExpr', 'CStyleCastExpr', 'CXXFunctionalCastExpr', 'CXXStaticCastExpr'):
            return self.cast(n, tn)
        if k == 'DeclRefExpr':
            return self.ref(n, tn)
        if k == 'MemberExpr':
            return self.member(n, tn)
        if k == 'CXXThisExpr':
            return I
        if k == 'ArraySubscriptExpr':
            return self.subscript(n, tn)
        if k == 'UnaryOperator':
            return self.unary(n, tn)
        if k in ('BinaryOperator', 'CompoundAssignOperator'):
            return self.binary(n, tn, n.get('op'), ks[0], ks[1], tks[0], tks[1])
        if k == 'CXXOperatorCallExpr':
            op = n.get('op')
            if op == '()':
                return self.lambda_call(n, tn)
            if len(ks) == 3:
                return self.binary(n, tn, op, ks[1], ks[2], tks[1], tks[2])
            if len(ks) == 2:
                return self.unary_op(n, op, ks[1], tks[1])
            raise AnalysisBroken('MIRROR: operator call shape at %s' % self.fn.loc(n))
        if k == 'ConditionalOperator':
            return self.conditional(n, tn)
        if k in ('CallExpr', 'CXXMemberCallExpr'):
            return self.call(n, tn)
        if k in ('CXXConstructExpr', 'CXXTemporaryObjectExpr', 'InitListExpr', 'CXXScalarValueInitExpr'):
            out = None
            for a, b in zip(ks, tks):
                t = self.ty(a, b)
                out = t if out is None else self.arith_join(n, out, t)
                if out is None:
                    out = self._mix(n, t, t, 'num')
            return out if out is not None else T('I', 0)
        if k in ('IntegerLiteral', 'CXXBoolLiteralExpr', 'FloatingLiteral', 'CharacterLiteral', 'StringLiteral',
                 'CXXNullPtrLiteralExpr', 'ImplicitValueInitExpr'):
            return T('I', n.get('cv'))
        if k == 'SubstNonTypeTemplateParmExpr':
            return self.ty(ks[0], tks[0])
        if k == 'LambdaExpr':
            return I
        if k == 'CXXDefaultArgExpr':
            return T('I', n.get('cv'))
        raise AnalysisBroken('MIRROR: expression kind %s at %s is outside the rules' % (k, self.fn.loc(n)))

    # -- casts
    def cast(self, n, tn):
        ks, tks = kids(n), kids(tn)
        inner = ks[-1]
        src = cat(inner.get('t'))
        dst = cat(n.get('t'))
        # parity idiom is handled at the & / % node; here: generic conversions
        t = self.ty(inner, tks[-1])
        if n.get('ck') in ('LValueToRValue', 'NoOp', 'FunctionToPointerDecay', 'ArrayToPointerDecay', 'ConstructorConversion',
                            'UserDefinedConversion', 'DerivedToBase', 'UncheckedDerivedToBase'):
            return t
        if src == dst or t.m in ('I', 'U', 'N', 'L'):
            if t.m == 'I' and src != dst:
                return T('I', t.val, t.attrs - {'sym'} | ({'sym'} if t.val is not None and self.mir.mv(dst, t.val) == t.val else set()))
            return t
        # t.m == 'M' and the category changes
        if dst == 'bool':
            if src in ('Bitboard', 'Castling', 'PieceCountVector'):
                return I                      # non-zero-ness does not depend on the frame
            if src in ('Color',):
                return T('M')
        if src == 'File':
            return I
        if (src, dst) in (('num', 'Square'), ('Bitboard', 'Square'), ('Square', 'num'), ('num', 'Rank'), ('Rank', 'num'),
                          ('num', 'Bitboard'), ('Bitboard', 'num'), ('num', 'Direction'), ('Direction', 'num'),
                          ('Color', 'num'), ('num', 'Color'), ('bool', 'num'), ('num', 'bool'), ('Castling', 'num'), ('num', 'Castling')):
            # representation change; the relation is kept, uses are checked where they happen
            return T('M', t.val, t.attrs | ({'as-number'} if dst == 'num' and src in ('Rank', 'Square') else set()))
        raise AnalysisBroken('MIRROR: conversion %s -> %s of a mirrored value at %s' % (src, dst, self.fn.loc(n)))

    # -- references
    def ref(self, n, tn):
        r = n['ref']
        if r['k'] == 'Local':
            t = self.env.get(('L', r['id']))
            ex = self.mir.exception_for(self.fn, r['n'])
            if ex and t is not None and (t.m == 'U' or 'f?' in t.attrs):
                self.mir.exceptions_used.add((ex[0], r['n']))
                return T('I' if t.m == 'U' else t.m, None, t.attrs - {'f?'})
            if t is None and ('L', r['id']) not in self.env:
                t = self.by_name(r)
            if t is None:
                if ('L', r['id']) in self.env:
                    raise AnalysisBroken('MIRROR: %s read before assignment at %s' % (r['n'], self.fn.loc(n)))
                raise AnalysisBroken('MIRROR: local %s unknown at %s' % (r['n'], self.fn.loc(n)))
            return t
        if r['k'] == 'Parm':
            t = self.env.get(('P', r['id']))
            if t is None:
                t = self.by_name(r)
            if t is None:
                raise AnalysisBroken('MIRROR: parameter %s untyped in %s' % (r['n'], self.fn.name))
            return t
        if r['k'] in ('Global', 'StaticMember'):
            v = self.mir.p.vars.get(r['n'])
            if v is not None and v.get('val') is not None and not v.get('dims'):
                val = self.mir.p.val(r['n'])
                c = cat(n.get('t'))
                at = {'sym'} if self.mir.mv(c, val) == val else set()
                return T('I', val, at)
            if v is not None and v.get('dims'):
                return T('I', None, {'array:' + r['n']})
            raise AnalysisBroken('MIRROR: global %s has no compile-time value (%s)' % (r['n'], self.fn.loc(n)))
        if r['k'] == 'Enum':
            return T('I', n.get('cv'))
        if r['k'] in ('Func', 'Method'):
            return I
        raise AnalysisBroken('MIRROR: reference kind %s at %s' % (r['k'], self.fn.loc(n)))

    FIELD_TYPES = {
        'engine::endgame::EndgameBase::strongSide': 'M', 'engine::endgame::EndgameBase::weakSide': 'M',
        'engine::endgame::EndgameBase::strongKing': 'M', 'engine::endgame::EndgameBase::weakKing': 'M',
        'engine::PositionScorer::_weight': 'I',
        'engine::Score::mg': '=', 'engine::Score::eg': '=',
    }

    def member(self, n, tn):
        r = n.get('ref') or {}
        ks, tks = kids(n), kids(tn)
        name = r.get('n', '')
        ft = self.FIELD_TYPES.get(name)
        if ft == '=':
            return self.ty(ks[0], tks[0])
        if ft:
            return T(ft)
        if name.startswith('engine::PositionScorer::_'):
            return T('I', None, {'member:' + short(name)})
        if short(name) == 'value' and ks:
            # pawn cache entry: holds what insert() stored
            if self.cache_t is None:
                self.need_second_pass = True
                return I
            return self.cache_t
        if short(name) in ('first', 'second'):
            return self.ty(ks[0], tks[0])
        raise AnalysisBroken('MIRROR: member %s at %s is outside the rules' % (name, self.fn.loc(n)))

    # -- subscripts
    def subscript(self, n, tn):
        idx, tidx = [], []
        base, tbase = n, tn
        while base['k'] == 'ArraySubscriptExpr':
            b, i = kids(base)
            tb, ti = kids(tbase)
            idx.insert(0, (i, ti))
            base, tbase = strip_casts(b), strip_casts(tb)
        bt = self.ty(base, tbase)
        its = [self.ty(i, ti) for i, ti in idx]
        ics = [cat(strip_casts(i).get('t')) for i, ti in idx]
        ec = cat(n.get('t'))
        dims_ = (self.mir.p.vars.get(next((a[6:] for a in bt.attrs if a.startswith('array:')), ''), {}) or {}).get('dims') or []
        for j, (t, c) in enumerate(zip(its, ics)):
            if c == 'num' and t.m == 'M' and j < len(dims_):
                ics[j] = {64: 'Square', 8: 'Rank', 2: 'Color'}.get(dims_[j], 'num')
        arr = next((a for a in bt.attrs if a.startswith('array:')), None)
        mem = next((a for a in bt.attrs if a.startswith('member:')), None)
        for (i, ti), t in zip(idx, its):
            if t.m == 'U':
                self.need(i, t, 'I', 'num', 'the subscript')
        if mem:
            name = mem[7:]
            if name in ('_attacked_by_bb', '_attacked_by_piece', '_outposts_bb', '_blockers_for_king', '_snipers_for_king'):
                self.need(idx[0][0], its[0], 'M', 'Color', 'the colour index of %s' % name)
                if its[0].m == 'I' and its[0].val is not None:
                    return T('L', lin={(name + ''.join('[%s]' % self.cn(i) for i, _ in idx[1:]), '1'): self._col(its[0].val, 1)})
                for (i, ti), t in zip(idx[1:], its[1:]):
                    self.need(i, t, 'I', 'PieceKind', 'the piece-kind index of %s' % name)
                return T('M')
            if name in ('_piece_scores', '_side_scores'):
                if its[0].m == 'I' and its[0].val is not None and self.fn.id == self.tw.id:
                    key = (name, its[0].val) + tuple(self.cn(i) for i, _ in idx[1:])
                    return self.slots.get(key, T('L', lin={(name + ''.join('[%s]' % self.cn(i) for i, _ in idx[1:]), '1'): self._col(its[0].val, 1)}))
                self.need(idx[0][0], its[0], 'M', 'Color', 'the colour index of %s' % name)
                return I
            if name == '_square_scores':
                return I
            raise AnalysisBroken('MIRROR: member array %s at %s' % (name, self.fn.loc(n)))
        if arr:
            name = arr[6:]
            return self.table(n, name, idx, its, ics, ec)
        # local array
        if base.get('ref', {}).get('k') in ('Local', 'Parm'):
            for (i, ti), t, c in zip(idx, its, ics):
                self.need(i, t, 'I', c, 'the subscript of a local array')
            return bt if bt.m != 'I' else I
        raise AnalysisBroken('MIRROR: subscript base at %s' % self.fn.loc(n))

    def _col(self, colour, coef):
        return (coef, 0) if colour == 0 else (0, coef)

    def table(self, n, name, idx, its, ics, ec):
        mir = self.mir
        if name in SYM_NAMES_RUNTIME:
            mir.assumed.add('A-C11: %s[mirror(s)] is the mirror image of %s[s] (geometry tables, C11)' % (short(name), short(name)))
            ms = {t.m for t in its}
            if ms == {'M'}:
                return T('M')
            if ms == {'I'}:
                return I
            self.bad(n, 'frame', '%s is indexed with squares of different frames (%s)' % (short(name), ','.join(t.m for t in its)))
            return T('M')
        v = mir.p.vars.get(name)
        if v is None or v.get('val') is None:
            raise AnalysisBroken('MIRROR: table %s has no compile-time value (%s)' % (name, self.fn.loc(n)))
        if not v.get('const'):
            wr = [f.name for f, x, kk in mir.p.global_accesses(name) if kk in ('write', 'rmw', 'addr')]
            if wr:
                raise AnalysisBroken('MIRROR: table %s is written at run time by %s' % (name, wr))
        val = mir.p.val(name)
        dims = v['dims']
        key = (name, tuple(t.m for t in its), tuple(ics))
        if key in mir.tables:
            res = mir.tables[key]
        else:
            res = self._table_relation(val, dims, [t.m for t in its], ics, ec)
            mir.tables[key] = res
        if res is None:
            which = [c for t, c in zip(its, ics) if t.m == 'M']
            self.bad(n, 'table', '%s is indexed by an absolute %s but is neither symmetric nor mirror-covariant in it'
                     % (short(name), '/'.join(which)))
            return I
        m, sym = res
        at = {'sym'} if sym else set()
        if name == 'engine::FILES_BB':
            at.add('1f')
        return T(m, None, at)

    def _table_relation(self, val, dims, ms, ics, ec):
        """I if T[mirror(i)] == T[i] for all i; M if == mirror(T[i]); None otherwise. With all indices I: I (+sym if every entry symmetric)."""
        mir = self.mir

        def get(v, ix):
            for i in ix:
                v = v[i]
            return v

        def all_idx(d):
            if not d:
                yield ()
                return
            for i in range(d[0]):
                for r in all_idx(d[1:]):
                    yield (i,) + r
        nd = len(ms)
        sub = dims[:nd]
        rest_scalar = len(dims) == nd
        inv = cov = True
        allsym = True
        for ix in all_idx(sub):
            e = get(val, ix)
            mix = tuple(mir.mv(c, i) if m == 'M' else i for i, m, c in zip(ix, ms, ics))
            if any(not (0 <= j < d) for j, d in zip(mix, sub)):
                return None
            e2 = get(val, mix)
            if e2 != e:
                inv = False
            if e2 != mir.mv(ec, e):
                cov = False
            if mir.mv(ec, e) != e:
                allsym = False
        if 'M' not in ms:
            return ('I', allsym)
        if inv:
            return ('I', allsym)
        if cov:
            return ('M', False)
        return None

    # -- operators
    def unary(self, n, tn):
        op = n.get('op')
        return self.unary_op(n, op, kids(n)[0], kids(tn)[0])

    def unary_op(self, n, op, a, ta):
        t = self.ty(a, ta)
        c = cat(strip_casts(a).get('t'))
        if op in ('++', '--'):
            self.need(a, t, 'I', c, 'a counter')
            return t
        if op == '!':
            if t.m == 'M' and c in ('Bitboard', 'Castling', 'PieceCountVector'):
                return I
            return t
        if op == '~':
            return T(t.m, None, t.attrs & {'sym'})
        if op == '-':
            if t.m == 'L':
                return T('L', lin={k2: (-a_, -b_) for k2, (a_, b_) in t.lin.items()})
            if t.m == 'M' and c != 'Direction' and 'as-number' in t.attrs:
                self.bad(n, 'frame', 'arithmetic on an absolute rank/square')
            return t
        if op == '+':
            return t
        if op in ('&', '*'):
            return t
        raise AnalysisBroken('MIRROR: unary %s at %s' % (op, self.fn.loc(n)))

    def arith_join(self, n, a, b):
        """type of a (+) b for numbers"""
        if a.m == 'U' or b.m == 'U':
            return a if a.m == 'U' else b
        if a.m == 'I' and b.m == 'I':
            return I
        if a.m == 'I' and a.val == 0:
            return b
        if b.m == 'I' and b.val == 0:
            return a
        if a.m == b.m == 'N':
            return N
        if a.m in ('L', 'N', 'I') and b.m in ('L', 'N', 'I') and 'L' in (a.m, b.m):
            return self.lin_add(n, a, b, 1)
        if {a.m, b.m} == {'I', 'N'}:
            self.bad(n, 'sign', 'a colour-independent number is combined with one that changes sign between the colours')
            return I
        return None

    def lin_of(self, t):
        if t.m == 'L':
            return dict(t.lin)
        if t.m == 'I':
            return {('#I', '1'): (1, 1)} if t.val != 0 else {}
        if t.m == 'N':
            return {('#N', '1'): (1, -1)}
        return None

    def lin_add(self, n, a, b, sign):
        la, lb = self.lin_of(a), self.lin_of(b)
        if la is None or lb is None:
            raise AnalysisBroken('MIRROR: cannot combine %s and %s at %s' % (a, b, self.fn.loc(n)))
        out = dict(la)
        for k2, (x, y) in lb.items():
            p, q = out.get(k2, (0, 0))
            out[k2] = (p + sign * x, q + sign * y)
        return self.lin_norm(out)

    def lin_norm(self, lin):
        lin = {k2: v for k2, v in lin.items() if v != (0, 0)}
        # run 2 sees the BLACK term where run 1 saw the WHITE one: the value in run 2 is the form with (w, b) swapped
        if all(w == b for w, b in lin.values()):
            return I if lin else T('I', 0)
        if all(w == -b for w, b in lin.values()):
            return N
        return T('L', lin=lin)

    def binary(self, n, tn, op, a, b, ta, tb):
        ca, cb = cat(strip_casts(a).get('t')), cat(strip_casts(b).get('t'))
        rc = cat(n.get('t'))
        # assignment forms --------------------------------------------------------------
        if op == '=':
            tb_ = self.ty(b, tb)
            self.assign(n, a, ta, tb_, b)
            return tb_
        if op in ('+=', '-=', '*=', '/=', '|=', '&=', '^=', '<<=', '>>='):
            cur = self.ty(a, ta)
            rhs = self.ty(b, tb)
            res = self.combine(n, op[:-1], cur, rhs, ca, cb, ca, a, b)
            self.assign(n, a, ta, res, b, compound=op)
            return res
        # parity idiom: (rank(x) + file(x)) & 1, % 2
        if op in ('&', '%') and const_of(strip_casts(b)) in (1, 2):
            s = strip_casts(a)
            if s['k'] == 'BinaryOperator' and s.get('op') == '+':
                parts = [strip_casts(x) for x in kids(s)]
                names = sorted(short(x.get('callee', {}).get('n', '')) for x in parts)
                if names == ['file', 'rank'] and len({self.cn(kids(x)[1]) for x in parts}) == 1:
                    rk = next(x for x in parts if short(x['callee']['n']) == 'rank')
                    t_sq = self.ty(kids(rk)[1], kids(rk)[1])
                    if 'f?' in t_sq.attrs:
                        return T('U', attrs={'colour of a rank-selected square (ties)'})
                    return T(t_sq.m if t_sq.m in ('I', 'M') else 'U')
        if op in ('&&', '||') and self.complement_pair(a, b):
            return I
        x = self.ty(a, ta)
        y = self.ty(b, tb)
        return self.combine(n, op, x, y, ca, cb, rc, a, b)

    def combine(self, n, op, x, y, ca, cb, rc, a, b):
        if x.m == 'U' or y.m == 'U':
            self.need(n, x if x.m == 'U' else y, 'I', rc, 'an operand')
            return I
        if op in ('&&', '||'):
            # complementary constant pair: (X & c) && (X & mirror(c))
            pr = self.complement_pair(a, b)
            if pr:
                return I
            for t, e, c in ((x, a, ca), (y, b, cb)):
                tt = I if (t.m == 'M' and c in ('Bitboard', 'Castling', 'PieceCountVector')) else t
                self.need(e, tt, 'I', 'bool', 'a condition')
            return I
        if op in ('==', '!=', '<', '<=', '>', '>='):
            if ca == 'File' or cb == 'File':
                return I if {x.m, y.m} <= {'I', 'M'} else self._mix(n, x, y, ca)
            if x.m == 'M' and y.m == 'M':
                if op in ('==', '!='):
                    return I
                if ca in ('Rank', 'Square', 'num'):
                    self.bad(n, 'frame', 'absolute ranks are compared by order: the outcome is reversed for the other colour')
                    return I
                return I
            if x.m == 'I' and y.m == 'I':
                return I
            if x.m == y.m == 'N':
                if op in ('==', '!='):
                    return I
                self.bad(n, 'sign', 'numbers that change sign are compared by order')
                return I
            if {x.m, y.m} == {'I', 'M'}:
                mt, it = (x, y) if x.m == 'M' else (y, x)
                c = ca if x.m == 'M' else cb
                if self.is_sym_const(it, c):
                    return I
                if c in ('Color', 'bool') and op in ('==', '!='):
                    return T('M')          # a colour test: its truth value swaps
                self.bad(n, 'frame', 'an absolute %s is compared with a colour-independent one' % c)
                return I
            if 'L' in (x.m, y.m) or 'N' in (x.m, y.m):
                self.bad(n, 'sign', 'comparison of colour-asymmetric numbers')
                return I
            return self._mix(n, x, y, ca)
        if op in ('&', '|', '^') and ('rot' in x.attrs or 'rot' in y.attrs):
            if 'rot' in x.attrs and 'rot' in y.attrs and x.val and y.val and x.val[2] == y.val[2] and \
                    self.mir.mv('Direction', x.val[0]) == y.val[1] and self.mir.mv('Direction', y.val[0]) == x.val[1]:
                return T('M')
            self.bad(n, 'pair', 'a diagonally shifted set is used without its left/right sibling')
            return T('M')
        if op in ('&', '|', '^'):
            if x.m == 'I' and y.m == 'I':
                at = {'sym'} if ('sym' in x.attrs and 'sym' in y.attrs) else set()
                if op == '&' and ('1f' in x.attrs or '1f' in y.attrs):
                    at.add('1f')
                return T('I', None, at)
            if x.m == 'M' and y.m == 'M':
                at = {'1f'} if op == '&' and ('1f' in x.attrs or '1f' in y.attrs) else set()
                return T('M', None, at)
            if {x.m, y.m} == {'I', 'M'}:
                mt, it = (x, y) if x.m == 'M' else (y, x)
                c = ca if x.m == 'M' else cb
                if self.is_sym_const(it, c if c != 'num' else rc):
                    at = set()
                    if op == '&' and ('1f' in it.attrs or '1f' in mt.attrs):
                        at.add('1f')
                    return T('M', None, at)
                self.bad(n, 'frame', 'an absolute bitboard/flag set is combined with a colour-independent one that is not vertically symmetric')
                return T('M')
            return self._mix(n, x, y, ca)
        if op in ('<<', '>>'):
            if x.m == 'I' and y.m == 'I':
                return I
            raise AnalysisBroken('MIRROR: shift of a mirrored value at %s (use an intrinsic)' % self.fn.loc(n))
        if op in ('+', '-', '*', '/', '%'):
            # rank/square geometry
            if ca in ('Rank', 'Square') or cb in ('Rank', 'Square') or 'as-number' in x.attrs or 'as-number' in y.attrs:
                return self.geometry(n, op, x, y, ca, cb, a, b)
            if ca == 'File' or cb == 'File':
                if {x.m, y.m} <= {'I', 'M'}:
                    return I
            if op in ('+', '-'):
                if 'L' in (x.m, y.m):
                    return self.lin_add(n, x, y, 1 if op == '+' else -1)
                r = self.arith_join(n, x, y)
                if r is None:
                    return self._mix(n, x, y, ca)
                return r
            if op in ('*', '/', '%'):
                if x.m == 'I' and y.m == 'I':
                    return I
                if {x.m, y.m} == {'I', 'N'}:
                    return N if op != '%' else self._mix(n, x, y, ca)
                if x.m == y.m == 'N' and op == '*':
                    return I
                if 'L' in (x.m, y.m) and op == '*':
                    lt, ot, oe = (x, y, b) if x.m == 'L' else (y, x, a)
                    if ot.m != 'I':
                        return self._mix(n, x, y, ca)
                    coef = self.cn(oe)
                    return T('L', lin={(k2[0], k2[1] + '*' + coef): v for k2, v in lt.lin.items()})
                if 'L' in (x.m, y.m) and op == '/':
                    if x.m == 'L' and y.m == 'I':
                        return x
                return self._mix(n, x, y, ca)
        raise AnalysisBroken('MIRROR: operator %s at %s' % (op, self.fn.loc(n)))

    def _mix(self, n, x, y, c):
        self.bad(n, 'frame', 'operands relate differently to the colour swap (%s vs %s)' % (self.describe(x, c), self.describe(y, c)))
        return I

    def geometry(self, n, op, x, y, ca, cb, a, b):
        mir = self.mir
        # RANK_8 - e : the mirror operation itself
        if op == '-' and x.m == 'I' and x.val == mir.rank8 and (ca == 'Rank' or cb == 'Rank'):
            if y.m == 'M':
                return T('I')
            if y.m == 'I':
                return T('M')
        if x.m == 'I' and y.m == 'I':
            return I
        if x.m == 'M' and y.m == 'N' and op in ('+', '-'):
            if ca == 'Square' and y.val and abs(y.val[0]) % 8 != 0:
                self.bad(n, 'frame', 'a colour-dependent step that is not whole ranks is added to a square')
            return T('M')
        if x.m == 'M' and y.m == 'M' and op == '-':
            if ca == 'Rank' and cb == 'Rank':
                return N
        if {x.m, y.m} == {'I', 'N'} and op == '*':
            return N
        if {x.m, y.m} == {'I', 'M'}:
            it = x if x.m == 'I' else y
            if it.val == 0:
                return T('M')
            self.bad(n, 'frame', 'arithmetic on an absolute rank/square with a colour-independent number')
            return I
        if x.m == 'M' and y.m == 'M' and op == '+':
            self.bad(n, 'frame', 'absolute ranks/squares are added')
            return I
        return self._mix(n, x, y, ca)

    def complement_pair(self, a, b):
        """(X & c1) && (X & c2) with c2 the mirror image of c1 and X absolute"""
        def split(e):
            e = strip_casts(e)
            while e['k'] in ('ImplicitCastExpr', 'ParenExpr'):
                e = kids(e)[-1]
            if e['k'] == 'BinaryOperator' and e.get('op') == '&':
                p, q = [strip_casts(z) for z in kids(e)]
                if q.get('cv') is not None:
                    return self.cn(p), q['cv']
                if p.get('cv') is not None:
                    return self.cn(q), p['cv']
            return None
        sa, sb = split(a), split(b)
        if sa and sb and sa[0] == sb[0] and bswap(sa[1]) == sb[1] and sa[1] != sb[1]:
            return True
        return False

    # -- assignment
    def assign(self, n, lhs, tlhs, t, rhs, compound=None):
        l = strip_casts(lhs)
        if l['k'] == 'DeclRefExpr':
            r = l['ref']
            if r['k'] in ('Local', 'Parm'):
                key = ('L' if r['k'] == 'Local' else 'P', r['id'])
                if self.elem_loops and not compound:
                    inner = set()
                    for lp, s in self.elem_loops:
                        inner |= s
                    if key not in inner and self.depends_on_elem(rhs):
                        t = T('U', attrs={'last-one-wins'})
                self.env[key] = t
                return
        if l['k'] == 'ArraySubscriptExpr':
            base = l
            idx = []
            while base['k'] == 'ArraySubscriptExpr':
                idx.insert(0, kids(base)[1])
                base = strip_casts(kids(base)[0])
            if base['k'] == 'MemberExpr':
                name = short(base.get('ref', {}).get('n', ''))
                if name in ('_attacked_by_bb', '_attacked_by_piece', '_outposts_bb', '_blockers_for_king', '_snipers_for_king'):
                    self.need(n, t, 'M', 'Bitboard', 'the value stored in %s' % name)
                    self.ty(lhs, tlhs)
                    return
                if name in ('_piece_scores', '_side_scores'):
                    it = self.ty(idx[0], idx[0]) if self.fn.id == self.tw.id else None
                    if it is not None and it.m == 'I' and it.val is not None:
                        self.slots[(name, it.val) + tuple(self.cn(i) for i in idx[1:])] = t
                        return
                    self.ty(lhs, tlhs)
                    self.need(n, t, 'I', 'num', 'the score stored in %s' % name)
                    return
                if name == '_square_scores':
                    return
            if base.get('ref', {}).get('k') in ('Local', 'Parm'):
                it = [self.ty(i, i) for i in idx]
                for i, tt in zip(idx, it):
                    self.need(i, tt, 'I', cat(strip_casts(i).get('t')), 'the subscript of a local array')
                if t.m != 'I':
                    self.bad(n, 'frame', 'a local array receives a value that differs between the colours')
                return
        if l['k'] == 'MemberExpr':
            name = l.get('ref', {}).get('n', '')
            if name == 'engine::PositionScorer::_weight':
                self.need(n, t, 'I', 'num', 'the game-phase weight')
                return
        raise AnalysisBroken('MIRROR: assignment target at %s is outside the rules' % self.fn.loc(n))

    # -- conditionals
    def conditional(self, n, tn):
        c, a, b = kids(n)
        tc, ta, tb = kids(tn)
        cv, tcv = const_of(c), const_of(tc)
        if cv is not None and tcv is not None:
            if bool(cv) == bool(tcv):
                return self.ty(a, ta) if cv else self.ty(b, tb)
            return self.pair(n, a, b, ta, tb, 'the template colour')
        ct = self.ty(c, tc)
        cc = cat(strip_casts(c).get('t'))
        if ct.m == 'M' and cc in ('Bitboard', 'Castling', 'PieceCountVector'):
            ct = I
        if ct.m == 'I':
            x, y = self.ty(a, ta), self.ty(b, tb)
            j = self.join(x, y, n, 'conditional')
            return j
        if ct.m == 'M':
            return self.pair(n, a, b, ta, tb, 'a colour')
        self.need(c, ct, 'I', cc, 'the condition')
        return I

    MIRROR_OPS = ('flip_vertically',)

    def mirror_op_operand(self, e):
        """if e == mirror-op(x) syntactically return x"""
        s = strip_casts(e)
        if s['k'] == 'CallExpr' and short(s.get('callee', {}).get('n', '')) in self.MIRROR_OPS:
            return kids(s)[1]
        if s['k'] == 'UnaryOperator' and s.get('op') in ('-', '!'):
            return kids(s)[0]
        if s['k'] == 'CXXOperatorCallExpr' and s.get('op') in ('-', '!') and len(kids(s)) == 2:
            return kids(s)[1]
        if s['k'] in ('BinaryOperator', 'CXXOperatorCallExpr') and s.get('op') == '-':
            ks = kids(s) if s['k'] == 'BinaryOperator' else kids(s)[1:]
            if len(ks) == 2 and const_of(strip_casts(ks[0])) == self.mir.rank8 and \
                    'Rank' in (cat(strip_casts(ks[0]).get('t')), cat(strip_casts(ks[1]).get('t')), cat(s.get('t'))):
                return ks[1]
        return None

    def pair(self, n, a, b, ta, tb, why):
        """value is `a` in one run and `b` in the other"""
        c = cat(n.get('t'))
        va, vb = const_of(strip_casts(a)), const_of(strip_casts(b))
        if va is not None and vb is not None:
            if self.mir.mv(c, va) == vb:
                return T('M') if va != vb else T('I', va, {'sym'})
            if c in ('num', 'Direction') and va == -vb:
                return N
            self.bad(n, 'pair', 'the two alternatives chosen by %s (%s / %s) are not mirror images of each other' % (why, va, vb))
            return I
        for p, q, tq in ((a, b, tb), (b, a, ta)):
            x = self.mirror_op_operand(p)
            if x is not None and self.cn(x) == self.cn(q):
                t = self.ty(q, tq)
                if t.m == 'I':
                    return T('M' if c != 'num' else 'N', None, t.attrs - {'sym'})
                if t.m in ('M', 'N'):
                    return T('I', None, t.attrs - {'sym'})
                return t
        sa, sb = strip_casts(a), strip_casts(b)
        na, nb = short(sa.get('callee', {}).get('n', '')), short(sb.get('callee', {}).get('n', ''))
        if {na, nb} == {'msb', 'lsb'} and self.cn(kids(sa)[1]) == self.cn(kids(sb)[1]):
            t = self.ty(kids(sa)[1], kids(strip_casts(ta))[1])
            if t.m == 'M':
                return T('M', None, set() if '1f' in t.attrs else {'f?'})
            self.bad(n, 'pair', 'highest/lowest bit is chosen by colour on a set that is not mirrored')
            return I
        self.bad(n, 'pair', 'the two alternatives chosen by %s are not a recognised mirror pair (%s / %s)' % (why, self.cn(a), self.cn(b)))
        return I

    # -- calls
    def call(self, n, tn):
        mir = self.mir
        cal = n.get('callee', {})
        name = cal.get('n', '')
        fid = cal.get('fid')
        tfid = (tn.get('callee') or {}).get('fid')
        ks, tks = kids(n), kids(tn)
        args, targs = ks[1:], tks[1:]
        sn = short(name)
        rc = cat(n.get('t'))

        def A(i):
            return self.ty(args[i], targs[i])

        def C(i):
            return cat(strip_casts(args[i]).get('t'))
        if name.startswith('engine::Position::'):
            return self.position_call(n, sn, args, targs)
        if name in PURE_I:
            t = A(0)
            self.need(args[0], t if t.m != 'M' else I, 'I', 'Bitboard', 'the argument')
            return I
        if sn in ('rank',) and name == 'engine::rank':
            t = A(0)
            return T(t.m, None, t.attrs - {'f?', 'sym'})
        if name == 'engine::file':
            t = A(0)
            if 'f?' in t.attrs:
                return T('U', attrs={'file of a rank-selected square (ties)'})
            if t.m == 'U':
                return t
            return I
        if name == 'engine::make_square':
            r, f = A(0), A(1)
            self.need(args[1], f, 'I', 'File', 'the file')
            return T(r.m if r.m in ('I', 'M', 'U') else 'U', None, r.attrs & {'f?'})
        if name == 'engine::distance':
            x, y = A(0), A(1)
            if x.m == y.m and x.m in ('I', 'M'):
                if 'f?' in x.attrs or 'f?' in y.attrs:
                    return T('U', attrs={'distance to a rank-selected square (ties)'})
                return I
            if x.m == 'U' or y.m == 'U':
                return x if x.m == 'U' else y
            self.bad(n, 'frame', 'distance between an absolute and a colour-relative square')
            return I
        if name == 'engine::sq_color':
            t = A(0)
            if 'f?' in t.attrs:
                return T('U', attrs={'colour of a rank-selected square (ties)'})
            return T(t.m)
        if name == 'engine::flip_vertically':
            t = A(0)
            return T({'I': 'M', 'M': 'I'}.get(t.m, 'U'), None, t.attrs & {'f?'})
        if name == 'engine::flip_horizontally':
            return A(0)
        if name == 'engine::square_bb':
            t = A(0)
            if 'f?' in t.attrs:
                return T('U', attrs={'rank-selected square (ties)'})
            return T(t.m, None, {'1f'} if t.m in ('I', 'M') else t.attrs)
        if name in ('engine::lsb', 'engine::msb'):
            t = A(0)
            a0 = strip_casts(args[0])
            if name == 'engine::lsb' and (a0.get('ref') or {}).get('id') in getattr(self, 'bitvars', set()) and self.elem_loops:
                return T(t.m if t.m in ('I', 'M') else 'U')         # the current element of a set walked bit by bit
            if t.m == 'I':
                return I
            if t.m == 'M':
                return T('U', attrs={'lowest/highest bit of a mirrored set'})
            return t
        if name == 'engine::pop_lsb':
            inner = strip_casts(args[0])
            if inner['k'] == 'UnaryOperator' and inner.get('op') == '&':
                t = self.ty(kids(inner)[0], kids(strip_casts(targs[0]))[0])
            else:
                t = A(0)
            if not self.elem_loops:
                if t.m == 'M':
                    return T('U', attrs={'lowest bit of a mirrored set'})
            return T(t.m if t.m in ('I', 'M') else 'U')
        if name == 'engine::shift':
            t = A(0)
            d1, d2 = self.targ_val(fid, 'engine::Direction'), self.targ_val(tfid, 'engine::Direction')
            if len(args) == 2:
                d = A(1)
                if t.m == 'M' and d.m == 'M':
                    return T('M')
                if t.m == 'I' and d.m == 'I':
                    return I
                return self._mix(n, t, d, 'Bitboard')
            if d1 is None or d2 is None:
                raise AnalysisBroken('MIRROR: shift<> template argument unreadable at %s' % self.fn.loc(n))
            if t.m == 'M':
                if mir.mv('Direction', d1) == d2:
                    return T('M')
                if d2 == -d1:
                    # 180-degree partner: fine when used together with its sibling (left|right), checked at the combination
                    return T('M', (d1, d2, self.cn(args[0])), {'rot'})
                self.bad(n, 'pair', 'shift direction %s (WHITE) / %s (BLACK) is not a mirror pair' % (d1, d2))
                return T('M')
            if t.m == 'I' and d1 == d2:
                return I
            return self._mix(n, t, I, 'Bitboard')
        if name in ('engine::pawn_attacks', 'engine::forward_ranks_bb'):
            t = A(0)
            if len(args) == 2:
                s = A(1)
                self.need(args[1], s, 'M', 'Color', 'the colour')
                self.need(args[0], t, 'M', 'Bitboard', 'the pawns')
                return T('M')
            c1, c2 = self.targ_val(fid, 'engine::Color'), self.targ_val(tfid, 'engine::Color')
            if c1 is None or c2 is None:
                raise AnalysisBroken('MIRROR: %s<> template argument unreadable at %s' % (sn, self.fn.loc(n)))
            if c1 != c2:
                self.need(args[0], t, 'M', C(0), 'the argument of %s<side>' % sn)
                return T('M')
            if self.fn.id == self.tw.id:
                # explicit colour in non-generic code
                return T('L', lin={('%s(%s)' % (sn, self.cn(args[0])), '1'): self._col(c1, 1)})
            self.bad(n, 'asym-call', '%s<%s> is used for both colours' % (sn, 'WHITE' if c1 == 0 else 'BLACK'))
            return T('M')
        if name in ('engine::slider_attack',):
            x, y = A(0), A(1)
            if x.m == y.m and x.m in ('I', 'M') or (x.m == 'M' and self.is_sym_const(y, 'Bitboard')):
                if 'f?' in x.attrs:
                    return T('U', attrs={'rank-selected square (ties)'})
                return T(x.m)
            self.bad(n, 'frame', 'slider attacks from %s over %s' % (self.describe(x, 'Square'), self.describe(y, 'Bitboard')))
            return T('M')
        if name in ('engine::pseudoattacks',):
            t = A(0)
            return T(t.m)
        if name == 'engine::attacked_squares':
            self.need(args[1], A(1), 'M', 'Color', 'the colour')
            return T('M')
        if name == 'engine::make_piece':
            c, kd = A(0), A(1)
            self.need(args[1], kd, 'I', 'PieceKind', 'the piece kind')
            if c.m == 'I' and isinstance(c.val, int) and isinstance(kd.val, int):
                # both named: the piece constant itself
                ke = {v: k_ for k_, v in self.mir.p.enum('engine::PieceKind').items()}
                pe = self.mir.p.enum('engine::Piece')
                nm_ = ('W_' if c.val == 0 else 'B_') + ke.get(kd.val, '?')
                if nm_ in pe:
                    return T('I', pe[nm_])
            return T(c.m, None)
        if name == 'engine::get_color' or name == 'engine::get_piece_kind':
            return A(0) if name == 'engine::get_color' else I
        if name in ('engine::bitbase::normalize',):
            ts = [A(i) for i in range(5)]
            for i, t in enumerate(ts):
                self.need(args[i], t, 'M', C(i), 'argument %d of bitbase::normalize (absolute before the call)' % (i + 1))
            for i in range(1, 5):
                self.assign(n, args[i], targs[i], I, args[i], compound='out')
            return I
        if name == 'engine::bitbase::check':
            for i in range(4):
                self.need(args[i], A(i), 'I', C(i), 'argument %d of bitbase::check (strong-side frame)' % (i + 1))
            return I
        if name in ('engine::endgame::score', 'engine::endgame::EndgameBase::strongSideScore', 'engine::endgame::EndgameBase::applies'):
            return I        # established separately for every evaluator (C13.R1) and for the dispatcher (C13.R4)
        if name.startswith('std::') or name in ('abs', 'labs', 'llabs'):
            if sn in ('min', 'max', 'abs', 'labs', 'llabs', 'make_pair', 'move', 'forward'):
                out = None
                for i in range(len(args)):
                    if cat(strip_casts(args[i]).get('t')) == 'num' and 'lambda' in (strip_casts(args[i]).get('t') or ''):
                        continue
                    t = A(i)
                    if 'lambda' in (args[i].get('t') or ''):
                        continue
                    if sn == 'make_pair':
                        continue
                    if sn in ('min', 'max') and t.m in ('N', 'L'):
                        self.bad(n, 'sign', 'min/max of a number that changes sign between the colours')
                        t = I
                    if sn == 'abs' and t.m == 'N':
                        t = I
                    out = t if out is None else self.join(out, t, n, 'min/max')
                return out or I
            raise AnalysisBroken('MIRROR: %s at %s' % (name, self.fn.loc(n)))
        if name.endswith('::probe') or name.endswith('::insert'):
            if name.endswith('::insert'):
                t = A(1)
                if self.cache_t is None or self.cache_t.m != t.m:
                    self.cache_t = t
            return I
        if name.endswith('PositionScorer::combine'):
            return A(0)
        # operators on Score etc. arrive as CXXOperatorCallExpr, not here. Everything else: analyse the body.
        callee = mir.p.funcs.get(fid)
        if callee is None or callee.body is None:
            raise AnalysisBroken('MIRROR: call to %s at %s is outside the rules' % (name, self.fn.loc(n)))
        ats = [A(i) for i in range(len(args))]
        c1, c2 = self.targ_val(fid, 'engine::Color'), self.targ_val(tfid, 'engine::Color')
        if c1 is not None and c1 == c2:
            if self.fn.id != self.tw.id:
                self.bad(n, 'asym-call', '%s<%s> is called for both colours' % (sn, 'WHITE' if c1 == 0 else 'BLACK'))
            else:
                rt, outs = mir.summary(callee if c1 == 0 else mir.twin(callee), ats)
                self.apply_outs(n, args, targs, outs)
                key = '%s(%s)' % (sn, ','.join(self.cn(x) for x in args))
                if cat(n.get('t')) == 'num' and (n.get('t') or '').strip() in ('void',):
                    self.tokens.append((key, c1))
                    return I
                if (n.get('t') or '').strip() == 'void':
                    self.tokens.append((key, c1))
                    return I
                if rt.m != 'I':
                    self.bad(n, 'frame', '%s does not return a colour-independent value' % sn)
                return T('L', lin={(key, '1'): self._col(c1, 1)})
        rt, outs = mir.summary(callee, ats)
        self.apply_outs(n, args, targs, outs)
        return rt

    def lambda_call(self, n, tn):
        """a call of a lambda written in this function: its body is typed in place, parameters bound to the argument types,
        captured variables being the enclosing function's own"""
        g = self.mir.p.funcs.get((n.get('callee') or {}).get('fid'))
        tg = self.mir.p.funcs.get((tn.get('callee') or {}).get('fid'))
        if g is None or tg is None or g.body is None or tg.body is None or getattr(g, 'enclosing', None) is not self.fn:
            raise AnalysisBroken('MIRROR: operator () at %s' % self.fn.loc(n))
        if getattr(self, '_inl', 0) >= 3:
            raise AnalysisBroken('MIRROR: nested lambda calls at %s' % self.fn.loc(n))
        ks, tks = kids(n), kids(tn)
        args, targs = ks[2:], tks[2:]
        for i, prm in enumerate(g.params):
            if '&' in (prm.get('t') or '') and 'const' not in (prm.get('t') or ''):
                raise AnalysisBroken('MIRROR: lambda with a reference parameter at %s' % self.fn.loc(n))
            self.env[('P', prm['id'])] = self.ty(args[i], targs[i]) if i < len(args) else I
        saved_r, saved_l = self.rets, self.elem_loops
        self.rets, self.elem_loops = [], []
        self._inl = getattr(self, '_inl', 0) + 1
        try:
            self.run(g.body, tg.body)
            rets = self.rets
        finally:
            self.rets, self.elem_loops = saved_r, saved_l
            self._inl -= 1
        rt = None
        for r in rets:
            rt = r if rt is None else self.join(rt, r, n, 'return')
        return rt if rt is not None else I

    def by_name(self, r):
        """a captured variable inside an inlined lambda: the enclosing function's variable of that name"""
        if not getattr(self, '_inl', 0):
            return None
        nm_ = short(r['n'])
        for prm in self.fn.params:
            if prm['name'] == nm_ and ('P', prm['id']) in self.env:
                return self.env[('P', prm['id'])]
        hits = [x for x in self.fn.all_nodes() if x['k'] == 'VarDecl' and x.get('name') == nm_ and ('L', x['id']) in self.env]
        if len(hits) == 1:
            return self.env[('L', hits[0]['id'])]
        return None

    def apply_outs(self, n, args, targs, outs):
        for i, t in outs.items():
            if t is not None and i < len(args):
                a = strip_casts(args[i])
                if a['k'] in ('DeclRefExpr', 'ArraySubscriptExpr', 'MemberExpr'):
                    try:
                        self.assign(n, args[i], targs[i], t, args[i], compound='out')
                    except AnalysisBroken:
                        raise

    def targ_val(self, fid, enum):
        if not fid:
            return None
        m = re.search(r'<([^<>()]*)>\(', fid)
        if not m:
            return None
        e = self.mir.p.enum(enum)
        for a in m.group(1).split(','):
            a = a.strip()
            if short(a) in e and a.startswith('engine::'):
                return e[short(a)]
        return None

    def position_call(self, n, sn, args, targs):
        ts = [self.ty(a, b) for a, b in zip(args, targs)]
        cs = [cat(strip_casts(a).get('t')) for a in args]
        if sn not in POSITION_METHODS:
            raise AnalysisBroken('MIRROR: Position::%s at %s is outside the rules' % (sn, self.fn.loc(n)))
        explicit = None
        for a, t, c in zip(args, ts, cs):
            if c in ('Color', 'Piece'):
                if t.m == 'I' and t.val is not None and self.fn.id == self.tw.id and sn == 'number_of_pieces':
                    explicit = t.val
                    continue
                self.need(a, t, 'M', c, 'the colour/piece passed to Position::%s' % sn)
            elif c in ('PieceKind', 'num'):
                self.need(a, t, 'I', c, 'the argument of Position::%s' % sn)
            elif c == 'Square':
                self.need(a, t, 'M', c, 'the square passed to Position::%s' % sn)
        if explicit is not None:
            pe = self.mir.p.enum('engine::Piece')
            nm = next(k for k, v in pe.items() if v == explicit)
            colour = 0 if nm.startswith('W_') else 1
            return T('L', lin={('number_of_pieces(%s)' % nm[2:], '1'): self._col(colour, 1)})
        r = POSITION_METHODS[sn]
        if r == 'M':
            if sn == 'piece_position' and self.elem_loops:
                return T('M')
            return T('M')
        return I
