"""UCITAB: which handler a command word reaches, and which limit a `go` parameter word fills — decided per word.

uci_dispatch(p): command word -> handler (short name), from the guards of the handler calls in Uci::loop (`token == "go"` on the
path to go_command(...), however the chain is spelled) or from a table of (word, &Uci::x_command) pairs.
go_words(p): for every parameter word go_command tests, the effects of one turn of its token loop when the token is that word."""
import re

from facts import AnalysisBroken
from prog import walk, kids, short
from rules.common import guard_facts, ast_guards, strip_casts


def uci_dispatch(p):
    from rules.norm import Norm, Unknown
    loop = p.fn('engine::Uci::loop')
    nm = Norm(loop)
    out = {}
    n_sites = 0
    for n, fid, name in loop.calls():
        if not (name.startswith('engine::Uci::') and name.endswith('_command')):
            continue
        n_sites += 1
        words, others = set(), set()
        for c_, t_ in list(guard_facts(loop, n)) + list(ast_guards(loop, n)):
            try:
                at = nm.atom(c_)
            except Unknown:
                continue
            if isinstance(at, tuple) and at[0] in ('eq', 'ne') and isinstance(at[1], str) and re.fullmatch(r'"\w+"', at[1]):
                if (at[0] == 'eq') == bool(t_):
                    words.add(at[1].strip('"'))
                else:
                    others.add(at[1].strip('"'))
        if (not words and others) or len(words) > 1:
            continue        # reached when the word is *not* one of `others`, or never (two different words at once): no word is
                            # dispatched to this handler here
        if len(words) != 1:
            raise AnalysisBroken('UCITAB: the call of %s at %s is not governed by one comparison of the command word (%s)'
                                 % (short(name), loop.loc(n), sorted(words)))
        w = words.pop()
        if w in out and out[w] != short(name):
            raise AnalysisBroken('UCITAB: the word %s reaches two handlers' % w)
        out[w] = short(name)
    # a table of (word, member function) pairs
    for n in loop.all_nodes():
        r = n.get('ref') or {}
        if n['k'] == 'DeclRefExpr' and r.get('k') == 'Method' and r.get('n', '').startswith('engine::Uci::') and r['n'].endswith('_command'):
            par = loop.parent(n)
            if par is None or par['k'] != 'UnaryOperator' or par.get('op') != '&':
                continue
            n_sites += 1
            row = par
            lits = []
            while row is not None and not lits:
                row = loop.parent(row)
                if row is None or row['k'] in ('CompoundStmt', 'DeclStmt'):
                    break
                lits = [x.get('s') for x in walk(row) if x['k'] == 'StringLiteral']
                meths = [x for x in walk(row) if (x.get('ref') or {}).get('k') == 'Method' and x['ref']['n'].endswith('_command')]
                if len(meths) > 1:
                    lits = []
                    break
            if len(lits) != 1:
                raise AnalysisBroken('UCITAB: the table row of %s at %s does not pair it with one word' % (short(r['n']), loop.loc(n)))
            if lits[0] in out and out[lits[0]] != short(r['n']):
                raise AnalysisBroken('UCITAB: the word %s reaches two handlers' % lits[0])
            out[lits[0]] = short(r['n'])
    if n_sites == 0:
        raise AnalysisBroken('UCITAB: Uci::loop no longer dispatches to <word>_command handlers')
    return loop, out


def go_words(p):
    """{word: [effects of one turn of go_command's token loop when the token is that word]}"""
    from rules.norm import Norm, Unknown
    from rules.cases import effects_under
    f = p.fn('engine::Uci::go_command')
    loops = [n for n in f.all_nodes() if n['k'] == 'WhileStmt' and not any(a['k'] in ('WhileStmt', 'ForStmt') for a in f.ancestors(n))]
    if len(loops) != 1:
        raise AnalysisBroken('UCITAB: go_command has %d outer token loops, the rule knows the form with one' % len(loops))
    body = kids(loops[0])[-1]
    keep = tuple(q['name'] for q in f.params) + tuple(x['name'] for x in f.all_nodes() if x['k'] == 'VarDecl' and x.get('name') and
                                                      not any(a is body for a in f.ancestors(x)))
    nm = Norm(f, keep=keep)
    lits = {}
    for n in walk(body):
        if n.get('op') == '==' and n['k'] in ('BinaryOperator', 'CXXOperatorCallExpr'):
            try:
                at = nm.atom(n)
            except Unknown:
                continue
            if isinstance(at, tuple) and at[0] == 'eq' and isinstance(at[1], str) and re.fullmatch(r'"\w+"', at[1]):
                lits[at[1].strip('"')] = at
    # a table of (word, &destination) rows looked up with find_if on the token: for a word the lookup is decided and the
    # dereferenced column is the row's destination
    tables = {}
    for d in f.all_nodes():
        if d['k'] == 'VarDecl' and kids(d) and '[' in (d.get('t') or ''):
            rows = {}
            for il in walk(kids(d)[0]):
                if il['k'] in ('InitListExpr', 'CXXConstructExpr') and len(kids(il)) == 2:
                    a, b = kids(il)
                    sl = [x for x in walk(a) if x['k'] == 'StringLiteral']
                    tb = b
                    while tb is not None and tb['k'] in ('ImplicitCastExpr', 'ParenExpr', 'CXXConstructExpr', 'MaterializeTemporaryExpr') and kids(tb):
                        tb = kids(tb)[-1]
                    if len(sl) == 1 and tb is not None and tb['k'] == 'UnaryOperator' and tb.get('op') == '&':
                        rows[sl[0].get('s')] = kids(tb)[0]
            if rows:
                tables[d['id']] = (d, rows)
    lookups = []
    for d in f.all_nodes():
        if d['k'] != 'VarDecl' or not kids(d):
            continue
        call = strip_casts(kids(d)[0])
        while call is not None and call['k'] in ('ExprWithCleanups', 'MaterializeTemporaryExpr', 'CXXConstructExpr') and kids(call):
            call = strip_casts(kids(call)[-1])
        if call is None or not (call.get('callee') or {}).get('n', '').startswith('std::find_if'):
            continue
        tids = {(x.get('ref') or {}).get('id') for x in walk(call) if (x.get('ref') or {}).get('k') == 'Local'} & set(tables)
        lam = [x for x in walk(call) if x['k'] == 'LambdaExpr']
        if len(tids) != 1 or len(lam) != 1:
            raise AnalysisBroken('UCITAB: go_command looks a word up at %s in a way the rule does not know' % f.loc(d))
        lid = lam[0].get('lambda') or ''
        g = p.funcs.get(lid)
        if g is None and '@' in lid:
            # a generic lambda: its call operator exists only as instantiations
            pre, at_ = lid.split('operator()', 1)[0], lid.rsplit('@', 1)[1]
            inst = [h for k_, h in p.funcs.items() if k_.startswith(pre + 'operator()') and k_.endswith('@' + at_) and h.body is not None]
            g = inst[0] if len(inst) == 1 else None
        rets = [x for x in g.all_nodes() if x['k'] == 'ReturnStmt'] if g is not None and g.body is not None else []
        ok = len(rets) == 1 and any(x.get('op') == '==' for x in walk(rets[0])) and \
            any(short((x.get('ref') or {}).get('n', '')) == 'first' for x in walk(rets[0])) and \
            any(short((x.get('ref') or {}).get('n', '')) == 'token' for x in walk(rets[0]))
        if not ok:
            raise AnalysisBroken('UCITAB: the predicate of the word lookup at %s is not `token == row.first`' % f.loc(d))
        lookups.append((d, tables[tids.pop()][1]))
    for d, rows in lookups:
        for w_ in rows:
            lits.setdefault(w_, None)
    if not lits:
        raise AnalysisBroken('UCITAB: go_command does not compare its token with parameter words')
    out = {}
    for w in sorted(lits):
        val = {at: (l == w) for l, at in lits.items() if at is not None}
        subst = []
        for d, rows in lookups:
            hit = rows.get(w)
            for n in walk(body):
                if n.get('op') in ('==', '!=') and n['k'] in ('BinaryOperator', 'CXXOperatorCallExpr') and \
                        any((x.get('ref') or {}).get('id') == d['id'] and (x.get('ref') or {}).get('k') == 'Local' for x in walk(n)):
                    try:
                        at = nm.atom(n)
                    except Unknown:
                        raise AnalysisBroken('UCITAB: the test of the lookup result at %s is not understood' % f.loc(n))
                    # the comparison is with the table's end: it differs from it exactly when the word has a row
                    val[at] = (hit is not None) if n['op'] == '!=' else (hit is None)
                if n['k'] == 'UnaryOperator' and n.get('op') == '*' and any(short((x.get('ref') or {}).get('n', '')) == 'second' for x in walk(n)) and \
                        any((x.get('ref') or {}).get('id') == d['id'] for x in walk(n)) and hit is not None:
                    subst.append((nm.s(n), nm.s(hit)))
        eff = effects_under(f, [body], val, keep=keep, loops='mark')
        for a_, b_ in subst:
            eff = [e.replace(a_, b_) for e in eff]
        eff = [e for e in eff if not re.match(r'\w+:=find_if', e)]
        out[w] = eff
    return f, out


def relevant(effects):
    """effects that touch the limits or the line's stream (a flag of the loop itself, `pending = false`, is not one)"""
    return [e for e in effects if not re.fullmatch(r'\(\w+=\d+\)', e)]


def fills(effects, field, index=None):
    """the effects are exactly one extraction from the line's stream into limits.<field>[index]"""
    tgt = re.escape(field) + (r'\[%d\]' % index if index is not None else '')
    effects = relevant(effects)
    return len(effects) == 1 and re.fullmatch(r'\(\w+>>\w+\.%s\)' % tgt, effects[0]) is not None


def searchmoves_loop(p):
    """the loop that stores the searchmoves words: (function, loop node, [words of a move the loop would stop at]). Its condition
    may test the stream and the word; a test of the word is evaluated (constant evaluation of its string handling) on spellings
    of moves the engine itself prints: a plain move, a promotion, a castling move in coordinate form."""
    from rules.streval import StrEval, Unknown as SU
    f = p.fn('engine::Uci::go_command')
    inner = [n for n in f.all_nodes() if n['k'] in ('WhileStmt', 'ForStmt', 'DoStmt') and
             any(a['k'] in ('WhileStmt', 'ForStmt') for a in f.ancestors(n)) and
             any((x.get('callee') or {}).get('n') == 'engine::Position::parse_uci' for x in walk(n))]
    if len(inner) != 1:
        raise AnalysisBroken('UCITAB: go_command stores searchmoves in %d loops' % len(inner))
    loop = inner[0]
    cond = kids(loop)[0] if loop['k'] == 'WhileStmt' else (loop.get('ch') or [None] * 3)[2]

    def leaves(c):
        c0 = strip_casts(c)
        while c0 is not None and c0['k'] in ('ParenExpr', 'ExprWithCleanups', 'CXXStaticCastExpr', 'CXXFunctionalCastExpr', 'ImplicitCastExpr',
                                              'CXXMemberCallExpr') and \
                (c0['k'] != 'CXXMemberCallExpr' or short((c0.get('callee') or {}).get('n', '')).startswith('operator bool')) and kids(c0):
            c0 = strip_casts(kids(c0)[-1] if c0['k'] != 'CXXMemberCallExpr' else kids(kids(c0)[0])[0])
        if c0['k'] == 'BinaryOperator' and c0.get('op') in ('&&', '||'):
            return leaves(kids(c0)[0]) + leaves(kids(c0)[1])
        if c0['k'] == 'BinaryOperator' and c0.get('op') == '=':
            return leaves(kids(c0)[1])
        return [c0]
    stops = []
    se = StrEval(p)
    for lf in leaves(cond):
        txt = [x for x in walk(lf)]
        if any(x.get('op') == '>>' for x in txt):
            continue                # the extraction itself: the loop ends with the line
        if not any(short((x.get('ref') or {}).get('n', '')) == 'token' for x in txt):
            raise AnalysisBroken('UCITAB: the searchmoves loop at %s also ends on a condition that is neither the stream nor the word' % f.loc(loop))
        for w in ('e2e4', 'a7a8q', 'h2h1n', 'e1g1'):
            try:
                v = se.ev(f, lf, {'token': w})
            except SU as e_:
                raise AnalysisBroken('UCITAB: the word test of the searchmoves loop at %s is not evaluable (%s)' % (f.loc(loop), e_))
            if not se.truth(v):
                stops.append(w)
    return f, loop, stops
