"""ARITH — abstract interpretation of closed arithmetic functions.

Domain (product): interval [lo,hi] over the reals  x  monotonicity in one
designated input T ('c' independent, 'i' non-decreasing, 'd' non-increasing,
'?' unknown)  x  linear upper bound  value <= coef*T  (coef None = unknown).
The interpreter walks the *structured* AST of a function (declarations,
assignments, counting `for` loops, if, return, calls to repo functions are
inlined, std::min/max/pow/exp/abs/floor have transfer functions). Any
construct outside that subset raises AnalysisBroken (exit 2), so new code
cannot pass unclassified. Integer operations additionally produce overflow
obligations: the real-valued interval of every int/long typed arithmetic node
must fit the type."""
import math

from facts import AnalysisBroken
from prog import kids, short
from rules.common import strip_casts, const_of

INF = float('inf')
INT_RANGE = {'int': (-2 ** 31, 2 ** 31 - 1), 'unsigned int': (0, 2 ** 32 - 1),
             'long': (-2 ** 63, 2 ** 63 - 1), 'long long': (-2 ** 63, 2 ** 63 - 1),
             'unsigned long': (0, 2 ** 64 - 1), 'short': (-2 ** 15, 2 ** 15 - 1),
             'unsigned char': (0, 255), 'char': (-128, 127), 'bool': (0, 1)}


class AV:
    __slots__ = ('lo', 'hi', 'mono', 'coef')

    def __init__(self, lo, hi, mono='c', coef=None):
        self.lo, self.hi, self.mono, self.coef = lo, hi, mono, coef

    def __repr__(self):
        return 'AV[%g,%g %s coef=%s]' % (self.lo, self.hi, self.mono, self.coef)

    def key(self):
        return (self.lo, self.hi, self.mono, self.coef)

    @property
    def nonneg(self):
        return self.lo >= 0

    @property
    def pos(self):
        return self.lo > 0


def const(v):
    return AV(v, v, 'c', None if v > 0 else 0.0)


def join(a, b):
    if a is None:
        return b
    if b is None:
        return a
    mono = a.mono if a.mono == b.mono else ('?' if 'c' not in (a.mono, b.mono) or True else '?')
    if a.mono != b.mono:
        # joining a T-independent value with a monotone one at a control-flow merge is only
        # monotone if the branch condition is T-independent; callers handle that: be conservative
        mono = _join_mono(a.mono, b.mono)
    coef = None
    if a.coef is not None and b.coef is not None:
        coef = max(a.coef, b.coef)
    return AV(min(a.lo, b.lo), max(a.hi, b.hi), mono, coef)


def _join_mono(x, y):
    if x == y:
        return x
    s = {x, y}
    if s == {'c', 'i'}:
        return 'i'
    if s == {'c', 'd'}:
        return 'd'
    return '?'


def widen(old, new):
    lo = old.lo if new.lo >= old.lo else -INF
    hi = old.hi if new.hi <= old.hi else INF
    coef = old.coef if (new.coef is not None and old.coef is not None and new.coef <= old.coef) else None
    return AV(lo, hi, _join_mono(old.mono, new.mono), coef)


def neg_mono(m):
    return {'c': 'c', 'i': 'd', 'd': 'i', '?': '?'}[m]


def add(a, b):
    coef = None
    if a.coef is not None and b.coef is not None:
        coef = a.coef + b.coef
    return AV(a.lo + b.lo, a.hi + b.hi, _sum_mono(a.mono, b.mono), coef)


def _sum_mono(x, y):
    if x == 'c':
        return y
    if y == 'c':
        return x
    return x if x == y else '?'


def sub(a, b):
    nb = AV(-b.hi, -b.lo, neg_mono(b.mono), None)
    r = add(a, nb)
    # a - b <= a when b >= 0
    r.coef = a.coef if (b.lo >= 0 and a.coef is not None) else None
    return r


def mul(a, b):
    c = [a.lo * b.lo if not (math.isinf(a.lo) and b.lo == 0) and not (a.lo == 0 and math.isinf(b.lo)) else 0,
         _m(a.lo, b.hi), _m(a.hi, b.lo), _m(a.hi, b.hi)]
    c[0] = _m(a.lo, b.lo)
    lo, hi = min(c), max(c)
    mono = '?'
    if a.mono == 'c' and b.mono == 'c':
        mono = 'c'
    elif a.mono == 'c' and a.lo >= 0:
        mono = b.mono
    elif b.mono == 'c' and b.lo >= 0:
        mono = a.mono
    elif a.mono == 'c' and a.hi <= 0:
        mono = neg_mono(b.mono)
    elif b.mono == 'c' and b.hi <= 0:
        mono = neg_mono(a.mono)
    elif a.mono == b.mono == 'i' and a.lo >= 0 and b.lo >= 0:
        mono = 'i'
    coef = None
    # (k) * x with 0 <= k <= K constant-in-T and x <= c*T, x >= 0  =>  <= K*c*T
    if a.mono == 'c' and a.lo >= 0 and b.coef is not None and b.lo >= 0 and not math.isinf(a.hi):
        coef = a.hi * b.coef
    elif b.mono == 'c' and b.lo >= 0 and a.coef is not None and a.lo >= 0 and not math.isinf(b.hi):
        coef = b.hi * a.coef
    return AV(lo, hi, mono, coef)


def _m(x, y):
    if x == 0 or y == 0:
        return 0.0
    return x * y


def div(a, b):
    if b.lo <= 0 <= b.hi:
        raise AnalysisBroken('ARITH: division by an interval containing zero %r' % b)
    inv = AV(min(1.0 / b.lo, 1.0 / b.hi), max(1.0 / b.lo, 1.0 / b.hi), neg_mono(b.mono), None)
    return mul(a, inv)


def vmin(a, b):
    coef = None
    cs = [c for c in (a.coef, b.coef) if c is not None]
    if cs:
        coef = min(cs)
    return AV(min(a.lo, b.lo), min(a.hi, b.hi), _minmax_mono(a.mono, b.mono), coef)


def vmax(a, b):
    coef = None
    if a.coef is not None and b.coef is not None:
        coef = max(a.coef, b.coef)
    return AV(max(a.lo, b.lo), max(a.hi, b.hi), _minmax_mono(a.mono, b.mono), coef)


def _minmax_mono(x, y):
    if x == y:
        return x
    s = {x, y}
    if s == {'c', 'i'}:
        return 'i'
    if s == {'c', 'd'}:
        return 'd'
    return '?'


def trunc(a):
    def t(x):
        if math.isinf(x):
            return x
        return float(math.trunc(x))
    coef = a.coef if a.lo >= 0 else None
    return AV(t(a.lo), t(a.hi), a.mono, coef)


class Interp:
    """evaluates one function with abstract arguments; records overflow obligations"""

    def __init__(self, prog, field_input, on_overflow, max_inline=6):
        self.p = prog
        self.field_input = field_input      # callback(node) -> AV or None for input reads
        self.on_overflow = on_overflow      # callback(fn, node, av, typ, ok)
        self.max_inline = max_inline
        self.seen_ops = 0

    def call(self, fn, args, depth=0):
        if depth > self.max_inline:
            raise AnalysisBroken('ARITH: inlining bound exceeded at ' + fn.name)
        env = {}
        for q, a in zip(fn.params, args):
            env[q['id']] = a
        ret = self.block(fn, fn.body, env, depth)
        if ret is None:
            raise AnalysisBroken('ARITH: %s has a path without return' % fn.name)
        return ret

    # statements: returns joined return value (or None) -------------------------------
    def block(self, fn, s, env, depth):
        k = s['k']
        if k == 'CompoundStmt':
            ret = None
            for c in kids(s):
                r = self.block(fn, c, env, depth)
                if r is not None:
                    ret = join(ret, r)
                    if c['k'] == 'ReturnStmt':
                        return ret
            return ret
        if k == 'DeclStmt':
            for d in kids(s):
                if d['k'] != 'VarDecl':
                    raise AnalysisBroken('ARITH: declaration kind %s' % d['k'])
                if kids(d):
                    env[d['id']] = self.conv(fn, self.expr(fn, kids(d)[0], env, depth), d.get('ct', d.get('t')), d)
                else:
                    env[d['id']] = None
            return None
        if k == 'ReturnStmt':
            return self.expr(fn, kids(s)[0], env, depth)
        if k == 'NullStmt':
            return None
        if k == 'ForStmt':
            return self.for_loop(fn, s, env, depth)
        if k == 'IfStmt':
            ch = s.get('ch') or []
            # IfStmt children: [cond, then, else?] (init/condvar absent in this code base)
            cond = ch[0]
            sel = self.select_stmt(fn, s)
            if sel is not None:
                # `if (x < y) y = x;` is y = min(y, x): selection by comparison of the two selected values
                f, tgt, x, y = sel
                v = f(self.expr(fn, x, env, depth), self.expr(fn, y, env, depth))
                env[tgt['ref']['id']] = self.conv(fn, v, tgt.get('ct', tgt.get('t')), s)
                return None
            cm = self.expr(fn, cond, env, depth).mono if cond else 'c'
            e1 = dict(env)
            r1 = self.block(fn, ch[1], e1, depth) if len(ch) > 1 and ch[1] else None
            e2 = dict(env)
            r2 = self.block(fn, ch[2], e2, depth) if len(ch) > 2 and ch[2] else None
            for v in set(e1) | set(e2):
                a, b = e1.get(v), e2.get(v)
                j = join(a, b) if (a is not None and b is not None) else None
                if j is not None and cm != 'c' and (a.key() != b.key()):
                    j = AV(j.lo, j.hi, '?', j.coef)
                env[v] = j
            r = join(r1, r2) if (r1 is not None or r2 is not None) else None
            if r is not None and cm != 'c':
                r = AV(r.lo, r.hi, '?', r.coef)
            return r
        if k in ('BinaryOperator', 'CompoundAssignOperator', 'UnaryOperator', 'CallExpr',
                 'CXXOperatorCallExpr', 'CXXMemberCallExpr'):
            self.expr(fn, s, env, depth)
            return None
        raise AnalysisBroken('ARITH: statement kind %s at %s outside the understood subset' % (k, fn.loc(s)))

    def for_loop(self, fn, s, env, depth):
        from rules.common import counting_for
        cf = counting_for(fn, s)
        init, _cv, cond, inc, body = s['ch']
        if cf is None or init is None or init['k'] != 'DeclStmt':
            raise AnalysisBroken('ARITH: loop at %s is not a counting for-loop' % fn.loc(s))
        vid, bound, op = cf
        self.block(fn, init, env, depth)
        start = env[vid]
        b = self.expr(fn, bound, env, depth)
        hi = b.hi - (1 if op == '<' else 0)
        if op == '!=':
            hi = b.hi - 1
        if hi < start.lo:
            return None   # loop never runs for any input
        iv = AV(start.lo, hi, _join_mono(start.mono, b.mono), None)
        trip_const = (start.mono == 'c' and b.mono == 'c')
        # fixpoint over the body with widening
        ret = None
        for it in range(40):
            e = dict(env)
            e[vid] = iv
            r = self.block(fn, body, e, depth)
            if r is not None:
                raise AnalysisBroken('ARITH: return inside loop at %s' % fn.loc(s))
            changed = False
            for v, val in e.items():
                if v == vid:
                    continue
                old = env.get(v)
                if val is None or old is None:
                    if v not in env:
                        continue   # loop-local
                    continue
                j = join(old, val)
                if j.key() != old.key():
                    changed = True
                    env[v] = widen(old, j) if it >= 3 else j
                    if not trip_const:
                        # number of iterations depends on T: nothing monotone can be claimed
                        env[v] = AV(env[v].lo, env[v].hi, '?', env[v].coef)
            if not changed:
                break
        else:
            raise AnalysisBroken('ARITH: loop at %s did not stabilise' % fn.loc(s))
        env[vid] = AV(start.lo, b.hi, iv.mono, None)
        return ret

    # conversions ---------------------------------------------------------------------------
    def conv(self, fn, av, typ, node):
        """value stored into / converted to C++ type `typ`"""
        if av is None:
            return None
        t = (typ or '').replace('const ', '')
        if t in INT_RANGE:
            a = trunc(av) if (av.lo != math.floor(av.lo) or av.hi != math.floor(av.hi) or True) else av
            lo, hi = INT_RANGE[t]
            ok = a.lo >= lo and a.hi <= hi
            self.on_overflow(fn, node, a, t, ok, 'conversion')
            return a
        return av

    # expressions --------------------------------------------------------------------------------
    def expr(self, fn, e, env, depth):
        k = e['k']
        inp = self.field_input(fn, e)
        if inp is not None:
            return inp
        if 'cvf' in e:
            return const(e['cvf'])
        if 'cv' in e and k in ('IntegerLiteral', 'CXXBoolLiteralExpr', 'CharacterLiteral'):
            return const(float(e['cv']))
        if k == 'DeclRefExpr':
            r = e['ref']
            if r['k'] in ('Local', 'Parm'):
                v = env.get(r['id'])
                if v is None:
                    raise AnalysisBroken('ARITH: read of undefined local %s at %s' % (r['n'], fn.loc(e)))
                return v
            if 'cv' in e:
                return const(float(e['cv']))
            if r['k'] == 'Global':
                v = self.p.vars.get(r['n'], {})
                if isinstance(v.get('val'), (int, float)) and (v.get('const') or v.get('constexpr')):
                    return const(float(v['val']))
            raise AnalysisBroken('ARITH: reference %s at %s' % (r['n'], fn.loc(e)))
        if k in ('ImplicitCastExpr', 'CStyleCastExpr', 'CXXFunctionalCastExpr', 'CXXStaticCastExpr'):
            inner = self.expr(fn, kids(e)[0], env, depth)
            ck = e.get('ck')
            if ck in ('IntegralToFloating', 'NoOp', 'LValueToRValue'):
                return inner
            if ck in ('FloatingToIntegral', 'IntegralCast', 'FloatingCast', 'ConstructorConversion'):
                if ck == 'FloatingCast':
                    return inner
                return self.conv(fn, inner, e.get('ct', e.get('t')), e)
            raise AnalysisBroken('ARITH: cast %s at %s' % (ck, fn.loc(e)))
        if k == 'ParenExpr':
            return self.expr(fn, kids(e)[0], env, depth)
        if k == 'ConditionalOperator':
            c, a, b = kids(e)
            f = self.select(fn, c, a, b)
            if f is not None:
                return f(self.expr(fn, a, env, depth), self.expr(fn, b, env, depth))
            cm = self.expr(fn, c, env, depth).mono
            j = join(self.expr(fn, a, env, depth), self.expr(fn, b, env, depth))
            if cm != 'c':
                j = AV(j.lo, j.hi, '?', j.coef)
            return j
        if k == 'UnaryOperator':
            op = e['op']
            x = kids(e)[0]
            if op == '-':
                v = self.expr(fn, x, env, depth)
                return self.arith(fn, e, AV(-v.hi, -v.lo, neg_mono(v.mono), None))
            if op == '+':
                return self.expr(fn, x, env, depth)
            if op in ('++', '--'):
                t = strip_casts(x)
                vid = t.get('ref', {}).get('id')
                if vid is None or env.get(vid) is None:
                    raise AnalysisBroken('ARITH: ++ on non-local at %s' % fn.loc(e))
                d = const(1.0)
                env[vid] = self.arith(fn, e, add(env[vid], d) if op == '++' else sub(env[vid], d))
                return env[vid]
            if op == '!':
                v = self.expr(fn, x, env, depth)
                return AV(0, 1, v.mono if v.mono == 'c' else '?', None)
            raise AnalysisBroken('ARITH: unary %s at %s' % (op, fn.loc(e)))
        if k in ('BinaryOperator', 'CompoundAssignOperator'):
            op = e['op']
            a, b = kids(e)
            if op == '=':
                t = strip_casts(a)
                vid = t.get('ref', {}).get('id')
                if vid is None:
                    raise AnalysisBroken('ARITH: assignment to non-local at %s' % fn.loc(e))
                v = self.conv(fn, self.expr(fn, b, env, depth), t.get('ct', t.get('t')), e)
                env[vid] = v
                return v
            if op in ('+=', '-=', '*=', '/='):
                t = strip_casts(a)
                vid = t.get('ref', {}).get('id')
                if vid is None or env.get(vid) is None:
                    raise AnalysisBroken('ARITH: compound assignment to non-local at %s' % fn.loc(e))
                rv = self.expr(fn, b, env, depth)
                f = {'+=': add, '-=': sub, '*=': mul, '/=': div}[op]
                v = self.conv(fn, f(env[vid], rv), t.get('ct', t.get('t')), e)
                env[vid] = v
                return v
            va = self.expr(fn, a, env, depth)
            vb = self.expr(fn, b, env, depth)
            if op in ('<', '>', '<=', '>=', '==', '!='):
                m = 'c' if va.mono == 'c' and vb.mono == 'c' else '?'
                return AV(0, 1, m, None)
            if op in ('&&', '||'):
                m = 'c' if va.mono == 'c' and vb.mono == 'c' else '?'
                return AV(0, 1, m, None)
            f = {'+': add, '-': sub, '*': mul, '/': div}.get(op)
            if f is None:
                raise AnalysisBroken('ARITH: operator %s at %s' % (op, fn.loc(e)))
            r = f(va, vb)
            t = (e.get('ct') or e.get('t') or '').replace('const ', '')
            if op == '/' and t in INT_RANGE:
                r = trunc(r)
            return self.arith(fn, e, r)
        if k in ('CallExpr', 'CXXMemberCallExpr', 'CXXOperatorCallExpr'):
            c = e.get('callee')
            if not c:
                raise AnalysisBroken('ARITH: indirect call at %s' % fn.loc(e))
            nm = c['n']
            args = kids(e)[1:]
            vals = [self.expr(fn, a, env, depth) for a in args]
            if nm == 'std::min':
                return vmin(vals[0], vals[1])
            if nm == 'std::max':
                return vmax(vals[0], vals[1])
            if nm in ('exp', 'std::exp'):
                x = vals[0]
                return AV(_exp(x.lo), _exp(x.hi), x.mono, None)
            if nm in ('pow', 'std::pow'):
                x, y = vals
                if x.lo <= 0 or y.lo != y.hi:
                    raise AnalysisBroken('ARITH: pow with non-positive base or non-constant exponent at %s' % fn.loc(e))
                c_ = y.lo
                cand = [_pow(x.lo, c_), _pow(x.hi, c_)]
                mono = x.mono if c_ >= 0 else neg_mono(x.mono)
                return AV(min(cand), max(cand), mono, None)
            if nm in ('abs', 'std::abs', 'fabs', 'std::fabs'):
                x = vals[0]
                lo = 0.0 if x.lo <= 0 <= x.hi else min(abs(x.lo), abs(x.hi))
                return AV(lo, max(abs(x.lo), abs(x.hi)), x.mono if x.lo >= 0 else '?', x.coef if x.lo >= 0 else None)
            if nm in ('floor', 'std::floor'):
                x = vals[0]
                return AV(math.floor(x.lo) if not math.isinf(x.lo) else x.lo,
                          math.floor(x.hi) if not math.isinf(x.hi) else x.hi, x.mono, x.coef if x.lo >= 0 else None)
            if c['fid'] in self.p.funcs and nm.startswith('engine::'):
                return self.call(self.p.funcs[c['fid']], vals, depth + 1)
            raise AnalysisBroken('ARITH: call to %s at %s has no transfer function' % (nm, fn.loc(e)))
        if k == 'CXXConstructExpr' and len(kids(e)) == 1:
            return self.expr(fn, kids(e)[0], env, depth)
        raise AnalysisBroken('ARITH: expression kind %s at %s outside the understood subset' % (k, fn.loc(e)))

    # selection by comparison -------------------------------------------------------------
    def select(self, fn, cond, t, f):
        """`cond ? t : f` where cond compares exactly t and f: vmin / vmax, else None"""
        from rules.effects import canon
        c = strip_casts(cond)
        while c['k'] in ('ParenExpr', 'ExprWithCleanups'):
            c = strip_casts(kids(c)[0])
        op = None
        if c['k'] == 'BinaryOperator' and c.get('op') in ('<', '>', '<=', '>='):
            op = c['op']
            a, b = kids(c)
        elif c['k'] == 'CXXOperatorCallExpr' and (c.get('callee') or {}).get('n', '').split('::')[-1] in (
                'operator<', 'operator>', 'operator<=', 'operator>='):
            op = c['callee']['n'].split('::')[-1][len('operator'):]
            a, b = kids(c)[1:]
        if op is None:
            return None
        ca, cb, ct, cf = (canon(fn, x, inline=False) for x in (a, b, t, f))
        if (ca, cb) == (cf, ct):
            op = {'<': '>', '>': '<', '<=': '>=', '>=': '<='}[op]
        elif (ca, cb) != (ct, cf):
            return None
        # now: (t op f) ? t : f
        return vmin if op in ('<', '<=') else vmax

    def select_stmt(self, fn, s):
        ch = s.get('ch') or []
        if len(ch) > 2 and ch[2]:
            return None
        body = ch[1]
        while body and body['k'] == 'CompoundStmt' and len(kids(body)) == 1:
            body = kids(body)[0]
        while body and body['k'] in ('ExprWithCleanups',):
            body = kids(body)[0]
        if not body or body['k'] != 'BinaryOperator' or body.get('op') != '=':
            return None
        tgt, val = kids(body)
        tgt = strip_casts(tgt)
        if tgt['k'] != 'DeclRefExpr' or tgt.get('ref', {}).get('k') not in ('Local', 'Parm'):
            return None
        f = self.select(fn, ch[0], val, tgt)
        if f is None:
            return None
        return f, tgt, val, tgt

    def arith(self, fn, e, r):
        t = (e.get('ct') or e.get('t') or '').replace('const ', '')
        if t in INT_RANGE:
            lo, hi = INT_RANGE[t]
            ok = r.lo >= lo and r.hi <= hi
            self.on_overflow(fn, e, r, t, ok, 'arithmetic')
        return r


def _exp(x):
    if x == -INF:
        return 0.0
    if x == INF or x > 700:
        return INF
    return math.exp(x)


def _pow(x, c):
    if math.isinf(x):
        return INF if c > 0 else 0.0
    try:
        return x ** c
    except OverflowError:
        return INF
