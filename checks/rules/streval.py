"""STREVAL — constant evaluation of small string-handling code on given strings.

The printer side of a text format emits a finite set of fixed spellings (castling: O-O, O-O-O with an optional + or #; piece and
promotion letters). Whether the parser maps each of them back to the right thing is decided by evaluating the parser's own
statements on those constants inside the checker (an interpreter for the handful of std::string operations involved: copy,
empty, size/length, back, pop_back, substr, at, comparison with literals and characters). Anything else — a call the
interpreter does not model, a loop — stops the evaluation (Unknown), never guesses. Values that depend on the position
(the generated move list) are opaque tokens; a membership test of a move in that list is answered by `legal` (the caller
states the hypothesis, e.g. "the printed move is legal in the position it was printed for")."""
from prog import kids, short
from rules.norm import Unknown

PEEL = ('ImplicitCastExpr', 'ExprWithCleanups', 'MaterializeTemporaryExpr', 'CXXBindTemporaryExpr', 'ParenExpr',
        'CXXFunctionalCastExpr', 'CXXStaticCastExpr', 'CStyleCastExpr', 'ConstantExpr', 'CXXRewrittenBinaryOperator')


class Opaque:
    def __init__(self, what):
        self.what = what

    def __repr__(self):
        return '<%s>' % self.what


class Returned(Exception):
    def __init__(self, value):
        self.value = value


class StrEval:
    def __init__(self, prog, legal=True, max_depth=4):
        self.p = prog
        self.legal = legal
        self.max_depth = max_depth

    # ---- expressions ---------------------------------------------------------------------------------------------------
    def ev(self, f, n, env, depth=0):
        while n is not None and n['k'] in PEEL and kids(n):
            n = kids(n)[-1]
        if n is None:
            raise Unknown('empty expression')
        k = n['k']
        if k == 'StringLiteral':
            return n.get('s', '')
        if k == 'CharacterLiteral':
            return chr(n['cv'])
        if 'cv' in n and k in ('IntegerLiteral', 'CXXBoolLiteralExpr'):
            return n['cv']
        r = n.get('ref')
        if r:
            if r['k'] in ('Local', 'Parm'):
                if r['n'] in env:
                    return env[r['n']]
                return Opaque(r['n'])
            if 'cv' in n:
                return n['cv']
            if r['n'].startswith('std::') and r['n'].endswith('::npos'):
                return -1                       # what str.find gives here for "not found"
            if r['k'] == 'Enum':
                for q, (en, val) in self.p.enumerators.items():
                    if q == r['n']:
                        return val
            v = self.p.vars.get(r['n'], {})
            if isinstance(v.get('val'), (int, str)):
                return v['val']
            return Opaque(short(r['n']))
        if k == 'CXXConstructExpr' or k == 'CXXTemporaryObjectExpr':
            ks = kids(n)
            if len(ks) == 1:
                return self.ev(f, ks[0], env, depth)
            if not ks:
                return ''
            raise Unknown('constructor with %d arguments' % len(ks))
        if k == 'UnaryOperator':
            v = self.ev(f, kids(n)[0], env, depth)
            if n['op'] == '!':
                return not self.truth(v)
            if n['op'] == '-' and isinstance(v, int):
                return -v
            if n['op'] == '*':
                return v
            raise Unknown('unary %s' % n['op'])
        if k == 'ConditionalOperator':
            c, a, b = kids(n)
            return self.ev(f, a if self.truth(self.ev(f, c, env, depth)) else b, env, depth)
        if k in ('BinaryOperator', 'CXXOperatorCallExpr') and n.get('op') != '()':
            ks = kids(n) if k == 'BinaryOperator' else kids(n)[1:]
            op = n.get('op')
            if op == '&&':
                return self.truth(self.ev(f, ks[0], env, depth)) and self.truth(self.ev(f, ks[1], env, depth))
            if op == '||':
                return self.truth(self.ev(f, ks[0], env, depth)) or self.truth(self.ev(f, ks[1], env, depth))
            if len(ks) != 2:
                raise Unknown('operator %s' % op)
            a, b = self.ev(f, ks[0], env, depth), self.ev(f, ks[1], env, depth)
            if op in ('==', '!='):
                if isinstance(a, Opaque) or isinstance(b, Opaque):
                    # find(begin, end, m) compared with end: is the move in the list?
                    for x, y in ((a, b), (b, a)):
                        if isinstance(x, Opaque) and x.what.startswith('find:') and isinstance(y, Opaque) and y.what == x.what.split(':')[2]:
                            found = self.legal
                            return (not found) if op == '==' else found
                    raise Unknown('comparison of %r and %r' % (a, b))
                if isinstance(a, int) and isinstance(b, str) and len(b) == 1:
                    b = ord(b)
                if isinstance(b, int) and isinstance(a, str) and len(a) == 1:
                    a = ord(a)
                return (a == b) == (op == '==')
            if isinstance(a, Opaque) or isinstance(b, Opaque):
                raise Unknown('arithmetic on %r, %r' % (a, b))
            if op == '[]' and isinstance(a, list) and isinstance(b, int):
                return a[b] if 0 <= b < len(a) else ''
            if op == '[]' and isinstance(a, str) and isinstance(b, int):
                if 0 <= b < len(a):
                    return a[b]
                if b == len(a):
                    return '\0'
                raise Unknown('subscript %d of a string of length %d' % (b, len(a)))
            if op in ('+', '-') and isinstance(a, str) and len(a) == 1 and isinstance(b, (int, str)):
                a = ord(a)
            if op in ('+', '-') and isinstance(b, str) and len(b) == 1 and isinstance(a, int):
                b = ord(b)
            try:
                return {'+': lambda: a + b, '-': lambda: a - b, '<': lambda: a < b, '>': lambda: a > b, '<=': lambda: a <= b,
                        '>=': lambda: a >= b}[op]()
            except (KeyError, TypeError):
                raise Unknown('operator %s on %r, %r' % (op, a, b))
        if k == 'CXXMemberCallExpr':
            cal = n.get('callee') or {}
            name = short(cal.get('n', ''))
            objn = kids(kids(n)[0])[0] if kids(kids(n)[0]) else None
            obj = self.ev(f, objn, env, depth) if objn is not None else None
            args = [self.ev(f, a, env, depth) for a in kids(n)[1:] if a['k'] != 'CXXDefaultArgExpr']
            if isinstance(obj, str) and cal.get('n', '').startswith('std::'):
                if name == 'empty':
                    return len(obj) == 0
                if name in ('size', 'length'):
                    return len(obj)
                if name == 'back' and obj:
                    return obj[-1]
                if name == 'front' and obj:
                    return obj[0]
                if name in ('at',) and args and isinstance(args[0], int) and 0 <= args[0] < len(obj):
                    return obj[args[0]]
                if name == 'substr' and all(isinstance(a, int) for a in args):
                    return obj[args[0]:] if len(args) == 1 else obj[args[0]:args[0] + args[1]]
                if name == 'str':
                    return obj
                if name == 'pop_back':
                    tgt = objn
                    while tgt is not None and tgt['k'] in PEEL and kids(tgt):
                        tgt = kids(tgt)[-1]
                    nm_ = (tgt.get('ref') or {}).get('n')
                    if nm_ is None or not obj:
                        raise Unknown('pop_back')
                    env[nm_] = obj[:-1]
                    return None
                if name == 'find' and args and isinstance(args[0], str):
                    return obj.find(args[0])
            raise Unknown('call %s on %r' % (cal.get('n'), obj))
        if k == 'CallExpr' or k == 'CXXOperatorCallExpr':
            cal = n.get('callee') or {}
            nm_ = cal.get('n', '')
            if nm_.startswith('std::find') and len(kids(n)) == 4:
                b, e, x = (self.ev(f, a, env, depth) for a in kids(n)[1:])
                if isinstance(b, Opaque) and isinstance(e, Opaque):
                    return Opaque('find:%s:%s:%r' % (b.what, e.what, x))
                raise Unknown('std::find over %r' % (b,))
            if n.get('op') == '()' and len(kids(n)) > 1:
                lam = self.ev(f, kids(n)[1], env, depth)
                if isinstance(lam, tuple) and lam and lam[0] == 'lambda' and depth < self.max_depth:
                    args = [self.ev(f, a, env, depth) for a in kids(n)[2:]]
                    return self.call(lam[1], args, depth + 1, outer=lam[2] if len(lam) > 2 else None)
            g = self.p.funcs.get(cal.get('fid'))
            if g is not None and g.body is not None and depth < self.max_depth:
                args = [self.ev(f, a, env, depth) for a in kids(n)[1:] if a['k'] != 'CXXDefaultArgExpr']
                return self.call(g, args, depth + 1)
            if n.get('op') == '()' or k == 'CXXOperatorCallExpr':
                # call of a lambda object
                lam = self.ev(f, kids(n)[1], env, depth) if len(kids(n)) > 1 else None
                if isinstance(lam, tuple) and lam and lam[0] == 'lambda':
                    args = [self.ev(f, a, env, depth) for a in kids(n)[2:]]
                    return self.call(lam[1], args, depth + 1, outer=lam[2] if len(lam) > 2 else None)
            raise Unknown('call of %s' % nm_)
        if k == 'LambdaExpr':
            g = self.p.funcs.get(n.get('lambda'))
            if g is None:
                raise Unknown('lambda')
            return ('lambda', g, env)           # captured variables are read from the environment it was written in
        raise Unknown('expression %s' % k)

    def truth(self, v):
        if isinstance(v, Opaque):
            raise Unknown('truth of %r' % v)
        return bool(v)

    # ---- statements ----------------------------------------------------------------------------------------------------------
    def call(self, g, args, depth=0, outer=None):
        env = dict(outer) if outer else {}
        for q, a in zip(g.params, args):
            env[q['name']] = a
        try:
            self.run(g, kids(g.body), env, depth)
        except Returned as r:
            return r.value
        return None

    def run(self, f, stmts, env, depth=0, stop=None):
        """executes statements; raises Returned at a return; returns False when `stop(st)` tells to stop before a statement"""
        for st in stmts:
            if st is None or st.get('mac') in ('assert', 'ASSERT'):
                continue
            if stop is not None and stop(st):
                return False
            k = st['k']
            if k == 'CompoundStmt':
                if self.run(f, kids(st), env, depth, stop) is False:
                    return False
            elif k == 'DeclStmt':
                for d in kids(st):
                    if d['k'] != 'VarDecl':
                        continue
                    if kids(d):
                        try:
                            env[d['name']] = self.ev(f, kids(d)[0], env, depth)
                        except Unknown:
                            env[d['name']] = Opaque(d['name'])
                    else:
                        env[d['name']] = Opaque(d['name'])
            elif k == 'IfStmt':
                ks = kids(st)
                c = self.truth(self.ev(f, ks[0], env, depth))
                br = ks[1] if c else (ks[2] if len(ks) > 2 else None)
                if br is not None and self.run(f, [br], env, depth, stop) is False:
                    return False
            elif k == 'ReturnStmt':
                raise Returned(self.ev(f, kids(st)[0], env, depth) if kids(st) else None)
            elif k == 'NullStmt':
                continue
            elif k == 'SwitchStmt':
                v = self.ev(f, kids(st)[0], env, depth)
                if isinstance(v, str) and len(v) == 1:
                    v = ord(v)
                if isinstance(v, Opaque) or not isinstance(v, int):
                    raise Unknown('switch on %r' % (v,))
                body = kids(st)[-1]
                flat = []
                for c_ in kids(body):
                    labels, cur = [], c_
                    while cur is not None and cur['k'] in ('CaseStmt', 'DefaultStmt'):
                        labels.append(cur.get('casev') if cur['k'] == 'CaseStmt' else 'default')
                        nxt = [x for x in kids(cur) if x['k'] not in ('ImplicitCastExpr', 'IntegerLiteral', 'ConstantExpr', 'DeclRefExpr', 'CharacterLiteral')]
                        cur = nxt[-1] if nxt else None
                    flat.append((labels or None, cur))
                all_l = [l for ls, _ in flat if ls for l in ls]
                target = v if v in all_l else ('default' if 'default' in all_l else None)
                on = False
                sel = []
                for ls, c_ in flat:
                    if ls and target in ls:
                        on = True
                    if on and c_ is not None:
                        if c_['k'] == 'BreakStmt':
                            break
                        sel.append(c_)
                if self.run(f, sel, env, depth, stop) is False:
                    return False
            elif k in ('ForStmt', 'WhileStmt', 'DoStmt', 'CXXForRangeStmt'):
                raise Unknown('statement %s' % k)
            else:
                # expression statement: assignment to a local, or a modelled member call (pop_back)
                e = st
                while e is not None and e['k'] in PEEL and kids(e):
                    e = kids(e)[-1]
                if e['k'] in ('BinaryOperator', 'CXXOperatorCallExpr') and e.get('op') == '=':
                    ks = kids(e) if e['k'] == 'BinaryOperator' else kids(e)[1:]
                    t = ks[0]
                    while t is not None and t['k'] in PEEL and kids(t):
                        t = kids(t)[-1]
                    nm_ = (t.get('ref') or {}).get('n')
                    if nm_ is None:
                        raise Unknown('assignment target')
                    env[nm_] = self.ev(f, ks[1], env, depth)
                else:
                    self.ev(f, e, env, depth)
        return True
