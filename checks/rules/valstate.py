"""Small path-sensitive value analysis for locals of one function.

Tracked locals and their abstract values:
  accumulators (Value locals initialised with a sentinel): 'S' sentinel / 'N' non-sentinel
  integers: 'Z' (==0) / 'POS' (>0) / 'NN' (>=0)     (absent = unknown)
  booleans: 'T' / 'F'                                   (absent = unknown)
A state is a frozenset of (local id, value). The analysis is run with the
disjunctive dataflow of rules.flow, so correlated branches on an unmodified
local are followed exactly (what the `!is_in_check` idiom needs)."""
from prog import walk, kids, short
from rules import flow
from rules.common import strip_casts, const_of, norm_cond, local_writes


class ValState:
    def __init__(self, fn, sentinels, acc_ids, assume_len_nonneg=True):
        self.fn = fn
        self.sent = set(sentinels)
        self.acc = set(acc_ids)
        self.decl_t = {}
        for n in fn.all_nodes():
            if n['k'] == 'VarDecl':
                self.decl_t[n['id']] = n.get('ct', n.get('t', ''))
        for q in fn.params:
            self.decl_t[q['id']] = q.get('ct', q.get('t', ''))
        self.assume_len_nonneg = assume_len_nonneg

    # -- helpers --------------------------------------------------------------
    @staticmethod
    def get(st, vid):
        for v, a in st:
            if v == vid:
                return a
        return None

    @staticmethod
    def put(st, vid, val):
        s = frozenset((v, a) for v, a in st if v != vid)
        if val is not None:
            s = s | {(vid, val)}
        return s

    def kind(self, vid):
        if vid in self.acc:
            return 'acc'
        t = self.decl_t.get(vid, '')
        if t in ('bool', 'const bool'):
            return 'bool'
        if t.replace('const ', '') in ('int', 'long', 'unsigned int', 'unsigned long', 'long long', 'short'):
            return 'int'
        if t.replace('const', '').strip().endswith('*'):
            return 'ptr'
        return None

    # pointers: only equalities between pointer locals are tracked, as ('rel', a, b) -> 'EQ' | 'NE'
    @staticmethod
    def _rk(a, b):
        return ('rel',) + tuple(sorted([a, b]))

    def _drop_rels(self, st, vid):
        return frozenset((v, a) for v, a in st if not (isinstance(v, tuple) and v[0] == 'rel' and vid in v[1:]))

    def _ptr_rel(self, st, a, b, seen=()):
        """'EQ' / 'NE' / None by the recorded relations and one step of transitivity through an equal pointer"""
        if a == b:
            return 'EQ'
        r = self.get(st, self._rk(a, b))
        if r:
            return r
        for v, val in st:
            if isinstance(v, tuple) and v[0] == 'rel' and val == 'EQ' and a in v[1:]:
                z = v[1] if v[2] == a else v[2]
                if z in seen or z == b:
                    continue
                r2 = self.get(st, self._rk(z, b))
                if r2:
                    return r2
        return None

    def local_id(self, n):
        n = strip_casts(n)
        r = n.get('ref') if n else None
        if r and r['k'] in ('Local', 'Parm') and 'id' in r:
            return r['id']
        return None

    # -- expression evaluation --------------------------------------------------
    def eval_acc(self, e, st):
        e = strip_casts(e)
        cv = const_of(e)
        if cv is not None:
            return 'S' if cv in self.sent else 'N'
        vid = self.local_id(e)
        if vid is not None and vid in self.acc:
            return self.get(st, vid) or 'S'
        if e['k'] == 'BinaryOperator' and e.get('op') == '=':
            return self.eval_acc(kids(e)[1], st)
        nm = e.get('callee', {}).get('n', '')
        if nm in ('std::max', 'std::min'):
            vals = [self.eval_acc(a, st) for a in kids(e)[1:]]
            return 'N' if 'N' in vals else 'S'
        if e['k'] == 'ConditionalOperator':
            vals = [self.eval_acc(a, st) for a in kids(e)[1:]]
            return 'N' if all(v == 'N' for v in vals) else 'S'
        return 'N'

    def eval_int(self, e, st):
        e = strip_casts(e)
        cv = const_of(e)
        if cv is not None:
            return 'Z' if cv == 0 else ('POS' if cv > 0 else None)
        vid = self.local_id(e)
        if vid is not None:
            return self.get(st, vid)
        if e['k'] == 'BinaryOperator' and e.get('op') == '-' and self.assume_len_nonneg:
            a, b = kids(e)
            if '*' in (strip_casts(a).get('t', '')) and '*' in (strip_casts(b).get('t', '')):
                return 'NN'     # A-LEN: end - begin of a generated list
        return None

    def eval_bool(self, e, st):
        e, neg = norm_cond(e)
        cv = const_of(e)
        v = None
        if cv is not None:
            v = 'T' if cv else 'F'
        else:
            vid = self.local_id(e)
            if vid is not None and self.kind(vid) == 'bool':
                v = self.get(st, vid)
        if v is None:
            return None
        if neg:
            v = 'F' if v == 'T' else 'T'
        return v

    def assign(self, st, vid, rhs):
        k = self.kind(vid)
        if k == 'acc':
            return self.put(st, vid, self.eval_acc(rhs, st))
        if k == 'int':
            return self.put(st, vid, self.eval_int(rhs, st))
        if k == 'bool':
            return self.put(st, vid, self.eval_bool(rhs, st))
        return st

    # -- dataflow callbacks ----------------------------------------------------------
    def transfer(self, fn, n, st):
        k = n['k']
        if k == 'DeclStmt':
            for d in kids(n):
                if d['k'] == 'VarDecl' and self.kind(d['id']) == 'ptr':
                    st = self._drop_rels(st, d['id'])
                    src = self.local_id(kids(d)[0]) if kids(d) else None
                    if src is not None and self.kind(src) == 'ptr':
                        st = self.put(st, self._rk(d['id'], src), 'EQ')
                    continue
                if d['k'] == 'VarDecl' and self.kind(d['id']):
                    if kids(d):
                        st = self.assign(st, d['id'], kids(d)[0])
                    else:
                        st = self.put(st, d['id'], None)
            return [st]
        if k == 'BinaryOperator' and n.get('op') == '=':
            vid = self.local_id(kids(n)[0])
            if vid is not None and self.kind(vid) == 'ptr':
                st = self._drop_rels(st, vid)
                src = self.local_id(kids(n)[1])
                if src is not None and self.kind(src) == 'ptr':
                    st = self.put(st, self._rk(vid, src), 'EQ')
                return [st]
            if vid is not None and self.kind(vid):
                return [self.assign(st, vid, kids(n)[1])]
        if k == 'CompoundAssignOperator':
            vid = self.local_id(kids(n)[0])
            if vid is not None and self.kind(vid) == 'int':
                return [self.put(st, vid, None)]
        if k in ('UnaryOperator', 'CompoundAssignOperator') and (n.get('op') in ('++', '--') or k == 'CompoundAssignOperator'):
            vid_ = self.local_id(kids(n)[0])
            if vid_ is not None and self.kind(vid_) == 'ptr':
                return [self._drop_rels(st, vid_)]
        if k == 'UnaryOperator' and n.get('op') in ('++', '--'):
            vid = self.local_id(kids(n)[0])
            if vid is not None and self.kind(vid) == 'int':
                cur = self.get(st, vid)
                if n['op'] == '++' and cur in ('Z', 'POS', 'NN'):
                    return [self.put(st, vid, 'POS')]
                return [self.put(st, vid, None)]
        return [st]

    def refine(self, fn, cond, truth, st):
        c = strip_casts(cond)
        vid = self.local_id(c)
        if vid is not None and self.kind(vid) == 'bool':
            cur = self.get(st, vid)
            want = 'T' if truth else 'F'
            if cur is not None and cur != want:
                return None
            return self.put(st, vid, want)
        if c['k'] == 'BinaryOperator' and c.get('op') in ('<', '>', '<=', '>=', '==', '!='):
            a, b = [strip_casts(x) for x in kids(c)]
            op = c['op']
            ia, ib = self.local_id(a), self.local_id(b)
            if op in ('==', '!=') and ia is not None and ib is not None and self.kind(ia) == 'ptr' and self.kind(ib) == 'ptr':
                want = 'EQ' if (op == '==') == truth else 'NE'
                cur = self._ptr_rel(st, ia, ib)
                if cur is not None and cur != want:
                    return None
                return self.put(st, self._rk(ia, ib), want)
            # accumulator compared with a sentinel constant
            for x, y, ix in ((a, b, ia), (b, a, ib)):
                if ix in self.acc and const_of(y) in self.sent and op in ('==', '!='):
                    is_s = truth if op == '==' else not truth
                    cur = self.get(st, ix) or 'S'
                    if is_s and cur == 'N':
                        return None
                    return self.put(st, ix, 'S' if is_s else 'N')
            # max-accumulation test:  e > acc  (or acc < e)
            acc_side = None
            if op in ('>', '>=') and ib in self.acc and ia not in self.acc:
                acc_side, strict = ib, op == '>'
            if op in ('<', '<=') and ia in self.acc and ib not in self.acc:
                acc_side, strict = ia, op == '<'
            if acc_side is not None and not truth:
                # e <= acc (resp. e < acc) with e non-sentinel  =>  acc is non-sentinel
                other = a if acc_side == ib else b
                if const_of(other) not in self.sent:
                    return self.put(st, acc_side, 'N')
            # integers vs 0
            for x, y, ix, flip in ((a, b, ia, False), (b, a, ib, True)):
                if ix is not None and self.kind(ix) == 'int' and const_of(y) == 0:
                    o = op
                    if flip:
                        o = {'<': '>', '>': '<', '<=': '>=', '>=': '<='}.get(o, o)
                    cur = self.get(st, ix)
                    rel = _rel_zero(o, truth)   # one of 'Z','NZ','POS','NONPOS','NN','NEG'
                    new = _meet(cur, rel)
                    if new == 'BOT':
                        return None
                    return self.put(st, ix, new)
            # i < n with known i
            if ia is not None and ib is not None and self.kind(ia) == 'int' and self.kind(ib) == 'int':
                va, vb = self.get(st, ia), self.get(st, ib)
                if op == '<' and not truth and va == 'Z':
                    # n <= 0
                    if vb == 'POS':
                        return None
                    if vb == 'NN':
                        return self.put(st, ib, 'Z')
                if op == '<' and truth and va in ('Z', 'POS', 'NN'):
                    return self.put(st, ib, 'POS')
        return st

    def run(self, entry=frozenset()):
        return flow.run(self.fn, [entry], self.transfer, self.refine)


def _rel_zero(op, truth):
    if not truth:
        op = {'==': '!=', '!=': '==', '<': '>=', '>=': '<', '>': '<=', '<=': '>'}[op]
    return {'==': 'Z', '!=': 'NZ', '>': 'POS', '>=': 'NN', '<': 'NEG', '<=': 'NONPOS'}[op]


def _meet(cur, rel):
    """cur in {None,'Z','POS','NN'}; rel relation to zero; returns new abstract value or 'BOT'"""
    table = {
        (None, 'Z'): 'Z', (None, 'POS'): 'POS', (None, 'NN'): 'NN',
        (None, 'NZ'): None, (None, 'NEG'): None, (None, 'NONPOS'): None,
        ('Z', 'Z'): 'Z', ('Z', 'NN'): 'Z', ('Z', 'NONPOS'): 'Z',
        ('Z', 'POS'): 'BOT', ('Z', 'NZ'): 'BOT', ('Z', 'NEG'): 'BOT',
        ('POS', 'POS'): 'POS', ('POS', 'NN'): 'POS', ('POS', 'NZ'): 'POS',
        ('POS', 'Z'): 'BOT', ('POS', 'NEG'): 'BOT', ('POS', 'NONPOS'): 'BOT',
        ('NN', 'Z'): 'Z', ('NN', 'POS'): 'POS', ('NN', 'NN'): 'NN', ('NN', 'NZ'): 'POS',
        ('NN', 'NONPOS'): 'Z', ('NN', 'NEG'): 'BOT',
    }
    return table.get((cur, rel), cur)
