"""EVALSEQ: the member state of an evaluator object is built before it is used, in every evaluation.

The evaluation entry (PositionScorer::score) is walked in execution order, through the member functions and helpers it calls;
every access to a data member of the object becomes an event (plain write / accumulate / read) on a *slot* (member plus the
constant indices it is subscripted with; a non-constant index stands for every slot of that dimension), marked conditional when
it sits under an if, a conditional expression or a loop that may run zero times. Two rules per slot:
  (a) the first event is an unconditional plain write — otherwise the value an earlier evaluation left there is read or
      accumulated into (the result then depends on history);
  (b) once the slot has been read, it is not written again in this evaluation — otherwise some reader saw it half-built, and
      since one colour is processed before the other, the two colours do not see the same thing (order dependence).
Caches (hash maps looked up by key) are excluded: they are the subject of the cache rules."""
from facts import AnalysisBroken
from prog import walk, kids, short, access_kind
from rules.common import strip_casts, const_of, range_for_consts


def member_events(p, root, record, skip_types=('HashMap',), max_depth=8):
    rec = p.record(record)
    members = {f['name']: f for f in rec['fields'] if not any(s in (f.get('t') or f.get('type') or '') for s in skip_types)}
    qual = {record + '::' + m for m in members}
    touching = set()
    for m in members:
        for f, n, k in p.field_accesses(record, m):
            touching.add(f.id)
    # functions from which a touching function is reachable
    reach_cache = {}

    def reaches(fid):
        if fid not in reach_cache:
            reach_cache[fid] = bool(p.reachable_from([fid]) & touching) if fid in p.funcs else False
        return reach_cache[fid]
    events = []
    stack = []
    bound = {}                 # loop variables of loops over constant lists / small constant ranges: id -> current value

    aliases = {}               # reference locals bound to (part of) a member: id -> (member, index prefix)

    def slot_of(f, n, base=None):
        """member node (or a reference local standing for part of a member) -> (member, indices); walks up the subscript chain"""
        idx = list(base[1]) if base else []
        cur = n
        par = f.parent(cur)
        while par is not None and (par['k'] in ('ImplicitCastExpr', 'ParenExpr') or
                                   (par['k'] == 'ArraySubscriptExpr' and strip_casts(kids(par)[0]) is strip_casts(cur))):
            if par['k'] == 'ArraySubscriptExpr':
                ie = strip_casts(kids(par)[1])
                c = const_of(ie)
                if c is None:
                    c = index_value(ie)
                idx.append(c if c is not None else '*')
            cur = par
            par = f.parent(cur)
        return ((base[0] if base else short(n['ref']['n'])), tuple(idx)), cur

    def index_value(e):
        """an index built from unrolled loop variables (c, !c, make_piece(c, k), k + 1, ...): its value now, else None"""
        e = strip_casts(e)
        if e is None:
            return None
        c = const_of(e)
        if c is not None:
            return c
        r = e.get('ref') or {}
        if r.get('k') in ('Local', 'Parm') and r.get('id') in bound and bound[r['id']][0] == r.get('n'):
            return bound[r['id']][1]
        k = e['k']
        if k in ('CXXFunctionalCastExpr', 'CStyleCastExpr', 'CXXStaticCastExpr', 'ParenExpr', 'ImplicitCastExpr') and kids(e):
            return index_value(kids(e)[-1])
        if k == 'BinaryOperator' and e.get('op') in ('+', '-', '*'):
            a, b = index_value(kids(e)[0]), index_value(kids(e)[1])
            if a is None or b is None:
                return None
            return a + b if e['op'] == '+' else a - b if e['op'] == '-' else a * b
        if k in ('CXXOperatorCallExpr', 'UnaryOperator') and e.get('op') == '!' and kids(e):
            a = index_value(kids(e)[-1])
            return None if a is None else (1 - a if a in (0, 1) else None)
        if k == 'CallExpr' and (e.get('callee') or {}).get('n') == 'engine::make_piece' and len(kids(e)) == 3:
            a, b = index_value(kids(e)[1]), index_value(kids(e)[2])
            if a in (0, 1) and b is not None:
                ke = {v: k_ for k_, v in p.enum('engine::PieceKind').items()}
                return p.enum('engine::Piece').get(('W_' if a == 0 else 'B_') + ke.get(b, '?'))
        return None

    def out_param_set(f, arg):
        """the member is bound to a reference parameter of a callee whose first statement on that parameter is an
        unconditional plain assignment not reading it: the call sets the member"""
        cur, par = arg, f.parent(arg)
        while par is not None and par['k'] in ('ImplicitCastExpr', 'ParenExpr'):
            cur, par = par, f.parent(par)
        if par is None or par['k'] not in ('CallExpr', 'CXXMemberCallExpr'):
            return False
        g = p.funcs.get((par.get('callee') or {}).get('fid'))
        if g is None or g.body is None:
            return False
        args = kids(par)[1:]
        pos = next((i for i, a in enumerate(args) if a is cur), None)
        if pos is None or pos >= len(g.params) or '&' not in (g.params[pos].get('t') or ''):
            return False
        pid = g.params[pos]['id']
        for st in kids(g.body):
            if st is None:
                continue
            uses = [x for x in walk(st) if (x.get('ref') or {}).get('k') == 'Parm' and x['ref'].get('id') == pid]
            if not uses:
                continue
            e = st
            while e is not None and e['k'] in ('ExprWithCleanups', 'ParenExpr') and kids(e):
                e = kids(e)[-1]
            if e['k'] in ('BinaryOperator', 'CXXOperatorCallExpr') and e.get('op') == '=' and len(uses) == 1:
                lhs = strip_casts(kids(e)[0] if e['k'] == 'BinaryOperator' else kids(e)[1])
                return lhs is uses[0]
            return False
        return False

    def expr_events(f, e, cond, depth):
        """events of one full expression: calls inlined at their position, reads before the write of an assignment"""
        reads, writes, calls = [], [], []
        for x in walk(e):
            r = x.get('ref') or {}
            is_member = r.get('k') == 'Field' and r.get('n') in qual and x['k'] == 'MemberExpr'
            is_alias = r.get('k') == 'Local' and (f.id, r.get('id')) in aliases and x['k'] == 'DeclRefExpr'
            if is_member or is_alias:
                slot, top = slot_of(f, x, aliases.get((f.id, r.get('id'))) if is_alias else None)
                k = access_kind(f, x)
                if k == 'read':
                    reads.append(('R', slot, cond, f.loc(x)))
                elif k == 'write':
                    writes.append(('W', slot, cond, f.loc(x)))
                elif k == 'rmw':
                    writes.append(('A' if not out_param_set(f, top) else 'W', slot, cond, f.loc(x)))
                elif k in ('addr', 'call'):
                    raise AnalysisBroken('EVALSEQ: the address of %s escapes at %s (a pointer or reference the walk does not follow)' % (slot[0], f.loc(x)))
            g = p.funcs.get((x.get('callee') or {}).get('fid')) if x.get('callee') else None
            if g is not None and g.body is not None and reaches(g.id):
                calls.append(g)
        events.extend(reads)
        for g in calls:
            if g.id in stack or depth >= max_depth:
                raise AnalysisBroken('EVALSEQ: call chain through %s too deep or recursive' % g.name)
            stack.append(g.id)
            mark = len(events)
            stmt_events(g, g.body, cond, depth + 1)
            stack.pop()
            # what the callee does after a return it takes only sometimes is, for its caller, done only sometimes
            seen_ret = False
            for i in range(mark, len(events)):
                if events[i][0] == 'X' and events[i][2] and events[i][1] == ('return', depth + 1):
                    seen_ret = True
                elif seen_ret and events[i][0] != 'X':
                    events[i] = (events[i][0], events[i][1], True, events[i][3])
        events.extend(writes)

    def stmt_events(f, st, cond, depth):
        if st is None:
            return
        k = st['k']
        if k == 'CompoundStmt':
            for c in kids(st):
                stmt_events(f, c, cond, depth)
        elif k == 'IfStmt':
            ks = kids(st)
            cv = const_of(strip_casts(ks[0]))
            expr_events(f, ks[0], cond, depth)
            if cv is not None:
                sel = ks[1] if cv else (ks[2] if len(ks) > 2 else None)
                stmt_events(f, sel, cond, depth)
            else:
                for b in ks[1:]:
                    stmt_events(f, b, True, depth)
        elif k == 'CXXForRangeStmt' and range_for_consts(st) is not None:
            var, vals, body = range_for_consts(st)
            for v in vals:
                bound[var['id']] = (var.get('name'), v)
                stmt_events(f, body, cond, depth)
            bound.pop(var['id'], None)
        elif k == 'ForStmt' and small_range(f, st) is not None:
            vid, name, lo, hi, body = small_range(f, st)
            for v in range(lo, hi):
                bound[vid] = (name, v)
                stmt_events(f, body, cond, depth)
            bound.pop(vid, None)
        elif k in ('ForStmt', 'WhileStmt', 'CXXForRangeStmt', 'DoStmt'):
            ch = st.get('ch') or []
            body = ch[-1] if ch else None
            for c in ch[:-1]:
                if c is not None:
                    (stmt_events if c['k'] in ('DeclStmt',) else expr_events)(f, c, cond, depth)
            stmt_events(f, body, True if k != 'DoStmt' else cond, depth)
        elif k == 'SwitchStmt':
            expr_events(f, kids(st)[0], cond, depth)
            stmt_events(f, kids(st)[-1], True, depth)
        elif k in ('CaseStmt', 'DefaultStmt'):
            for c in kids(st):
                stmt_events(f, c, True, depth) if c['k'] not in ('ConstantExpr', 'IntegerLiteral', 'ImplicitCastExpr', 'DeclRefExpr') else None
        elif k == 'DeclStmt':
            for d in kids(st):
                if d['k'] == 'VarDecl' and kids(d):
                    t = (d.get('t') or '')
                    init = strip_casts(kids(d)[0])
                    if '&' in t and '&&' not in t and init is not None:
                        # a reference to (part of) a member: later accesses through it are accesses to the member
                        base = init
                        while base is not None and base['k'] in ('ArraySubscriptExpr', 'ImplicitCastExpr', 'ParenExpr') and kids(base):
                            base = kids(base)[0]
                        br = (base.get('ref') or {}) if base is not None else {}
                        if base is not None and base['k'] == 'MemberExpr' and br.get('k') == 'Field' and br.get('n') in qual:
                            slot, _top = slot_of(f, base)
                            # index expressions of the binding are evaluated now (reads of other members inside them count)
                            for sub in walk(init):
                                if sub['k'] == 'ArraySubscriptExpr':
                                    expr_events(f, kids(sub)[1], cond, depth)
                            aliases[(f.id, d['id'])] = slot
                            continue
                    expr_events(f, kids(d)[0], cond, depth)
        elif k == 'ReturnStmt':
            if kids(st):
                expr_events(f, kids(st)[0], cond, depth)
            events.append(('X', ('return', depth), cond, f.loc(st)))
        elif k in ('NullStmt', 'BreakStmt', 'ContinueStmt'):
            pass
        else:
            # conditional expressions inside: their arms are conditional
            expr_events(f, st, cond, depth)
    def small_range(f, st):
        """for (T i = C0; i < C1; ++i) with constants and at most 16 turns, i not written in the body"""
        from rules.common import counting_for, for_init_const
        cf = counting_for(f, st)
        if not cf:
            return None
        lo = for_init_const(st)
        hi = const_of(strip_casts(cf[1]))
        if lo is None or hi is None:
            return None
        if cf[2] == '<=':
            hi += 1
        elif cf[2] not in ('<', '!='):
            return None
        if not (0 <= hi - lo <= 16):
            return None
        body = (st.get('ch') or [None])[-1]
        if body is None or any(x['k'] in ('BreakStmt', 'ContinueStmt', 'ReturnStmt') for x in walk(body)):
            return None
        decl = [x for x in walk(st['ch'][0]) if x['k'] == 'VarDecl'] if st['ch'][0] is not None else []
        name = decl[0].get('name') if len(decl) == 1 else None
        return cf[0], name, lo, hi, body

    stack.append(root.id)
    stmt_events(root, root.body, False, 0)
    return members, events


def overlaps(a, b):
    if a[0] != b[0]:
        return False
    ia, ib = a[1], b[1]
    for x, y in zip(ia, ib):
        if x != '*' and y != '*' and x != y:
            return False
    return True


def check_slots(events):
    """-> list of (rule 'a'|'b', slot, site, explanation)"""
    bad = []
    slots = []
    for ev in events:
        if ev[0] != 'X' and ev[1] is not None and ev[1] not in slots:
            slots.append(ev[1])
    # an early return before anything is touched ends the evaluation: events after an unconditional return do not exist; a
    # conditional return just ends some evaluations early (nothing to check)
    for s in slots:
        if '*' in s[1]:
            continue            # judged through its concrete slots where there are any
        first = None
        read_at = None
        read_star = False
        for kind, sl, cond, site in events:
            if kind == 'X' or sl is None or not overlaps(sl, s):
                continue
            if first is None:
                first = (kind, cond, site, sl)
                used = any(k2 in ('R', 'A') and overlaps(s2, s) for k2, s2, c2, t2 in events)
                if used and '*' in sl[1]:
                    raise AnalysisBroken('EVALSEQ: %s is first touched at %s through an index the rule cannot resolve to a constant' % (s[0], site))
                if used and not (kind == 'W' and not cond and '*' not in sl[1]):
                    bad.append(('a', s, site, 'the first thing an evaluation does with %s%s is %s' % (
                        s[0], ''.join('[%s]' % i for i in s[1]),
                        {'R': 'read it', 'A': 'accumulate into it', 'W': 'set it only on some paths' if cond else 'set it through a run-time index'}[kind])))
            if kind == 'R' and read_at is None:
                read_at = site
                read_star = '*' in sl[1]
            elif kind in ('W', 'A') and read_at is not None:
                if '*' in sl[1] or read_star:
                    raise AnalysisBroken('EVALSEQ: %s is written at %s after a read, one of them through an index the rule cannot resolve '
                                         'to a constant' % (s[0], site))
                bad.append(('b', s, site, '%s%s is changed at %s after it was read at %s in the same evaluation' % (
                    s[0], ''.join('[%s]' % i for i in s[1]), site, read_at)))
                break
    # wildcard-only members (never addressed by constants)
    for s in slots:
        if '*' in s[1] and not any(o != s and o[0] == s[0] and '*' not in o[1] for o in slots):
            evs = [e for e in events if e[0] != 'X' and e[1][0] == s[0]]
            if evs and not (evs[0][0] == 'W' and not evs[0][2]):
                # e.g. a table filled per square in a loop and read later: the fill is conditional per element
                pass
    return bad
