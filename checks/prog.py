"""Program model over cppfacts output: functions with statement trees and
CFGs, dominators on an edge-split graph (so branch *edges* can dominate),
call graph, globals with compiler-evaluated values, enums, records."""
import os
from collections import defaultdict, deque

from facts import AnalysisBroken, extract, repo_root

ASSIGN_OPS = {'=', '+=', '-=', '*=', '/=', '%=', '&=', '|=', '^=', '<<=', '>>='}


def walk(n):
    """pre-order over a statement tree (dict nodes, None tolerated)"""
    st = [n]
    while st:
        x = st.pop()
        if not x:
            continue
        yield x
        ch = x.get('ch')
        if ch:
            st.extend(reversed(ch))


def kids(n):
    return [c for c in (n.get('ch') or []) if c]


def ref_name(n):
    r = n.get('ref')
    return r['n'] if r else None


def callee_name(n):
    c = n.get('callee')
    return c['n'] if c else None


def short(name):
    return name.split('::')[-1] if name else name


class Func:
    def __init__(self, d, prog):
        self.d = d
        self.prog = prog
        self.id = d['id']
        self.name = d['name']
        self.targs = d.get('targs', '')
        self.ctargs = d.get('ctargs', '')
        self.file = d['file']
        self.line = d['line']
        self.endline = d['endline']
        self.cls = d.get('cls')
        self.body = d.get('body')
        self.params = d.get('params', [])
        self._nodes = None
        self._parent = None
        self._cfg = None

    def __repr__(self):
        return '<Func %s>' % self.id

    @property
    def rel(self):
        return os.path.relpath(self.file, self.prog.root)

    def loc(self, n=None):
        if n is None:
            return '%s:%d' % (self.rel, self.line)
        return '%s:%d' % (self.rel, n.get('l', self.line))

    # -- trees ------------------------------------------------------------
    def _index(self):
        self._nodes = {}
        self._parent = {}
        roots = [self.body] + [i.get('init') for i in self.d.get('inits', [])]
        for r in roots:
            if not r:
                continue
            st = [(r, None)]
            while st:
                n, p = st.pop()
                if not n:
                    continue
                self._nodes[n['i']] = n
                self._parent[n['i']] = p
                for c in n.get('ch') or []:
                    st.append((c, n))

    @property
    def nodes(self):
        if self._nodes is None:
            self._index()
        return self._nodes

    def parent(self, n):
        if self._parent is None:
            self._index()
        return self._parent.get(n['i'])

    def ancestors(self, n):
        p = self.parent(n)
        while p is not None:
            yield p
            p = self.parent(p)

    def all_nodes(self):
        for r in [self.body] + [i.get('init') for i in self.d.get('inits', [])]:
            if r:
                yield from walk(r)

    def calls(self):
        """(node, callee fid, callee qualified name) for every call/construct"""
        for n in self.all_nodes():
            c = n.get('callee')
            if c:
                yield n, c['fid'], c['n']

    def inside(self, n, anc):
        """is node n inside subtree rooted at anc"""
        if n is anc:
            return True
        for a in self.ancestors(n):
            if a is anc:
                return True
        return False

    # -- cfg --------------------------------------------------------------
    @property
    def cfg(self):
        if self._cfg is None:
            if not self.d.get('cfg'):
                raise AnalysisBroken('no CFG for ' + self.id)
            self._cfg = CFG(self)
        return self._cfg


class CFG:
    """Edge-split CFG: vertices are ('b', id) blocks and ('e', src, k) edges."""

    def __init__(self, fn):
        self.fn = fn
        c = fn.d['cfg']
        self.entry = c['entry']
        self.exit = c['exit']
        self.blocks = {b['id']: b for b in c['blocks']}
        self.succ = {}
        self.pred = defaultdict(list)
        for b in c['blocks']:
            ss = []
            for k, s in enumerate(b['succ']):
                if s is not None:
                    ss.append((k, s))
                    self.pred[s].append((b['id'], k))
            self.succ[b['id']] = ss
        # element positions
        self.pos = {}
        for b in c['blocks']:
            for idx, nid in enumerate(b['el']):
                self.pos.setdefault(nid, (b['id'], idx))
        self._dom = None
        self._pdom = None
        self._reach = None

    # map any node to a CFG position (its own, else nearest descendant/ancestor)
    def position(self, n):
        nid = n['i']
        if nid in self.pos:
            return self.pos[nid]
        # terminators (IfStmt etc.) are not elements: use the condition's position
        for b in self.blocks.values():
            if b.get('term') == nid:
                return (b['id'], len(b['el']))
        # a statement like CompoundStmt/DeclStmt: first positioned descendant
        from prog import walk as _w
        for d in _w(n):
            if d['i'] in self.pos:
                return self.pos[d['i']]
        for a in self.fn.ancestors(n):
            if a['i'] in self.pos:
                return self.pos[a['i']]
        return None

    # -- graph on split vertices
    def _vertices(self):
        vs = [('b', b) for b in self.blocks]
        for b, ss in self.succ.items():
            for k, s in ss:
                vs.append(('e', b, k))
        return vs

    def _vsucc(self, v):
        if v[0] == 'b':
            return [('e', v[1], k) for k, s in self.succ[v[1]]]
        return [('b', dict(self.succ[v[1]])[v[2]])]

    def _vpred(self, v):
        if v[0] == 'b':
            return [('e', p, k) for p, k in self.pred[v[1]]]
        return [('b', v[1])]

    def _domtree(self, root, succf, predf):
        # iterative dominators (Cooper-Harvey-Kennedy) on split graph
        order = []
        seen = {root}
        st = [(root, iter(succf(root)))]
        while st:
            v, it = st[-1]
            adv = False
            for w in it:
                if w not in seen:
                    seen.add(w)
                    st.append((w, iter(succf(w))))
                    adv = True
                    break
            if not adv:
                order.append(v)
                st.pop()
        rpo = list(reversed(order))
        num = {v: i for i, v in enumerate(rpo)}
        idom = {root: root}
        changed = True
        while changed:
            changed = False
            for v in rpo[1:]:
                ps = [p for p in predf(v) if p in idom]
                if not ps:
                    continue
                new = ps[0]
                for p in ps[1:]:
                    a, b = p, new
                    while a != b:
                        while num[a] > num[b]:
                            a = idom[a]
                        while num[b] > num[a]:
                            b = idom[b]
                    new = a
                if idom.get(v) != new:
                    idom[v] = new
                    changed = True
        return idom

    @property
    def idom(self):
        if self._dom is None:
            self._dom = self._domtree(('b', self.entry), self._vsucc, self._vpred)
        return self._dom

    @property
    def ipdom(self):
        if self._pdom is None:
            self._pdom = self._domtree(('b', self.exit), self._vpred, self._vsucc)
        return self._pdom

    def dominators(self, v):
        """all vertices dominating v (including v), nearest first"""
        out = []
        idom = self.idom
        if v not in idom:
            return out
        while True:
            out.append(v)
            if idom[v] == v:
                break
            v = idom[v]
        return out

    def block_dominates(self, a, b):
        return ('b', a) in self.dominators(('b', b))

    def node_dominates(self, na, nb):
        """does evaluation of node na dominate evaluation of node nb"""
        pa, pb = self.position(na), self.position(nb)
        if pa is None or pb is None:
            return False
        if pa[0] == pb[0]:
            return pa[1] <= pb[1]
        return self.block_dominates(pa[0], pb[0])

    def node_postdominates(self, na, nb):
        """every path from nb to exit passes na"""
        pa, pb = self.position(na), self.position(nb)
        if pa is None or pb is None:
            return False
        if pa[0] == pb[0]:
            return pa[1] >= pb[1]
        v = ('b', pb[0])
        ip = self.ipdom
        if v not in ip:
            return False
        while True:
            if v == ('b', pa[0]):
                return True
            if ip[v] == v:
                return False
            v = ip[v]

    def branch_cond(self, b):
        """the expression whose value decides a two-way branch at the end of block b:
        the last evaluated element (clang's CFGBlock::getLastCondition), so for
        `if (a && b)` the block that evaluates b is decided by b, not by `a && b`"""
        blk = self.blocks[b]
        if len(blk['succ']) != 2 or blk.get('termk') in ('SwitchStmt', None):
            return None
        if blk.get('termk') in ('CXXTryStmt', 'GotoStmt', 'IndirectGotoStmt'):
            return None
        if blk['el']:
            n = self.fn.nodes.get(blk['el'][-1])
            if n is not None and n['k'] not in ('DeclStmt',):
                return n
        if blk.get('cond', -1) is not None and blk.get('cond', -1) >= 0:
            return self.fn.nodes.get(blk['cond'])
        return None

    def guards(self, n):
        """branch edges dominating node n: list of (cond node, branch index k,
        terminator kind, block id); k=0 is the true/first edge"""
        p = self.position(n)
        if p is None:
            return []
        out = []
        for v in self.dominators(('b', p[0])):
            if v[0] == 'e':
                b = self.blocks[v[1]]
                bc = self.branch_cond(v[1])
                if bc is not None:
                    out.append((bc, v[2], b.get('termk'), v[1]))
        return out

    def reachable_blocks(self):
        if self._reach is None:
            seen = {self.entry}
            dq = deque([self.entry])
            while dq:
                b = dq.popleft()
                for k, s in self.succ[b]:
                    if s not in seen:
                        seen.add(s)
                        dq.append(s)
            self._reach = seen
        return self._reach

    def is_reachable(self, n):
        p = self.position(n)
        return p is not None and p[0] in self.reachable_blocks()

    # -- path queries -------------------------------------------------------
    def path_avoiding(self, start_pos, stop_ids, target='exit', kill_ids=()):
        """Search a path from the element *after* start_pos to `target`
        (exit block, or a set of node ids) that meets no element in stop_ids.
        Returns the list of block ids of such a path, or None."""
        sb, si = start_pos
        stop_ids = set(stop_ids)
        tgt_ids = set() if target == 'exit' else set(target)

        def scan(b, frm):
            els = self.blocks[b]['el']
            for idx in range(frm, len(els)):
                e = els[idx]
                if e in stop_ids:
                    return 'stop'
                if e in tgt_ids:
                    return 'hit'
            return 'through'

        r = scan(sb, si + 1)
        if r == 'stop':
            return None
        if r == 'hit':
            return [sb]
        seen = set()
        dq = deque([(sb, [sb])])
        first = True
        while dq:
            b, path = dq.popleft()
            if b == self.exit and target == 'exit' and not first:
                return path
            first = False
            for k, s in self.succ[b]:
                if s in seen:
                    continue
                seen.add(s)
                if s == self.exit:
                    if target == 'exit':
                        return path + [s]
                    continue
                r = scan(s, 0)
                if r == 'stop':
                    continue
                if r == 'hit':
                    return path + [s]
                dq.append((s, path + [s]))
        return None

    def back_edges(self):
        """(src, dst) edges whose dst dominates src"""
        out = []
        for b, ss in self.succ.items():
            if b not in self.reachable_blocks():
                continue
            for k, s in ss:
                if self.block_dominates(s, b):
                    out.append((b, s))
        return out

    def natural_loop(self, src, dst):
        body = {dst, src}
        st = [src]
        while st:
            x = st.pop()
            if x == dst:
                continue
            for p, k in self.pred[x]:
                if p not in body:
                    body.add(p)
                    st.append(p)
        return body


class Program:
    def __init__(self, tus, meta):
        self.meta = meta
        self.root = meta['root']
        self.funcs = {}
        self.by_name = defaultdict(list)
        self.vars = {}
        self.enums = {}
        self.records = {}
        self.templates = set()
        for tu in tus:
            for f in tu['funcs']:
                if f['id'] not in self.funcs:
                    fn = Func(f, self)
                    self.funcs[f['id']] = fn
                    self.by_name[f['name']].append(fn)
            for t in tu.get('templates', []):
                self.templates.add(t)
            for v in tu['vars']:
                old = self.vars.get(v['name'])
                if old is None or (v.get('def') and not old.get('def')) or \
                        ('val' in v and 'val' not in old):
                    self.vars[v['name']] = v
            for e in tu['enums']:
                self.enums[e['name']] = e
            for r in tu['records']:
                self.records[r['name']] = r
        self.enumerators = {}
        for e in self.enums.values():
            pre = e['name'].rsplit('::', 1)[0] if '::' in e['name'] else ''
            for nm, val in e['enumerators']:
                q = (e['name'] + '::' + nm) if e.get('scoped') else ((pre + '::' + nm) if pre else nm)
                self.enumerators[q] = (e['name'], val)
        self._callers = None
        # lambdas know the function they are written in (captured variables resolve there)
        for fn in list(self.funcs.values()):
            for n in fn.all_nodes():
                g = self.funcs.get(n.get('lambda')) if n.get('lambda') else None
                if g is not None and g is not fn:
                    g.enclosing = fn
        self._apply_frozen_names()

    # -- names ---------------------------------------------------------------
    def _apply_frozen_names(self):
        """Rename parameters (by position) and locals (by the shape of their initialiser) to the names they had on the
        reference tree (checks/names.json), so that rules written in terms of those names are indifferent to renames;
        locals that did not exist on the reference tree are marked transparent (canonical strings show their definition)."""
        import json
        import re
        path = os.path.join(os.path.dirname(os.path.abspath(__file__)), 'names.json')
        self.renamed = []
        self.frozen_fids = None
        if os.environ.get('VERIF_NO_NAMES') or not os.path.exists(path):
            return
        table = json.load(open(path))
        self.frozen_fids = set(table)
        from rules.effects import canon, _SD
        for fn in self.funcs.values():
            key = re.sub(r'@\d+:\d+', '@', fn.id)
            ent = table.get(key)
            fn.frozen_locals = None
            if ent is None or fn.body is None:
                continue
            # parameters by position
            if len(ent['params']) == len(fn.params):
                for prm, want in zip(fn.params, ent['params']):
                    if prm.get('name') and want and prm['name'] != want:
                        self._rename(fn, 'Parm', prm['id'], prm['name'], want)
                        prm['name'] = want
            # locals by name first, then by (type, initialiser shape) in declaration order
            decls = [n for n in fn.all_nodes() if n['k'] == 'VarDecl' and n.get('name')]
            decls.sort(key=lambda n: n.get('id', 0))
            frozen = [tuple(x) for x in ent['locals']]
            unused = list(frozen)
            for d in decls:
                hit = next((x for x in unused if x[0] == d['name']), None)
                if hit is not None:
                    unused.remove(hit)
            fnames = {x[0] for x in frozen}
            for d in decls:
                if d['name'] in fnames:
                    continue
                ks = [c for c in d.get('ch') or [] if c]
                if not ks:
                    continue
                init = canon(fn, ks[0], inline=False)
                t = (d.get('t') or '')
                hit = next((x for x in unused if x[1] == t and x[2] is not None and x[2] == init), None)
                if hit is not None:
                    unused.remove(hit)
                    self._rename(fn, 'Local', d['id'], d['name'], hit[0])
                    d['name'] = hit[0]
            fn.frozen_locals = fnames
        _SD.clear()

    def is_new_function(self, fn):
        """a function the reference tree did not have (e.g. an extracted helper)"""
        import re
        if self.frozen_fids is None:
            return False
        return re.sub(r'@\d+:\d+', '@', fn.id) not in self.frozen_fids

    def _rename(self, fn, kind, vid, old, new):
        for n in fn.all_nodes():
            r = n.get('ref')
            if r and r.get('k') == kind and r.get('id') == vid:
                r['n'] = new
        # captured uses inside the lambdas written in fn (their local ids are their own: resolve by name)
        for n in fn.all_nodes():
            g = self.funcs.get(n.get('lambda')) if n.get('lambda') else None
            if g is None or g is fn or getattr(g, 'enclosing', None) is not fn:
                continue
            own = {x.get('name') for x in g.all_nodes() if x['k'] == 'VarDecl'} | {q.get('name') for q in g.params}
            if old in own:
                continue
            for x in g.all_nodes():
                r = x.get('ref')
                if r and r.get('k') in ('Local', 'Parm') and r.get('n') == old:
                    r['n'] = new
        self.renamed.append((fn.id, kind, old, new))

    # -- lookup -------------------------------------------------------------
    def fn(self, name, targs=None, ctargs=None, nparams=None):
        """unique function by qualified name (+template args); AnalysisBroken if absent"""
        c = self.by_name.get(name, [])
        if targs is not None:
            c = [f for f in c if f.targs == targs]
        if ctargs is not None:
            c = [f for f in c if f.ctargs == ctargs]
        if nparams is not None:
            c = [f for f in c if len(f.params) == nparams]
        if len(c) != 1:
            raise AnalysisBroken('anchor function %s%s: %d definitions found'
                                 % (name, '<%s>' % targs if targs else '', len(c)))
        return c[0]

    def fns(self, name):
        return list(self.by_name.get(name, []))

    def var(self, name):
        v = self.vars.get(name)
        if v is None:
            raise AnalysisBroken('anchor variable %s not found' % name)
        return v

    def val(self, name):
        v = self.var(name)
        if 'val' not in v:
            raise AnalysisBroken('variable %s has no compile-time value' % name)
        return v['val']

    def enum(self, name):
        e = self.enums.get(name)
        if e is None:
            raise AnalysisBroken('anchor enum %s not found' % name)
        return dict((k, v) for k, v in e['enumerators'])

    def record(self, name):
        r = self.records.get(name)
        if r is None:
            raise AnalysisBroken('anchor record %s not found' % name)
        return r

    def field(self, rec, name):
        for f in self.record(rec)['fields']:
            if f['name'] == name:
                return f
        raise AnalysisBroken('anchor field %s::%s not found' % (rec, name))

    def repo_funcs(self, under=None):
        for f in self.funcs.values():
            if under is None or f.rel.startswith(under):
                yield f

    # -- call graph -----------------------------------------------------------
    def callees(self, fn):
        out = set()
        for n, fid, nm in fn.calls():
            if fid in self.funcs:
                out.add(fid)
            else:
                # virtual dispatch / out-of-repo: resolve overriders by name
                c = n.get('callee', {})
                if c.get('virt'):
                    for g in self.funcs.values():
                        if fid in g.d.get('overrides', []):
                            out.add(g.id)
        # lambdas defined in fn are considered called by it; so is every function whose address fn takes (dispatch tables)
        for n in fn.all_nodes():
            if n.get('lambda') and n['lambda'] in self.funcs:
                out.add(n['lambda'])
            r = n.get('ref')
            if r and r.get('k') in ('Method', 'Func') and r.get('fid') in self.funcs and n['k'] == 'DeclRefExpr':
                par = fn.parent(n)
                if par is not None and par['k'] == 'UnaryOperator' and par.get('op') == '&':
                    out.add(r['fid'])
        return out

    def reachable_from(self, roots, stop=()):
        seen = set()
        st = [r if isinstance(r, str) else r.id for r in roots]
        while st:
            f = st.pop()
            if f in seen or f not in self.funcs or f in stop:
                continue
            seen.add(f)
            st.extend(self.callees(self.funcs[f]))
        return seen

    def mods(self, fid):
        """qualified names of the fields/globals that function fid may write, directly or through the functions it calls
        (write, read-modify-write, address taken, non-const std member call); None when a callee's body is unknown"""
        cache = self.__dict__.setdefault('_mods', {})
        if fid in cache:
            return cache[fid]
        out = set()
        for g in self.reachable_from([fid]):
            f = self.funcs[g]
            if f.body is None and not f.d.get('inits'):
                continue
            for n in f.all_nodes():
                r = n.get('ref')
                if r and r['k'] in ('Field', 'Global', 'StaticMember') and access_kind(f, n) in ('write', 'rmw', 'addr', 'call'):
                    out.add(r['n'])
        cache[fid] = out
        return out

    def callers_of(self, name):
        """[(Func, call node)] calling any function with this qualified name"""
        out = []
        for f in self.funcs.values():
            for n, fid, nm in f.calls():
                if nm == name:
                    out.append((f, n))
        return out

    # -- accesses ---------------------------------------------------------------
    def field_accesses(self, owner, field):
        """yield (Func, node, kind) for each access to owner::field.
        kind in {'read','write','rmw','addr','ctorinit'}"""
        q = owner + '::' + field
        for f in self.funcs.values():
            for i in f.d.get('inits', []):
                if i.get('field') == field and f.cls == owner:
                    yield f, i.get('init') or {'i': -1, 'l': f.line}, 'ctorinit'
            for n in f.all_nodes():
                r = n.get('ref')
                if not r or r['k'] != 'Field' or r['n'] != q:
                    continue
                yield f, n, access_kind(f, n)

    def global_accesses(self, name):
        for f in self.funcs.values():
            for n in f.all_nodes():
                r = n.get('ref')
                if r and r['k'] in ('Global', 'StaticMember') and r['n'] == name:
                    yield f, n, access_kind(f, n)


def access_kind(f, n):
    """classify how the lvalue at node n is used by walking up through
    subscripts / member selections to the consuming operator"""
    cur = n
    while True:
        p = f.parent(cur)
        if p is None:
            return 'read'
        k = p['k']
        if k in ('ArraySubscriptExpr',) and kids(p) and kids(p)[0] is cur:
            cur = p
            continue
        if k == 'MemberExpr':
            cur = p
            continue
        if k == 'ImplicitCastExpr' and p.get('ck') == 'ArrayToPointerDecay':
            cur = p
            continue
        if k == 'ImplicitCastExpr' and p.get('ck') in ('UncheckedDerivedToBase', 'DerivedToBase', 'NoOp'):
            # the object seen as its base class (obj.base_method()) / a qualification change: same object
            cur = p
            continue
        if cur.get('k') == 'ImplicitCastExpr' and cur.get('ck') == 'ArrayToPointerDecay':
            # the array's address is kept in a pointer through which it can be written
            t = None
            if k == 'VarDecl':
                t = p.get('t') or ''
            elif k == 'BinaryOperator' and p.get('op') == '=' and len(kids(p)) == 2 and kids(p)[1] is cur:
                t = kids(p)[0].get('t') or ''
            if t is not None and '*' in t and not t.split('*')[0].strip().startswith('const ') and \
                    not t.split('*')[0].strip().endswith(' const'):
                return 'addr'
        if k == 'CXXOperatorCallExpr' and p.get('op') == '[]':
            ks = kids(p)
            # children: [callee ref, object, index]
            if len(ks) >= 2 and ks[1] is cur:
                cur = p
                continue
        if k == 'CXXMemberCallExpr' and any(a is cur for a in kids(p)[1:]):
            # an argument of a member call: written iff bound to a non-const reference parameter
            cal = p.get('callee', {})
            args = kids(p)[1:]
            ai = [a is cur for a in args].index(True)
            if cal.get('n', '').startswith('std::') and short(cal.get('n', '')) in ('emplace_back', 'emplace', 'push_back', 'insert', 'try_emplace'):
                return 'read'     # forwarding references of the standard containers: the argument is copied/moved from, not changed
            ptypes = _param_types(cal.get('fid', ''))
            if ai < len(ptypes) and ptypes[ai].endswith('&') and not ptypes[ai].endswith('&&') and not ptypes[ai].startswith('const '):
                return 'rmw'
            return 'read'
        if k == 'CXXMemberCallExpr':
            # obj.method(): child 0 is MemberExpr(method) whose child is the object
            cal = p.get('callee', {})
            nm = cal.get('n', '')
            if short(nm) in ('data', 'begin', 'end', 'at', 'front', 'back') and not nm.startswith('engine::'):
                cur = p
                continue
            if cal.get('const'):
                return 'read'
            if nm.startswith('std::'):
                return 'rmw'  # non-const std member: treat as mutation
            return 'call'
        if k == 'VarDecl' and (p.get('t') or '').endswith('&') and not (p.get('t') or '').endswith('&&') and \
                not (p.get('t') or '').startswith('const ') and 'const &' not in (p.get('t') or ''):
            if (p.get('name') or '').startswith('__range'):
                # the container of a range-for: written through only if the loop variable is a non-const reference
                loop = next((a for a in f.ancestors(p) if a['k'] == 'CXXForRangeStmt'), None)
                lv = [x for x in walk(loop) if x['k'] == 'VarDecl' and not (x.get('name') or '').startswith('__')] if loop else []
                t = (lv[0].get('t') or '') if lv else '&'
                if not t.endswith('&') or t.startswith('const ') or 'const &' in t:
                    return 'read'
            return 'addr'        # bound to a non-const reference: may be written through it
        if k == 'BinaryOperator' and p.get('op') in ASSIGN_OPS and kids(p)[0] is cur:
            return 'write' if p['op'] == '=' else 'rmw'
        if k == 'CompoundAssignOperator' and kids(p)[0] is cur:
            return 'rmw'
        if k == 'UnaryOperator' and p.get('op') in ('++', '--'):
            return 'rmw'
        if k == 'UnaryOperator' and p.get('op') == '&':
            return 'addr'
        if k == 'CXXOperatorCallExpr' and p.get('op') in ASSIGN_OPS | {'++', '--'}:
            ks = kids(p)
            if len(ks) >= 2 and ks[1] is cur:
                return 'write' if p['op'] == '=' else 'rmw'
        if k in ('CallExpr', 'CXXOperatorCallExpr', 'CXXConstructExpr'):
            # passed by non-const reference?
            cal = p.get('callee', {})
            fid = cal.get('fid', '')
            args = kids(p)
            if k != 'CXXConstructExpr':
                args = args[1:]
            try:
                ai = [a is cur for a in args].index(True)
            except ValueError:
                return 'read'
            ptypes = _param_types(fid)
            if cal.get('n', '').split('<')[0] in ('std::make_pair', 'std::forward', 'std::make_tuple', 'std::min', 'std::max',
                                                  'std::find', 'std::begin', 'std::end', 'std::size'):
                return 'read'     # take (forwarding) references but do not modify their arguments
            if k == 'CXXOperatorCallExpr' and len(ptypes) == len(args) - 1:
                # member operator: the first operand is the object itself
                if ai == 0:
                    return 'read' if cal.get('const') else 'rmw'
                ai -= 1
            if ai < len(ptypes) and ptypes[ai].endswith('&') and not ptypes[ai].endswith('&&') and not ptypes[ai].startswith('const '):
                return 'rmw'
            return 'read'
        return 'read'


def _param_types(fid):
    # fid = name<targs>(t1,t2,...)[const]; split the last balanced (...) group
    depth = 0
    end = fid.rfind(')')
    if end < 0:
        return []
    i = end
    while i >= 0:
        if fid[i] == ')':
            depth += 1
        elif fid[i] == '(':
            depth -= 1
            if depth == 0:
                break
        i -= 1
    inner = fid[i + 1:end]
    out, cur, d = [], '', 0
    for ch in inner:
        if ch in '<(':
            d += 1
        elif ch in '>)':
            d -= 1
        if ch == ',' and d == 0:
            out.append(cur.strip())
            cur = ''
        else:
            cur += ch
    if cur.strip():
        out.append(cur.strip())
    return out


_PROGS = {}


def load(config='release', loglevel=0, with_tools=False, root=None):
    key = (config, loglevel, with_tools, root or repo_root())
    if key not in _PROGS:
        tus, meta = extract(root=root, config=config, loglevel=loglevel, with_tools=with_tools)
        _PROGS[key] = Program(tus, meta)
    return _PROGS[key]
