"""C16 — FEN reader, FEN writer and position equality, field by field (R4).

Both functions are straight-line code around two small loops. For every combination of the conditions they branch on, the
sequence of effects (assignments, stream reads/writes, calls) is computed in normal form (rules/cases.effects_under) and compared
with what the format prescribes; the loop bodies are decided per character class / per cell state. A dropped or altered
effect is a violation; effects in another order or of an unknown kind stop the analysis."""
import re

from facts import AnalysisBroken
from prog import walk, kids, short
from rules.cases import effects_under
from rules.norm import Norm

POS = 'engine::Position'


def _same_words(a, b):
    w = lambda s: sorted(re.findall(r'[A-Za-z_]\w*', s))
    return w(a) == w(b)


def _emitted(effects):
    """the text a sequence of effects writes to its one sink (a stream fed with <<, or a string grown with += / append /
    push_back), as a string in which run-time values appear as {expression}; None when something else happens as well"""
    out = []
    sink = None

    def item(x):
        x = x.strip()
        m = re.fullmatch(r'"(.*)"', x)
        if m:
            return m.group(1)
        if re.fullmatch(r'\d+', x) and 32 <= int(x) < 127:
            return chr(int(x))
        m = re.fullmatch(r'to_string\((.*)\)', x)
        if m:
            x = m.group(1)
        while x.startswith('(') and x.endswith(')') and _balanced(x[1:-1]):
            x = x[1:-1]
        return '{%s}' % x

    def chain(e):
        """((S<<a)<<b) -> (S, [a, b])"""
        items = []
        while True:
            if not (e.startswith('(') and e.endswith(')')):
                return e, items
            body = e[1:-1]
            depth = 0
            cut = None
            for i in range(len(body) - 1, 0, -1):
                c = body[i]
                if c == ')':
                    depth += 1
                elif c == '(':
                    depth -= 1
                elif depth == 0 and body[i - 1:i + 1] == '<<':
                    cut = i - 1
                    break
            if cut is None:
                return e, items
            items.insert(0, body[cut + 2:])
            e = body[:cut]
    for e in effects:
        if e == 'loop' or e.startswith('loop@'):
            out.append('<loop>')
            continue
        m = re.fullmatch(r'return (\w+)(\.str\(\))?', e)
        if m:
            if sink is not None and m.group(1) != sink:
                return None
            continue
        m = re.fullmatch(r'\((\w+)\+=(.*)\)', e) or re.fullmatch(r'(\w+)\.(?:append|push_back)\((.*)\)', e)
        if m:
            name, items = m.group(1), [m.group(2)]
        else:
            name, items = chain(e)
            if not items or not re.fullmatch(r'\w+', name):
                return None
        if sink is None:
            sink = name
        if name != sink:
            return None
        out.extend(item(x) for x in items)
    return ''.join(out)


def _balanced(x):
    d = 0
    for c in x:
        d += c == '('
        d -= c == ')'
        if d < 0:
            return False
    return d == 0


def _seq(ctx, rule, key, got, want, site, what, optional=()):
    """ordered comparison; `optional` items may be absent from got. Returns nothing; raises AnalysisBroken for unknown extras."""
    g = [x for x in got if x not in optional]
    w = [x for x in want if x not in optional]
    if g == w:
        ctx.ob(rule, key, True, what, site=site)
        return
    if sorted(g) == sorted(w):
        raise AnalysisBroken('%s %s: the same effects in another order (%s)' % (rule, key, g))
    missing = [x for x in w if x not in g or w.count(x) > g.count(x)]
    extra = [x for x in g if x not in w or g.count(x) > w.count(x)]
    if not missing and any(('stream<<' in x) or x.startswith('(str+=') or x == 'CXXThrowExpr' for x in extra):
        ctx.ob(rule, key, False, what + ' — additional output: %s' % [x[:100] for x in extra[:3]], site=site)
        return
    if not missing:
        # everything prescribed is done, and something else too: nothing here can tell whether that is harmless
        raise AnalysisBroken('%s %s: unexpected additional effect `%s`' % (rule, key, extra[0][:160] if extra else g))
    ctx.ob(rule, key, False, what + ' — missing or altered: %s%s' % ([m[:100] for m in missing[:3]],
                                                                      '; found instead: %s' % [e[:100] for e in extra[:3]] if extra else ''), site=site)


def check(ctx, p):
    pe = p.enum('engine::Piece')
    sq = p.enum('engine::Square')
    ctors = [f for f in p.fns(POS + '::Position') if len(f.params) == 1 and f.params[0].get('name') == 'fen']
    if len(ctors) != 1:
        raise AnalysisBroken('C16: Position(std::string fen) not found')
    ct = ctors[0]
    fen = p.fn(POS + '::fen')
    eq = p.fn(POS + '::operator==')
    for f in (ct, fen, eq):
        ctx.analysed(f)

    # ---- reader: straight-line part ----------------------------------------------------------------------------------------
    RD = '(stream>>%s)'
    for w in (True, False):
        for e in (True, False):
            got = effects_under(ct, kids(ct.body), {('eq', '"w"', 'token'): w, ('eq', '"-"', 'token'): e,
                                                    ('in', '_current_side', frozenset({1})): not w, ('in', '_current_side', frozenset({0})): w},
                                loops='mark', keep=('token', 'square', 'stream'))
            if got and re.fullmatch(r'\(_current_side=\d\)', got[0]):
                got = got[1:]                 # a default before the side field is read is overwritten by it
            side = 0 if w else 1
            want = ['fill_n(_board,64,0)', 'fill_n(_piece_count,13,0)', 'fill_n(_by_piece_kind_bb,7,0)', 'fill_n(_by_color_bb,2,0)',
                    '(_castling_rights=0)', 'set_enpassant_square(64)',
                    RD % 'token', 'loop', RD % 'token', '(_current_side=%d)' % side, RD % 'token', 'loop', RD % 'token',
                    'set_enpassant_square(%s)' % ('64' if e else 'notationToSquare(token)'),
                    RD % '_ply_counter', '(_half_move_counter=_ply_counter)', RD % '_ply_counter',
                    '(_ply_counter=%s)' % ('((2*_ply_counter)-1)' if w else '(2*_ply_counter)'),
                    '_zobrist_hash.init(*(this))', '_history.push_back(_zobrist_hash.get_key())']
            _seq(ctx, 'C16.R4.reader', 'side=%s,ep=%s' % ('w' if w else 'b', '-' if e else 'square'), got, want, ct.loc(),
                 'the reader clears the position, reads board, side, castling, e.p. square, half-move clock and move number in '
                 'this order, derives the ply counter from move number and side, then keys the position and starts its history')
    # ---- reader: the board token, per character class ------------------------------------------------------------------------
    loops = [n for n in ct.all_nodes() if n['k'] == 'CXXForRangeStmt']
    ctx.floor('C16.R4.reader-loops', len(loops), 2, 'token loops of the reader', exact=True)
    body = kids(loops[0])[-1]
    sqd = [n for n in ct.all_nodes() if n['k'] == 'VarDecl' and n.get('name') == 'square' and kids(n)]
    ctx.ob('C16.R4.board-start', 'square', len(sqd) == 1 and Norm(ct).s(kids(sqd[0])[0]) == str(sq['SQ_A8']),
           'the board field is read from a8', site=ct.loc(sqd[0]) if sqd else ct.loc())
    K = ('c', 'square', 'piece')
    want_piece = ['(_board[square]=piece)', '(_by_color_bb[get_color(piece)]|=square_bb(square))',
                  '(_by_piece_kind_bb[get_piece_kind(piece)]|=square_bb(square))',
                  '(_piece_position[piece][++(_piece_count[piece]) post]=square)', '++(square)']
    for ch in '/12345678PNBRQKpnbrqk':
        got = effects_under(ct, [body], {'c': ord(ch)}, keep=K)
        got = [g.replace('++(square) post', '++(square)') for g in got]
        # the post-increment inside the subscript
        got = [re.sub(r'\[\+\+\(_piece_count\[piece\]\)\]', '[++(_piece_count[piece]) post]' if _post_inc(ct) else '[++(_piece_count[piece]) pre]', g) for g in got]
        if ch == '/':
            want = ['(square-=16)']
        elif ch.isdigit():
            want = ['(square+=%d)' % int(ch)]
        else:
            want = want_piece
        _seq(ctx, 'C16.R4.board-token', repr(ch), got, want, ct.loc(body),
             'in the board field `/` goes down one rank (back sixteen squares), a digit skips that many squares, a letter puts the '
             'piece on the board, both bitboards and the end of its piece list and steps one square')
    # the letter table and its inverse in the writer
    pd = [n for n in ct.all_nodes() if n['k'] == 'VarDecl' and n.get('name') == 'piece' and kids(n)]
    okp = len(pd) == 1 and Norm(ct, keep=('char_to_piece', 'c')).s(kids(pd[0])[0]) == 'char_to_piece[c]'
    pairs = {}
    for n in ct.all_nodes():
        if n['k'] == 'VarDecl' and n.get('name') == 'char_to_piece':
            for il in walk(n):
                if il['k'] == 'InitListExpr' or il['k'] == 'CXXConstructExpr':
                    ks = [x for x in kids(il)]
                    if len(ks) == 2:
                        a, b = [Norm(ct).cval(x) for x in ks]
                        if isinstance(a, int) and isinstance(b, int) and 32 < a < 127:
                            pairs[chr(a)] = b
    want_pairs = {l: pe[nm_] for l, nm_ in zip('PNBRQKpnbrqk', ('W_PAWN', 'W_KNIGHT', 'W_BISHOP', 'W_ROOK', 'W_QUEEN', 'W_KING',
                                                                 'B_PAWN', 'B_KNIGHT', 'B_BISHOP', 'B_ROOK', 'B_QUEEN', 'B_KING'))}
    if not pairs and len(pd) == 1:
        # no map: the piece is computed from the letter by string handling on constants (a letter string and find, a switch,
        # a helper): evaluated for each of the twelve letters
        from rules.streval import StrEval, Unknown as _SU
        se = StrEval(p)
        consts = {}
        for n in ct.all_nodes():
            if n['k'] == 'VarDecl' and kids(n) and 'string' in (n.get('t') or '') and 'const' in (n.get('t') or ''):
                lit = [x for x in walk(n) if x['k'] == 'StringLiteral']
                if len(lit) == 1:
                    consts[n['name']] = lit[0].get('s', '')
        blk = ct.parent(ct.parent(pd[0]))
        before = []
        for st in (kids(blk) if blk is not None and blk['k'] == 'CompoundStmt' else []):
            if any(x is pd[0] for x in walk(st)):
                break
            if st['k'] == 'DeclStmt':
                before.append(st)
        try:
            for l in 'PNBRQKpnbrqk':
                env = dict(consts)
                env['c'] = l
                se.run(ct, before, env)
                v = se.ev(ct, kids(pd[0])[0], env)
                if not isinstance(v, int):
                    raise _SU('value %r for letter %s' % (v, l))
                pairs[l] = v
            okp = True
        except _SU as e_:
            raise AnalysisBroken('C16: how the reader turns a letter into a piece was not understood (%s)' % e_)
    if not pairs:
        raise AnalysisBroken('C16: the letter table of the reader was not found')
    ctx.ob('C16.R4.letters-read', 'char_to_piece', okp and pairs == want_pairs,
           'the twelve piece letters map to their pieces (%s)' % sorted(pairs.items()), site=ct.loc())
    wtab = None
    for n in fen.all_nodes():
        if n['k'] == 'VarDecl' and n.get('name') == 'piece_to_char':
            for x in walk(n):
                if x['k'] == 'StringLiteral':
                    wtab = x.get('s')
    ctx.ob('C16.R4.letters-written', 'piece_to_char', wtab is not None and len(wtab) == 13 and all(wtab[v] == l for l, v in want_pairs.items()),
           'the writer\'s table gives every piece the letter the reader maps back to it (%r)' % wtab, site=fen.loc())

    # ---- writer: straight-line part -------------------------------------------------------------------------------------------
    S = 'stream'
    cas = p.enum('engine::Castling')
    for side in (0, 1):
        for rights in range(16):
            for ep in (sq['NO_SQUARE'], 20, 47):
                got = effects_under(fen, kids(fen.body), {'_current_side': side, '_castling_rights': rights, '_enpassant_square': ep},
                                    loops='mark', keep=('stream',))
                letters = [l for l, b in (('K', cas['W_OO']), ('Q', cas['W_OOO']), ('k', cas['B_OO']), ('q', cas['B_OOO'])) if rights & b]
                want = ['loop', '(((%s<<" ")<<"%s")<<" ")' % (S, 'wb'[side])]
                want += ['(%s<<"%s")' % (S, l) for l in letters] if letters else ['(%s<<"-")' % S]
                want += ['(%s<<" ")' % S]
                want += ['(%s<<"-")' % S] if ep == sq['NO_SQUARE'] else ['(%s<<%d)' % (S, 97 + ep % 8), '(%s<<%d)' % (S, 49 + ep // 8)]
                want += ['((((%s<<" ")<<_half_move_counter)<<" ")<<(((_ply_counter-1)/2)+1))' % S, 'return %s.str()' % S]
                eg, ew = _emitted(got), _emitted(want)
                if eg is not None and ew is not None and got != want:
                    # the same characters may be handed to the sink in other portions, or to a string instead of a stream
                    ctx.ob('C16.R4.writer', 'side=%d,rights=%d,ep=%d' % (side, rights, ep), eg == ew,
                           'the writer prints board, side letter, the castling letters of the rights held in the order KQkq (or -), the '
                           'e.p. square as file letter and rank digit (or -), the half-move clock and the move number (plies-1)/2+1'
                           + ('' if eg == ew else ' — prints %r, the format prescribes %r' % (eg, ew)), site=fen.loc())
                    continue
                _seq(ctx, 'C16.R4.writer', 'side=%d,rights=%d,ep=%d' % (side, rights, ep), got, want, fen.loc(),
                     'the writer prints board, side letter, the castling letters of the rights held in the order KQkq (or -), the e.p. '
                     'square as file letter and rank digit (or -), the half-move clock and the move number (plies-1)/2+1')
    # ---- writer: the board loops ---------------------------------------------------------------------------------------------------
    fl = [n for n in fen.all_nodes() if n['k'] == 'ForStmt']
    ctx.floor('C16.R4.writer-loops', len(fl), 2, 'loops of the writer', exact=True)
    nk = Norm(fen, inline=False)
    rk = p.enum('engine::Rank')
    fi = p.enum('engine::File')

    from rules.common import strip_casts, const_of

    ho, hi = _header(fen, fl[0]), _header(fen, fl[1])
    ctx.ob('C16.R4.writer-ranks', 'outer loop', ho[1:] == (rk['RANK_8'], rk['RANK_1'], -1),
           'ranks are written from the eighth down to the first, inclusive (first, last, step = %s)' % (ho[1:],), site=fen.loc(fl[0]))
    ctx.ob('C16.R4.writer-files', 'inner loop', hi[1:] == (fi['FILE_A'], fi['FILE_H'], 1),
           'files are written from a to h, inclusive (first, last, step = %s)' % (hi[1:],), site=fen.loc(fl[1]))
    inner = kids(fl[1])[-1]
    cell = [n for n in fen.all_nodes() if n['k'] == 'VarDecl' and n.get('name') == 'piece' and kids(n)]
    ctx.ob('C16.R4.writer-cell', 'piece', len(cell) == 1 and nk.s(kids(cell[0])[0]) in ('piece_at(make_square(%s,%s))' % (ho[0], hi[0]),
                                                                                       '_board[make_square(%s,%s)]' % (ho[0], hi[0])),
           'the cell written is the one on the loop\'s rank and file', site=fen.loc(cell[0]) if cell else fen.loc())
    KW = ('counter', 'piece', 'stream', ho[0], hi[0])
    TAB = 'basic_string(" PNBRQKpnbrqk",CXXDefaultArgExpr)[piece]'
    for pc in (0, 5):
        for cnt in (0, 3):
            val = {'piece': pc, 'counter': cnt}
            got = effects_under(fen, [inner], val, keep=KW)
            got = [re.sub(r'basic_string\("[^"]*",CXXDefaultArgExpr\)', 'TABLE', g).replace('piece_to_char', 'TABLE') for g in got]
            if pc == 0:
                want = ['++(counter)']
                got = ['++(counter)' if g in ('(counter+=1)', '++(counter) post') else g for g in got]
            else:
                want = (['(%s<<%d)' % (S, 48 + cnt), '(counter=0)'] if cnt else []) + ['(%s<<TABLE[%d])' % (S, pc)]
            _seq(ctx, 'C16.R4.writer-cells', 'empty=%s,pending=%s' % (pc == 0, cnt), got, want, fen.loc(inner),
                 'an empty cell extends the pending run; a piece first writes and resets a non-empty run, then its letter')
    tail = [s_ for s_ in kids(kids(fl[0])[-1]) if s_ is not fl[1]]
    for cnt in (0, 3):
        for last in (False, True):
            val = {'counter': cnt, ho[0]: 0 if last else 4}
            got = effects_under(fen, tail, val, keep=KW)
            want = (['(%s<<%d)' % (S, 48 + cnt), '(counter=0)'] if cnt else []) + ([] if last else ['(%s<<"/")' % S])
            _seq(ctx, 'C16.R4.writer-rank-end', 'pending=%s,last=%s' % (cnt, last), got, want, fen.loc(fl[0]),
                 'at the end of a rank a pending run is written and reset, and `/` follows every rank but the first')
    cd = [n for n in fen.all_nodes() if n['k'] == 'VarDecl' and n.get('name') == 'counter']
    ctx.ob('C16.R4.writer-run-start', 'counter', len(cd) == 1 and kids(cd[0]) and Norm(fen).cval(kids(cd[0])[0]) == 0 and
           not fen.inside(cd[0], fl[0]), 'the run counter starts at zero before the first rank', site=fen.loc())

    # ---- equality --------------------------------------------------------------------------------------------------------------------
    fields = ['_current_side', '_castling_rights', '_enpassant_square']
    for diff in [None] + fields:
        val = {'_zobrist_hash.get_key()': 77, 'other._zobrist_hash.get_key()': 77}
        for f_ in fields:
            val[f_] = 1
            val['other.' + f_] = 0 if f_ == diff else 1
        got = effects_under(eq, kids(eq.body), val, loops='mark')
        want = ['return 0'] if diff else ['loop', 'return 1']
        _seq(ctx, 'C16.R4.equality', 'differs:%s' % diff, got, want, eq.loc(),
             'two positions are equal only if side, castling rights, e.p. square and every board cell agree')
    el = [n for n in eq.all_nodes() if n['k'] == 'ForStmt']
    oke = len(el) == 1
    if oke:
        ne = Norm(eq, inline=False)
        init, _cv, cond, inc, b_ = el[0]['ch']
        v = [x for x in walk(init) if x['k'] == 'VarDecl'] if init else []
        oke = len(v) == 1 and _header(eq, el[0])[1:] == (sq['SQ_A1'], sq['SQ_H8'], 1)
        if oke:
            g1 = effects_under(eq, [b_], {'_board[%s]' % v[0]['name']: 3, 'other._board[%s]' % v[0]['name']: 4}, keep=(v[0]['name'],))
            g0 = effects_under(eq, [b_], {'_board[%s]' % v[0]['name']: 3, 'other._board[%s]' % v[0]['name']: 3}, keep=(v[0]['name'],))
            oke = g1 == ['return 0'] and g0 == []
    ctx.ob('C16.R4.equality-board', 'operator==', bool(oke),
           'equality compares all sixty-four cells (a1..h8 inclusive) and fails on the first difference', site=eq.loc())


from rules.common import strip_casts, const_of


def _header(fen, lp):
    """(variable, first value, last value included, step)"""
    init, _cv, cond, inc, _b = lp['ch']
    v = [x for x in walk(init) if x['k'] == 'VarDecl'] if init else []
    first = Norm(fen).cval(kids(v[0])[0]) if v and kids(v[0]) else None
    step = {'++': 1, '--': -1}.get(strip_casts(inc).get('op')) if inc is not None and strip_casts(inc)['k'] in ('UnaryOperator', 'CXXOperatorCallExpr') else None
    last = None
    c = strip_casts(cond) if cond is not None else None
    if c is not None and c['k'] in ('BinaryOperator', 'CXXOperatorCallExpr') and c.get('op') in ('<', '<=', '>', '>=', '!='):
        ks = kids(c) if c['k'] == 'BinaryOperator' else kids(c)[1:]
        lhs, rhs = strip_casts(ks[0]), Norm(fen).cval(ks[1])
        if v and (lhs.get('ref') or {}).get('id') == v[0]['id'] and rhs is not None and step:
            last = {'<=': rhs, '>=': rhs, '<': rhs - 1, '>': rhs + 1, '!=': rhs - step}[c['op']]
    return (v[0]['name'] if v else None, first, last, step)


def _post_inc(ct):
    for n in ct.all_nodes():
        if n['k'] == 'UnaryOperator' and n.get('op') == '++' and any((x.get('ref') or {}).get('n', '').endswith('::_piece_count') for x in walk(n)):
            return bool(n.get('post'))
    return False


def check_uci(ctx, p):
    """uci() and parse_uci() per case"""
    pk = p.enum('engine::PieceKind')
    cas = p.enum('engine::Castling')
    u = p.fn(POS + '::uci')
    pu = p.fn(POS + '::parse_uci')
    T = lambda s_: 'basic_string("%s",CXXDefaultArgExpr)' % s_
    promos = None
    for n in u.all_nodes():
        if n['k'] == 'VarDecl' and n.get('name') == 'promotions':
            for x in walk(n):
                if x['k'] == 'StringLiteral':
                    promos = x.get('s')
    if promos is None:
        raise AnalysisBroken('C16: promotion letter table of uci() not found')
    for c_, names in ((cas['KING_CASTLING'], ('e1g1', 'e8g8')), (cas['QUEEN_CASTLING'], ('e1c1', 'e8c8'))):
        for sd in (0, 1):
            got = effects_under(u, kids(u.body), {'castling(move)': c_, '_current_side': sd, 'promotion(move)': 0}, keep=('str',))
            _seq(ctx, 'C16.R5.uci-print', 'castling=%d,side=%d' % (c_, sd), got, ['return ' + T(names[sd])], u.loc(),
                 'castling is printed as the king\'s move of the side to move')
    s2n = False
    sd = [n for n in u.all_nodes() if n['k'] == 'VarDecl' and n.get('name') == 'str' and kids(n)]
    str_init = Norm(u).s(kids(sd[0])[0]) if len(sd) == 1 else None
    for kind in ('NO_PIECE_KIND', 'KNIGHT', 'BISHOP', 'ROOK', 'QUEEN'):
        got = effects_under(u, kids(u.body), {'castling(move)': 0, '_current_side': 0, 'promotion(move)': pk[kind]}, keep=('str',))
        if str_init is not None and 'squareToNotation' in str_init:
            # std::string str = squareToNotation(a) + squareToNotation(b);
            m_ = re.fullmatch(r'\(?squareToNotation\((.*?)\)\+squareToNotation\((.*?)\)\)?', str_init.replace('operator+', '+'))
            parts = re.findall(r'squareToNotation\(((?:[^()]|\([^()]*\))*)\)', str_init)
            got = ['(str+=squareToNotation(%s))' % a_ for a_ in parts] + got
        want = ['(str+=%s[file(from(move))])' % T('abcdefgh'), '(str+=%s[rank(from(move))])' % T('12345678'),
                '(str+=%s[file(to(move))])' % T('abcdefgh'), '(str+=%s[rank(to(move))])' % T('12345678')]
        # second spelling: the two squares through squareToNotation (checked below to be file letter + rank digit)
        if got and got[0] not in want:
            s2n = True
            want = []
            if any(g.startswith('(str+=squareToNotation(') for g in got):
                want = ['(str+=squareToNotation(from(move)))', '(str+=squareToNotation(to(move)))']
        if kind != 'NO_PIECE_KIND':
            want.append('(str+=%s[%d])' % (T(promos), pk[kind]))
        want.append('return str')
        _seq(ctx, 'C16.R5.uci-print', 'promotion=%s' % kind, got, want, u.loc(),
             'an ordinary move is printed as origin file, origin rank, target file, target rank and, only for a promotion, its letter')
    if s2n or (str_init is not None and 'squareToNotation' in str_init):
        s2 = p.fn('engine::squareToNotation')
        ctx.analysed(s2)
        rv = [n for n in s2.all_nodes() if n['k'] == 'ReturnStmt' and kids(n)]
        e2 = effects_under(s2, kids(s2.body), {}, keep=('s', 'str', 'result', 'notation'))
        e2 = [re.sub(r'^\((\w+)\+=', '(S+=', x) for x in e2]
        ok2 = e2[:2] == ['(S+=%s[file(sq)])' % T('abcdefgh'), '(S+=%s[rank(sq)])' % T('12345678')] and len(e2) == 3 and e2[2].startswith('return ')
        ctx.ob('C16.R5.uci-print', 'squareToNotation', ok2, 'a square is written as its file letter followed by its rank digit (%s)' % e2, site=s2.loc())
    # parser: the fifth character
    letters = {'n': 'KNIGHT', 'b': 'BISHOP', 'r': 'ROOK', 'q': 'QUEEN'}
    base = {'make_piece_kind(_board[from])': pk['KNIGHT'], 'get_piece_kind(_board[from])': pk['KNIGHT'], 'from': 12, 'to': 20,
            'make_piece_kind(_board[12])': pk['KNIGHT'], 'get_piece_kind(_board[12])': pk['KNIGHT'], '_board[12]': 2, '_board[from]': 2,
            'make_piece_kind(piece_at(12))': pk['KNIGHT'], 'piece_at(12)': 2, 'piece_at(from)': 2}
    K = ('from', 'to', 'promotion', 'move')
    got = effects_under(pu, kids(pu.body), dict(base, **{'str.size()': 4, 'str.length()': 4, 'str[4]': 0}), keep=K)
    _seq(ctx, 'C16.R5.uci-parse', 'four characters', got, ['(move=create_promotion(12,20,promotion))', 'return move'], pu.loc(),
         'a four-character move has no promotion piece and no fifth character is looked at')
    pd = [n for n in pu.all_nodes() if n['k'] == 'VarDecl' and n.get('name') == 'promotion' and kids(n)]
    ctx.ob('C16.R5.uci-parse', 'default promotion', len(pd) == 1 and Norm(pu).cval(kids(pd[0])[0]) == pk['NO_PIECE_KIND'],
           'without a fifth character the promotion piece is none', site=pu.loc())
    for l, kind in letters.items():
        for ch in (l, l.upper()):
            got = effects_under(pu, kids(pu.body), dict(base, **{'str.size()': 5, 'str.length()': 5, 'str[4]': ord(ch), 'str.at(4)': ord(ch)}), keep=K)
            _seq(ctx, 'C16.R5.uci-parse', 'fifth character %r' % ch, got,
                 ['(promotion=%d)' % pk[kind], '(move=create_promotion(12,20,promotion))', 'return move'], pu.loc(),
                 'the fifth character selects the promotion piece (%s)' % kind)
    # squares
    for nm_, (r_, f_) in (('from', (1, 0)), ('to', (3, 2))):
        d = [n for n in pu.all_nodes() if n['k'] == 'VarDecl' and n.get('name') == nm_ and kids(n)]
        okd = len(d) == 1 and Norm(pu).s(kids(d[0])[0]) == 'make_square((str[%d]-49),(str[%d]-97))' % (r_, f_)
        ctx.ob('C16.R5.uci-parse', 'square %s' % nm_, okd,
               '%s is the square named by characters %d (file) and %d (rank)' % (nm_, f_, r_), site=pu.loc())
