"""C01 — value-level rules (M8) over the colour-generic generators.

The M1..M7 families check the structure of the generators; these rules pin the *values* each instantiation works with.
Every expression is taken in normal form (rules/norm.py) with the colour bound and constants evaluated by clang, so the
spelling (named constants, locals, conditional expressions on the template parameter, helper functions) is irrelevant.
For each family the set of terms found is compared with the set the rules of chess prescribe for that colour; a term of the
expected *shape* with other constants (another colour's pieces, another rank, another direction, another offset) is a
violation, a term of an unknown shape stops the analysis (exit 2)."""
import re

from facts import AnalysisBroken
from prog import walk, kids, short
from rules.common import strip_casts, const_of, guard_facts, all_guards
from rules.norm import Norm, cond_value, Unknown

M64 = (1 << 64) - 1
RANK = lambda r: 0xFF << (8 * r)


def band(*parts):
    return '(' + '&'.join(sorted(parts)) + ')'


def bor(*parts):
    return '(' + '|'.join(sorted(parts)) + ')'


def _cmp(ctx, rule, key, found, want, shapes, site, what):
    """found/want: lists of strings (multisets). shapes: regexes every found term must match for a difference to be a verdict"""
    fs, ws = sorted(found), sorted(want)
    if fs == ws:
        ctx.ob(rule, key, True, what + ' (%d terms)' % len(ws), site=site)
        return
    for t in fs:
        if not any(re.fullmatch(s, t) for s in shapes):
            raise AnalysisBroken('%s %s: term `%s` has a shape the rule does not know' % (rule, key, t[:160]))
    extra = [t for t in fs if t not in ws or fs.count(t) > ws.count(t)]
    missing = [t for t in ws if t not in fs or ws.count(t) > fs.count(t)]
    ctx.ob(rule, key, False, what + ' — unexpected: %s; missing: %s' % ([e[:120] for e in extra[:3]], [m[:120] for m in missing[:3]]), site=site)


def sem_pawn(ctx, p, gens, emissions, loop_source, dirs):
    for col, c in (('WHITE', 0), ('BLACK', 1)):
        f = gens[('generate_pawn_moves', col)]
        nm = Norm(f, env={'side': c, '__targs__': True})
        found = []
        for em, creator, args in emissions(f):
            lp, src = loop_source(f, em)
            if src is None:
                raise AnalysisBroken('C01.M8.pawn: emission at %s is not fed by a scanned bitboard' % f.loc(em))
            found.append('%s|%s|%s' % (creator, ','.join(nm.s(a) for a in args), nm.s(src)))
        r7 = RANK(6) if c == 0 else RANK(1)
        nr7 = M64 & ~r7
        r3 = RANK(2) if c == 0 else RANK(5)
        UP, UR, UL = ('NORTH', 'NORTHEAST', 'NORTHWEST') if c == 0 else ('SOUTH', 'SOUTHWEST', 'SOUTHEAST')
        o = {UP: 8, UR: 9, UL: 7}
        sq = 'pop_lsb(&(bb))'

        def frm(d, k=1):
            off = o[d] * k
            return '(%s%s%d)' % (sq, '-' if c == 0 else '+', off)
        want = []
        for d in (UR, UL):
            for kind in (5, 4, 3, 2):
                want.append('create_promotion|%s,%s,%d|%s' % (frm(d), sq, kind, band('capture_mask', 'shift<%s>(%s)' % (d, band(str(r7), 'pawns')))))
            want.append('create_move|%s,%s|%s' % (frm(d), sq, band('capture_mask', 'shift<%s>(%s)' % (d, band(str(nr7), 'pawns')))))
        for kind in (5, 4, 3, 2):
            want.append('create_promotion|%s,%s,%d|%s' % (frm(UP), sq, kind, band('empty', 'push_mask', 'shift<%s>(%s)' % (UP, band(str(r7), 'pawns')))))
        single = 'shift<%s>(%s)' % (UP, band(str(nr7), 'pawns'))
        want.append('create_move|%s,%s|%s' % (frm(UP), sq, band('empty', 'push_mask', single)))
        want.append('create_move|%s,%s|%s' % (frm(UP, 2), sq, band('empty', 'push_mask', 'shift<%s>(%s)' % (UP, band(str(r3), 'empty', single)))))
        shapes = [r'create_(move|promotion)\|\(pop_lsb\(&\(bb\)\)[+-]\d+\),pop_lsb\(&\(bb\)\)(,\d)?\|\((capture_mask|empty&push_mask)&shift<\w+>\(\(\d+&(pawns|empty&shift<\w+>\(\(\d+&pawns\)\))\)\)\)']
        _cmp(ctx, 'C01.M8.pawn-moves', 'generate_pawn_moves<%s>' % col, found, want, shapes, f.loc(),
             'pushes, double pushes, captures and the four promotions of un-pinned pawns start from the pawns on / off the '
             'mover\'s seventh rank, go in the mover\'s directions and are masked on the destination')


def sem_forbidden(ctx, p, gens):
    pe = p.enum('engine::Piece')
    for col, c in (('WHITE', 0), ('BLACK', 1)):
        f = gens[('forbidden_squares', col)]
        nm = Norm(f, env={'side': c, '__targs__': True})
        from rules.norm import SYNONYMS
        nm.synonyms = SYNONYMS
        res = [n for n in f.all_nodes() if n['k'] == 'ReturnStmt']
        if len(res) != 1:
            raise AnalysisBroken('C01.M8.forbidden: forbidden_squares has %d returns' % len(res))
        rv = strip_casts(kids(res[0])[0])
        vid = rv.get('ref', {}).get('id')
        if vid is None:
            raise AnalysisBroken('C01.M8.forbidden: forbidden_squares does not return an accumulated bitboard')
        found = []
        for n in f.all_nodes():
            if n['k'] == 'CompoundAssignOperator' and strip_casts(kids(n)[0]).get('ref', {}).get('id') == vid:
                if n.get('op') != '|=':
                    raise AnalysisBroken('C01.M8.forbidden: the attacked set is updated with %s' % n.get('op'))
                term = nm.s(kids(n)[1])
                loops = [a for a in f.ancestors(n) if a['k'] == 'ForStmt']
                bound = ''
                if loops:
                    cnd = loops[0]['ch'][2]
                    bound = nm.s(kids(strip_casts(cnd))[1]) if cnd is not None and len(kids(strip_casts(cnd))) == 2 else '?'
                    from rules.common import for_init_const
                    op_ = strip_casts(cnd).get('op') if cnd is not None else '?'
                    if op_ != '<' or for_init_const(loops[0]) != 0:
                        bound = 'from %s while i %s %s' % (for_init_const(loops[0]), op_, bound)
                found.append('%s @ %s' % (term, bound))
            elif n['k'] == 'VarDecl' and n.get('id') == vid and kids(n) and nm.s(kids(n)[0]) != '0':
                found.append('%s @ ' % nm.s(kids(n)[0]))
        opp = 1 - c
        base = 6 * opp          # W_PAWN = 1 .. W_KING = 6, B_PAWN = 7 .. B_KING = 12
        ownk = 6 * c + 6
        bl = '(pos.pieces()^square_bb(pos.piece_position(%d,0)))' % ownk
        D1, D2 = ('SOUTHEAST', 'SOUTHWEST') if c == 0 else ('NORTHEAST', 'NORTHWEST')
        want = [bor('shift<%s>(pos.pieces(%d,1))' % (D1, opp), 'shift<%s>(pos.pieces(%d,1))' % (D2, opp)) + ' @ ',
                'KNIGHT_MASK[pos.piece_position(%d,i)] @ pos.number_of_pieces(%d)' % (base + 2, base + 2),
                'slider_attack<BISHOP>(pos.piece_position(%d,i),%s) @ pos.number_of_pieces(%d)' % (base + 3, bl, base + 3),
                'slider_attack<ROOK>(pos.piece_position(%d,i),%s) @ pos.number_of_pieces(%d)' % (base + 4, bl, base + 4),
                'slider_attack<QUEEN>(pos.piece_position(%d,i),%s) @ pos.number_of_pieces(%d)' % (base + 5, bl, base + 5),
                'KING_MASK[pos.piece_position(%d,0)] @ ' % (base + 6)]
        shapes = [r'\(shift<\w+>\(pos\.pieces\(\d,\d\)\)\|shift<\w+>\(pos\.pieces\(\d,\d\)\)\) @ ',
                  r'KNIGHT_MASK\[pos\.piece_position\(\d+,i\)\] @ (from \S+ while i \S+ )?pos\.number_of_pieces\(\d+\)',
                  r'slider_attack<\w+>\(pos\.piece_position\(\d+,i\),\(pos\.pieces\(\)\^square_bb\(pos\.piece_position\(\d+,0\)\)\)\) @ (from \S+ while i \S+ )?pos\.number_of_pieces\(\d+\)',
                  r'slider_attack<\w+>\(pos\.piece_position\(\d+,i\),pos\.pieces\(\)\) @ pos\.number_of_pieces\(\d+\)',
                  r'KING_MASK\[pos\.piece_position\(\d+,0\)\] @ ']
        _cmp(ctx, 'C01.M8.forbidden', 'forbidden_squares<%s>' % col, found, want, shapes, f.loc(),
             'the squares the king may not enter are the attacks of every enemy piece (pawns in the enemy\'s capture '
             'directions, each list walked to its own count, sliders looking through the own king)')


def sem_piece_moves(ctx, p, emissions, loop_source):
    fs = p.fns('engine::generate_piece_moves')
    kinds = sorted(short(f.targs) for f in fs)
    ctx.ob('C01.M8.piece-instances', 'generate_piece_moves', kinds == ['BISHOP', 'KNIGHT', 'QUEEN', 'ROOK'],
           'generate_piece_moves is instantiated for knight, bishop, rook and queen (%s)' % kinds, site=fs[0].loc() if fs else '')
    for f in fs:
        ctx.analysed(f)
        k = short(f.targs)
        nm = Norm(f, env={'__targs__': True})
        found = []
        for em, creator, args in emissions(f):
            lp, src = loop_source(f, em)
            val_ = nm.s(src) if src is not None else '?'
            # updates of the scanned bitboard between its definition and the scan (bb &= target)
            if lp is not None:
                vid = strip_casts(kids(lp)[0]).get('ref', {}).get('id')
                for n in f.all_nodes():
                    if n['k'] == 'CompoundAssignOperator' and strip_casts(kids(n)[0]).get('ref', {}).get('id') == vid and \
                            f.cfg.node_dominates(n, lp) and not f.inside(n, lp):
                        if n.get('op') != '&=':
                            raise AnalysisBroken('C01.M8.piece-moves: the scanned bitboard is updated with %s' % n.get('op'))
                        val_ = band(val_, nm.s(kids(n)[1]))
            found.append('%s|%s|%s' % (creator, ','.join(nm.s(a) for a in args), val_))
        look = 'KNIGHT_MASK[from]' if k == 'KNIGHT' else 'slider_attack<%s>(from,pos.pieces())' % k
        want = ['create_move|from,pop_lsb(&(bb))|%s' % band('target', look)]
        shapes = [r'create_move\|from,pop_lsb\(&\(bb\)\)\|\((KNIGHT_MASK\[from\]|slider_attack<\w+>\(from,pos\.pieces\(\)\))&target\)',
                  r'create_move\|from,pop_lsb\(&\(bb\)\)\|\(target&(KNIGHT_MASK\[from\]|slider_attack<\w+>\(from,pos\.pieces\(\)\))\)']
        _cmp(ctx, 'C01.M8.piece-moves', 'generate_piece_moves<%s>' % k, found, want, shapes, f.loc(),
             'an un-pinned %s moves to the target squares of its own attack lookup' % k.lower())


def sem_ep_attacker(ctx, p, gens):
    """the rank-discovery test removes the captured pawn and THE capturer: its square is e.p. square minus the capture offset of
    the side the single capturer stands on"""
    for col, c in (('WHITE', 0), ('BLACK', 1)):
        f = gens[('generate_enpassant', col)]
        nm = Norm(f, env={'side': c, '__targs__': True}, keep=('right_bb', 'left_bb'))
        blk = [n for n, cfid, name in f.calls() if name == 'engine::attack_in_line']
        if len(blk) != 1:
            raise AnalysisBroken('C01.M8.ep-attacker: attack_in_line call of generate_enpassant not found')
        # which local holds the capturer: the one XOR-ed out of the occupancy together with the captured square
        occ = strip_casts(kids(blk[0])[3])
        names = [x['ref'] for x in walk(occ) if (x.get('ref') or {}).get('k') == 'Local']
        cands = []
        for r in names:
            ds = [n for n in f.all_nodes() if n['k'] == 'VarDecl' and n.get('id') == r['id']]
            if ds and kids(ds[0]):
                for x in walk(kids(ds[0])[0]):
                    rr = x.get('ref') or {}
                    if rr.get('k') == 'Local' and rr['n'] not in ('captured_square',):
                        dd = [n for n in f.all_nodes() if n['k'] == 'VarDecl' and n.get('id') == rr['id']]
                        if dd and (dd[0].get('t') or '').endswith('Bitboard') or dd and 'uint64' in (dd[0].get('t') or ''):
                            cands.append(rr)
        if not cands:
            raise AnalysisBroken('C01.M8.ep-attacker: the capturer bitboard removed from the occupancy was not found')
        vid = cands[0]['id']
        found = []
        for n in f.all_nodes():
            if n['k'] == 'BinaryOperator' and n.get('op') == '=' and strip_casts(kids(n)[0]).get('ref', {}).get('id') == vid:
                g = [nm.show_cond(cnd) for cnd, t in guard_facts(f, n) if t and any((x.get('ref') or {}).get('n') in ('right_bb', 'left_bb') for x in walk(cnd))
                     and not any(x['k'] == 'BinaryOperator' and x.get('op') == '!=' for x in walk(cnd))]
                found.append('%s <- %s' % (nm.s(kids(n)[1]), ' & '.join(sorted(g))))
        sgn = '-' if c == 0 else '+'
        want = ['square_bb((enpassant_square%s9)) <- (truthy right_bb True)' % sgn, 'square_bb((enpassant_square%s7)) <- (truthy left_bb True)' % sgn]
        shapes = [r'square_bb\(\(enpassant_square[+-]\d+\)\) <- \(truthy (right|left)_bb True\)']
        _cmp(ctx, 'C01.M8.ep-attacker', 'generate_enpassant<%s>' % col, found, want, shapes, f.loc(),
             'with a single capturer, the square taken out of the rank for the discovered-check test is the capturer\'s own')


def sem_pin_in_ray(ctx, p):
    fs = [f for f in p.fns('engine::generate_pin_in_ray') if f.body is not None]
    n_ok = 0
    for f in fs:
        ctx.analysed(f)
        # (a) in the branch that scans from the far end, the second-nearest blocker is found after the nearest was taken out
        # (b) every recorded pin also marks the pinned square in *pinned_bb
        pins = [n for n, cfid, name in f.calls() if name == 'engine::create_pin']
        marks = [n for n in f.all_nodes() if n['k'] == 'CompoundAssignOperator' and n.get('op') == '|=' and
                 any(x['k'] == 'UnaryOperator' and x.get('op') == '*' for x in walk(kids(n)[0]))]
        nm = Norm(f, inline=False)
        okb = bool(pins)
        for pn in pins:
            sqs = nm.s(kids(pn)[1])
            okb = okb and any(nm.s(kids(m)[1]) == 'square_bb(%s)' % sqs and
                              (f.cfg.node_dominates(m, pn) or f.cfg.node_postdominates(m, pn)) for m in marks)
        ctx.ob('C01.M8.pin-marked', '%s<%s>' % (short(f.name), short(f.targs)), okb,
               'every pin put on the list also sets the pinned square in the pinned-pieces bitboard (which keeps the piece out of '
               'the un-pinned generators)', site=f.loc(pins[0]) if pins else f.loc(), sample=False)
        # (a)
        defs = {}
        for n in f.all_nodes():
            if n['k'] == 'BinaryOperator' and n.get('op') == '=':
                t = strip_casts(kids(n)[0])
                if (t.get('ref') or {}).get('n') in ('pinned_sq', 'attacking_sq'):
                    defs.setdefault(t['ref']['n'], []).append(n)
        oka = True
        for a in defs.get('attacking_sq', []):
            scan = nm.s(kids(a)[1])
            # the matching definition of pinned_sq in the same branch
            same = [d for d in defs.get('pinned_sq', []) if f.cfg.node_dominates(d, a)]
            if not same:
                oka = False
                continue
            pd = nm.s(kids(same[-1])[1])
            if 'pop_lsb' in pd or 'pop_msb' in pd:
                continue                      # the scan itself removed the nearest blocker
            removed = [n for n in f.all_nodes() if n['k'] == 'CompoundAssignOperator' and n.get('op') == '&=' and
                       nm.s(kids(n)[0]) == 'masked_ray' and nm.s(kids(n)[1]).replace(' ', '') in ('~(square_bb(pinned_sq))',) and
                       f.cfg.node_dominates(same[-1], n) and f.cfg.node_dominates(n, a)]
            oka = oka and bool(removed)
        ctx.ob('C01.M8.pin-second-blocker', '%s<%s>' % (short(f.name), short(f.targs)), oka and bool(defs.get('attacking_sq')),
               'the would-be pinner is looked for after the nearest blocker has been taken out of the masked ray', site=f.loc(), sample=False)
        n_ok += 1
    ctx.floor('C01.M8.pin-in-ray', n_ok, 16, 'generate_pin_in_ray instantiations')


def _wrap(t):
    """offsets computed in uint64_t: from + 18446744073709551600 is from - 16"""
    def f(m):
        v = int(m.group(2))
        if v >= 1 << 63:
            return '(%s-%d)' % (m.group(1), (1 << 64) - v)
        return m.group(0)
    return re.sub(r'\((\w+)\+(\d{15,})\)', f, t)


def _switch_body(sw, value):
    """statements executed by `switch` for a case value (up to the break)"""
    body = kids(sw)[-1]
    out = []
    on = False
    for st in kids(body):
        if st['k'] in ('CaseStmt', 'DefaultStmt'):
            if st['k'] == 'CaseStmt' and st.get('casev') == value:
                on = True
            elif st['k'] == 'DefaultStmt' and not on and not any(x['k'] == 'CaseStmt' and x.get('casev') == value for x in kids(body)):
                on = True
            if on:
                inner = [x for x in kids(st) if x['k'] not in ('ImplicitCastExpr', 'IntegerLiteral', 'ConstantExpr', 'DeclRefExpr')]
                # nested case labels: `case 0: case 1: stmt`
                while inner and inner[-1]['k'] in ('CaseStmt', 'DefaultStmt'):
                    inner = [x for x in kids(inner[-1]) if x['k'] not in ('ImplicitCastExpr', 'IntegerLiteral', 'ConstantExpr', 'DeclRefExpr')]
                out.extend(inner)
        elif on:
            if st['k'] == 'BreakStmt':
                break
            out.append(st)
    return out


def sem_pinned_pawn(ctx, p, gens, emissions):
    rk = p.enum('engine::Rank')
    for col, c in (('WHITE', 0), ('BLACK', 1)):
        f = gens[('generate_pinned_pawn_moves', col)]
        ems = emissions(f)
        UP, UR, UL = ('NORTH', 'NORTHEAST', 'NORTHWEST') if c == 0 else ('SOUTH', 'SOUTHWEST', 'SOUTHEAST')
        off = {'NORTH': 8, 'NORTHEAST': 9, 'NORTHWEST': 7, 'SOUTH': -8, 'SOUTHWEST': -9, 'SOUTHEAST': -7}
        r7 = rk['RANK_7'] if c == 0 else rk['RANK_2']
        r2bb = RANK(1) if c == 0 else RANK(6)
        opp = 1 - c
        sqf = 'square_bb(from)'
        A_capL7 = band('pos.pieces(%d)' % opp, 'shift<%s>(%s)' % (UL, sqf))
        A_capR7 = band('pos.pieces(%d)' % opp, 'shift<%s>(%s)' % (UR, sqf))
        A_push = band('shift<%s>(%s)' % (UP, sqf), '~(pos.pieces())')
        A_capL = band('capture_bb', 'shift<%s>(%s)' % (UL, sqf))
        A_capR = band('capture_bb', 'shift<%s>(%s)' % (UR, sqf))
        r2i = rk['RANK_2'] if c == 0 else rk['RANK_7']
        DUPS = [band('shift<%s>(%s)' % (dn, band(x, sqf)), '~(pos.pieces())')
                for dn in ('DOUBLE' + UP, str(2 * off[UP])) for x in (str(r2bb), 'RANKS_BB[%d]' % r2i)]
        bad = None
        n_rows = 0
        unknown_atoms = set()
        for on7 in (True, False):
            for r3 in (0, 1, 2, 3):
                for A in (True, False):
                    for B in (True, False):
                        n_rows += 1
                        nm = Norm(f, env={'side': c, '__targs__': True}, keep=('capture_bb',))
                        val = {'rank(from)': r7 if on7 else rk['RANK_4'], '(3&ray)': r3, '(ray&3)': r3}
                        nm.val = val
                        events = []

                        def truth(cnd):
                            s_ = nm.s(cnd)
                            m = re.fullmatch(r'\(truthy (.*) True\)', nm.show_cond(cnd)) if False else None
                            at = nm.atom(cnd)
                            if at[0] == 'truthy':
                                e = at[1]
                                pol = at[2]
                                if e in (A_capL7, A_capR7, A_push, A_capL, A_capR):
                                    return A == pol
                                if re.fullmatch(r'\(shift<[\w-]+>\(\((\d+|RANKS_BB\[\d\])&square_bb\(from\)\)\)&~\(pos\.pieces\(\)\)\)', e) or \
                                        re.fullmatch(r'\(~\(pos\.pieces\(\)\)&shift<[\w-]+>\(\((\d+|RANKS_BB\[\d\])&square_bb\(from\)\)\)\)', e):
                                    events.append('double-test|' + e)
                                    return B == pol
                                unknown_atoms.add(e)
                                raise Unknown(e)
                            return cond_value(nm, cnd, val)

                        def run(stmts):
                            for st in stmts:
                                k = st['k']
                                if k == 'CompoundStmt':
                                    if run(kids(st)):
                                        return True
                                elif k == 'IfStmt':
                                    ks = kids(st)
                                    if not any(em is st or f.inside(em, st) for em, _c, _a in ems) and \
                                            not any(x['k'] == 'ReturnStmt' for x in walk(st)):
                                        continue            # emits nothing and does not leave: not a case distinction
                                    tv = truth(ks[0])
                                    br = ks[1] if tv else (ks[2] if len(ks) > 2 else None)
                                    if br is not None and run([br]):
                                        return True
                                elif k == 'SwitchStmt':
                                    v = nm.cval(kids(st)[0])
                                    if v is None:
                                        v = val.get(nm.s(kids(st)[0]))
                                    if v is None:
                                        raise Unknown(nm.s(kids(st)[0]))
                                    if run(_switch_body(st, v)):
                                        return True
                                elif k == 'ReturnStmt':
                                    return True
                                else:
                                    for em, creator, args in ems:
                                        if em is st or f.inside(em, st):
                                            events.append('%s|%s' % (creator, ','.join(_wrap(nm.s(a)) for a in args)))
                            return False
                        try:
                            run(kids(f.body))
                        except Unknown as u:
                            raise AnalysisBroken('C01.M8.pinned-pawn: generate_pinned_pawn_moves<%s> decides on `%s`, which the table does '
                                                 'not know' % (col, str(u)[:200]))
                        d = {0: UL, 1: UP, 2: UR}.get(r3)
                        want = []
                        if d is not None and A:
                            to = '(from%+d)' % off[d]
                            if on7:
                                want = ['create_promotion|from,%s,%d' % (to, kk) for kk in (5, 4, 2, 3)]
                            else:
                                want = ['create_move|from,%s' % to]
                        dbl = [e for e in events if e.startswith('double-test|')]
                        ev = [e for e in events if not e.startswith('double-test|')]
                        if d == UP and A and not on7:
                            if len(dbl) != 1 or dbl[0][len('double-test|'):] not in DUPS:
                                if bad is None:
                                    bad = 'the double push of a pawn pinned on its file is tested by %s' % dbl
                            if B:
                                want.append('create_move|from,(from%+d)' % (2 * off[UP]))
                        if sorted(ev) != sorted(want) and bad is None:
                            bad = ('pawn %s its seventh rank, pinned on ray class %d, %s: emits %s, should emit %s'
                                   % ('on' if on7 else 'off', r3, 'way free' if A else 'way blocked', sorted(ev), sorted(want)))
        ctx.ob('C01.M8.pinned-pawn', 'generate_pinned_pawn_moves<%s>' % col, bad is None,
               'over %d combinations of rank, pin direction and occupancy a pinned pawn gets exactly the moves along its pin line '
               '(capture on its diagonal, push and double push on its file, nothing on its rank), as four promotions from the '
               'seventh rank%s' % (n_rows, '' if bad is None else ' — ' + bad), site=f.loc())
        # capture_bb: the enemy pieces plus the e.p. square when there is one
        nm2 = Norm(f, env={'side': c, '__targs__': True})
        cb = [n for n in f.all_nodes() if n['k'] == 'VarDecl' and n.get('name') == 'capture_bb']
        okc = len(cb) == 1 and kids(cb[0]) and nm2.s(kids(cb[0])[0]) == 'pos.pieces(%d)' % opp
        ups = [n for n in f.all_nodes() if n['k'] == 'CompoundAssignOperator' and cb and strip_casts(kids(n)[0]).get('ref', {}).get('id') == cb[0]['id']]
        okc = okc and len(ups) == 1 and ups[0].get('op') == '|=' and nm2.s(kids(ups[0])[1]) == 'square_bb(pos.enpassant_square())' and \
            any(nm2.atom(cnd, t)[0] == 'in' and nm2.atom(cnd, t)[1] == 'pos.enpassant_square()' and 64 not in nm2.atom(cnd, t)[2]
                for cnd, t in guard_facts(f, ups[0]))
        ctx.ob('C01.M8.pinned-pawn-targets', 'generate_pinned_pawn_moves<%s>' % col, bool(okc),
               'a pinned pawn off its seventh rank may capture an enemy piece or onto the e.p. square (when there is one)', site=f.loc())


def check(ctx, p, gens, emissions, loop_source, dirs):
    sem_pawn(ctx, p, gens, emissions, loop_source, dirs)
    sem_forbidden(ctx, p, gens)
    sem_checkers(ctx, p, gens)
    sem_piece_moves(ctx, p, emissions, loop_source)
    sem_ep_attacker(ctx, p, gens)
    sem_pin_in_ray(ctx, p)
    sem_pinned_pawn(ctx, p, gens, emissions)
    sem_legal_driver(ctx, p, gens)


def sem_legal_driver(ctx, p, gens):
    from rules.effects import single_def
    for col, c in (('WHITE', 0), ('BLACK', 1)):
        f = gens[('generate_legal_moves', col)]
        nm = Norm(f, env={'side': c, '__targs__': True})
        ownk = 6 * c + 6
        # the king whose safety everything is computed for is the mover's
        ks = [n for n in f.all_nodes() if n['k'] == 'VarDecl' and n.get('name') == 'king_sq']
        if len(ks) != 1 or not kids(ks[0]):
            raise AnalysisBroken('C01.M8.own-king: king_sq of generate_legal_moves not found')
        got = nm.s(kids(ks[0])[0])
        m = re.fullmatch(r'pos\.piece_position\((\d+),0\)', got)
        if not m:
            raise AnalysisBroken('C01.M8.own-king: king_sq is defined as `%s`' % got)
        ctx.ob('C01.M8.own-king', 'generate_legal_moves<%s>' % col, int(m.group(1)) == ownk,
               'king moves, check evasions and castling are generated for the mover\'s own king (piece %s, expected %d)' % (m.group(1), ownk),
               site=f.loc(ks[0]))
        # the pin list is walked from the start handed to generate_pins up to the end it returned
        calls = [n for n, cfid, name in f.calls() if name == 'engine::generate_pinned_piece_moves']
        gp = [n for n, cfid, name in f.calls() if name == 'engine::generate_pins']
        ok = len(calls) == 1 and len(gp) == 1
        why = ''
        if ok:
            loops = [a for a in f.ancestors(calls[0]) if a['k'] == 'ForStmt']
            ok = len(loops) == 1
            if ok:
                lp = loops[0]
                init, _cv, cond, inc, body = lp['ch']
                nk = Norm(f, inline=False)
                iv = [x for x in walk(init) if x['k'] == 'VarDecl'] if init else []
                start = nk.s(kids(gp[0])[2])
                endv = None
                par = f.parent(gp[0])
                while par is not None and par['k'] in ('ImplicitCastExpr', 'ExprWithCleanups'):
                    par = f.parent(par)
                if par is not None and par['k'] == 'VarDecl':
                    endv = par['name']
                c_ok = cond is not None and nk.conj(cond) in (frozenset({('ne',) + tuple(sorted([iv[0]['name'] if iv else '?', endv or '?']))}),)
                i_ok = len(iv) == 1 and kids(iv[0]) and nk.s(kids(iv[0])[0]) == start
                s_ = strip_casts(inc) if inc else None
                inc_ok = s_ is not None and s_['k'] == 'UnaryOperator' and s_.get('op') == '++' and \
                    strip_casts(kids(s_)[0]).get('ref', {}).get('id') == (iv[0]['id'] if iv else None)
                arg_ok = iv and nk.s(kids(calls[0])[1]) in ('*(%s)' % iv[0]['name'],)
                ok = bool(c_ok and i_ok and inc_ok and arg_ok)
                why = 'start %s, end %s, condition %s' % (start, endv, nk.show_cond(cond) if cond is not None else None)
        ctx.ob('C01.M8.pin-walk', 'generate_legal_moves<%s>' % col, ok,
               'the moves of pinned pieces are generated for every entry of the pin list: from the start handed to generate_pins up '
               'to the end it returned (%s)' % why, site=f.loc(calls[0]) if calls else f.loc())
        # pinned pieces: knights never move, pawns go to the pinned-pawn generator, sliders only along a ray they can use
        from rules.cases import effects_under
        g = gens[('generate_pinned_piece_moves', col)]
        pkk = p.enum('engine::PieceKind')
        bad = None
        for kind in ('PAWN', 'KNIGHT', 'BISHOP', 'ROOK', 'QUEEN'):
            for allowed in (True, False):
                val = {'piece': pkk[kind], 'pin_piece_kind(pin)': pkk[kind], 'allowed_ray(piece,ray)': 1 if allowed else 0,
                       'allowed_ray(pin_piece_kind(pin),pin_ray(pin))': 1 if allowed else 0,
                       'allowed_ray(%d,ray)' % pkk[kind]: 1 if allowed else 0, 'allowed_ray(%d,pin_ray(pin))' % pkk[kind]: 1 if allowed else 0}
                eff = effects_under(g, kids(g.body), val, env={'side': c, '__targs__': True}, keep=('piece', 'ray', 'from', 'bb', 'list'), loops='mark')
                outcome = []
                for e in eff:
                    m_ = re.search(r'generate_pinned_pawn_moves<(\w+)>\(([^)]*)\)', e)
                    if m_:
                        outcome.append('pawn-generator<%s>(%s)' % (m_.group(1), ','.join(m_.group(2).split(',')[:3])))
                    elif e.startswith('loop'):
                        outcome.append('scan')
                    elif e.startswith('return ') or e.startswith('(list='):
                        continue
                    else:
                        outcome.append(e)
                bbd = [n for n in g.all_nodes() if n['k'] == 'VarDecl' and n.get('name') == 'bb' and kids(n)]
                line = Norm(g, inline=False).s(kids(bbd[0])[0]) if len(bbd) == 1 else None
                if kind == 'KNIGHT':
                    want = []
                elif kind == 'PAWN':
                    want = ['pawn-generator<%s>(from,ray,pos)' % col]
                elif not allowed:
                    want = []
                else:
                    want = ['scan']
                    if line != band('attack_in_line(from,ray,pos.pieces())', 'target') and bad is None:
                        bad = 'a pinned slider scans %s' % line
                if outcome != want and bad is None:
                    bad = 'pinned %s on a ray it %s use: %s, expected %s' % (kind, 'can' if allowed else 'cannot', outcome, want)
        ctx.ob('C01.M8.pinned-dispatch', 'generate_pinned_piece_moves<%s>' % col, bad is None,
               'a pinned knight has no move, a pinned pawn is handed to the pinned-pawn generator of the same colour, a pinned slider '
               'moves along the pin line within the targets only when it can move on that line%s' % ('' if bad is None else ' — ' + bad),
               site=g.loc())


def sem_checkers(ctx, p, gens):
    from rules.norm import SYNONYMS
    for col, c in (('WHITE', 0), ('BLACK', 1)):
        f = gens[('checkers', col)]
        nm = Norm(f, env={'side': c, '__targs__': True})
        nm.synonyms = SYNONYMS
        rets = [n for n in f.all_nodes() if n['k'] == 'ReturnStmt' and kids(n)]
        if len(rets) != 1:
            raise AnalysisBroken('C01.M8.checkers: checkers<%s> has %d returns' % (col, len(rets)))
        rv = strip_casts(kids(rets[0])[0])
        found = []
        vid = (rv.get('ref') or {}).get('id') if (rv.get('ref') or {}).get('k') == 'Local' else None
        if vid is not None:
            for n in f.all_nodes():
                if n['k'] == 'CompoundAssignOperator' and strip_casts(kids(n)[0]).get('ref', {}).get('id') == vid:
                    if n.get('op') != '|=':
                        raise AnalysisBroken('C01.M8.checkers: the set of checkers is updated with %s' % n.get('op'))
                    found.append(nm.s(kids(n)[1]))
                elif n['k'] == 'VarDecl' and n.get('id') == vid and kids(n) and nm.s(kids(n)[0]) != '0':
                    found.append(nm.s(kids(n)[0]))
        else:
            found = [nm.s(rv)]
        # a union written as one expression: split its top-level `|`
        flat = []
        for t in found:
            if t.startswith('(') and t.endswith(')'):
                depth, cur, parts = 0, '', []
                for ch in t[1:-1]:
                    if ch == '(':
                        depth += 1
                    if ch == ')':
                        depth -= 1
                    if ch == '|' and depth == 0:
                        parts.append(cur)
                        cur = ''
                    else:
                        cur += ch
                parts.append(cur)
                if len(parts) > 1 and all(p_.startswith('(') for p_ in parts):
                    flat.extend(parts)
                    continue
            flat.append(t)
        opp = 1 - c
        ksq = 'position.piece_position(%d,0)' % (6 * c + 6)
        UL, UR = ('NORTHWEST', 'NORTHEAST') if c == 0 else ('SOUTHEAST', 'SOUTHWEST')
        P = lambda k_: 'position.pieces(%d,%d)' % (opp, k_)
        want = [band(bor('shift<%s>(square_bb(%s))' % (UL, ksq), 'shift<%s>(square_bb(%s))' % (UR, ksq)), P(1)),
                band('KNIGHT_MASK[%s]' % ksq, P(2)),
                band(bor(P(3), P(5)), 'slider_attack<BISHOP>(%s,position.pieces())' % ksq),
                band(bor(P(4), P(5)), 'slider_attack<ROOK>(%s,position.pieces())' % ksq)]
        shapes = [r'(?=.*(KNIGHT_MASK\[|slider_attack<\w+>\(|shift<\w+>\())(?=.*position\.pieces\(\d,\d\))\(.*\)']
        _cmp(ctx, 'C01.M8.checkers', 'checkers<%s>' % col, flat, want, shapes, f.loc(),
             'the checking pieces are the enemy pawns, knights, bishops/queens and rooks/queens that attack the mover\'s king on the '
             'real occupancy')
