"""C04 — the position key is a function of the position, not of its history.

R1 TYPESTATE: every mutator of Position leaves each key component in step
with the field it hashes (castling key <-> _castling_rights, e.p. key <->
_enpassant_square, colour key <-> _current_side, piece/pawn keys <-> _board)
at every exit, on every path. R2 the from-scratch computation and the
incremental API use the same (component, table, index) triples. R3 the pawn
key is touched only by pawn toggles. R4 no key mutator depends on counters or
history; get_key is the XOR of exactly the five components."""
import re

from facts import AnalysisBroken
from prog import walk, kids, short, access_kind
from rules import flow
from rules.common import strip_casts, const_of, norm_cond, written_value, local_writes
from rules.effects import canon

LEVEL = 'proof'
EXPLANATION = ('Typestate abstract interpretation of the four key<->field relations over every path of every public '
               'mutator (do/undo, null do/undo, constructor), sibling agreement between HashKey::init and the '
               'incremental mutators, who-may-write rules for the key components and hashed fields, and an effect '
               'rule for history independence. Collision odds are not a static matter.')

POS = 'engine::Position'
HK = 'engine::HashKey'


def _file_of_local(e):
    """`file(x)` with x a local or parameter: its name"""
    e = strip_casts(e)
    if (e.get('callee') or {}).get('n') == 'engine::file' and len(kids(e)) == 2:
        r = strip_casts(kids(e)[1]).get('ref') or {}
        if r.get('k') in ('Local', 'Parm'):
            return r.get('n')
    return None


class TS:
    """typestate transfer for the castling and e.p. relations"""

    def __init__(self, fn):
        self.fn = fn

    def transfer(self, f, n, st):
        C, F, K = st
        k = n['k']
        c = n.get('callee')
        if c:
            nm = c['n']
            args = kids(n)[1:]
            if nm == HK + '::set_castling':
                a = canon(f, args[0], inline=False)
                C = 'SYNC' if a == '_castling_rights' else 'KEY-OTHER(%s)' % a
            elif nm == HK + '::clear_castling':
                C = 'KEY-CLEARED'
            elif nm == HK + '::clear_enpassant':
                K = 'CLEARED'
            elif nm == HK + '::set_enpassant':
                a = canon(f, args[0], inline=False)
                if a == 'file(_enpassant_square)':
                    K = 'FILE-OF-FIELD' if F.startswith('SQ') else 'FILE-OF-MAYBE-NO'
                elif '=' in F and _file_of_local(args[0]) == F.split('=', 1)[1]:
                    # the file of the local the field was just set from
                    K = 'FILE-OF-FIELD' if F.startswith('SQ') else 'FILE-OF-MAYBE-NO'
                else:
                    K = 'FILE-OTHER(%s)' % a
            elif nm == POS + '::set_enpassant_square':
                a = strip_casts(args[0])
                if const_of(a) == 64:
                    F = 'NO'
                elif a.get('callee', {}).get('n') in ('engine::last_enpassant_square', POS + '::enpassant_square') or \
                        a.get('ref', {}).get('k') in ('Local', 'Parm', 'Field'):
                    F = 'MAYBE'
                    ar = a.get('ref', {})
                    if ar.get('k') in ('Local', 'Parm') and \
                            all(f.cfg.path_avoiding(f.cfg.position(n), set(), {w['i']}) is None for w in local_writes(f, ar['id'])):
                        F = 'MAYBE=' + ar['n']          # the field now equals this never-reassigned local: tests of it tell about the field
                else:
                    F = 'SQ'
                if K == 'FILE-OF-FIELD':
                    K = 'STALE'
            elif nm.startswith('engine::operator') and c['n'][-2:] in ('&=', '|=') or \
                    (n['k'] == 'CXXOperatorCallExpr' and n.get('op') in ('&=', '|=', '=')):
                lhs = strip_casts(kids(n)[1])
                if lhs.get('ref', {}).get('n') == POS + '::_castling_rights':
                    C = 'FIELD-AHEAD'
        if k in ('BinaryOperator', 'CompoundAssignOperator') and n.get('op', '').endswith('='):
            lhs = strip_casts(kids(n)[0])
            q = lhs.get('ref', {}).get('n')
            if q == POS + '::_castling_rights' and n['op'] not in ('==', '!=', '<=', '>='):
                C = 'FIELD-AHEAD'
            if q == POS + '::_enpassant_square' and n['op'] == '=':
                F = 'MAYBE'
                if K == 'FILE-OF-FIELD':
                    K = 'STALE'
        return [(C, F, K)]

    def refine(self, f, cond, truth, st):
        C, F, K = st
        c = strip_casts(cond)
        if c['k'] == 'BinaryOperator' and c.get('op') in ('==', '!='):
            a, b = [strip_casts(x) for x in kids(c)]
            for x, y in ((a, b), (b, a)):
                alias = F.split('=', 1)[1] if '=' in F else None
                if (x.get('ref', {}).get('n') == POS + '::_enpassant_square' or
                        (alias is not None and x.get('ref', {}).get('k') in ('Local', 'Parm') and x['ref'].get('n') == alias)) and const_of(y) == 64:
                    is_no = truth if c['op'] == '==' else not truth
                    if is_no:
                        if F.startswith('SQ'):
                            return None
                        F = 'NO'
                    else:
                        if F == 'NO':
                            return None
                        F = 'SQ' + ('=' + alias if alias else '')
        return (C, F, K)


def in_sync(st, entry):
    C, F, K = st
    okc = C == 'SYNC' or (C == 'ORIG')
    if (F, K) == ('ORIG', 'ORIG'):
        oke = True
    elif F == 'NO':
        oke = K == 'CLEARED'
    elif F.startswith('SQ'):
        oke = K == 'FILE-OF-FIELD'
    else:
        oke = False
    return okc, oke


def _plain_get_key(p):
    """HashKey::get_key() — the overload without parameters"""
    fs = [f for f in p.fns(HK + '::get_key') if f.body is not None and not f.params]
    if len(fs) != 1:
        raise AnalysisBroken('C04: HashKey::get_key() without parameters not found (or defined twice)')
    return fs[0]


def _position_hash(ctx, p):
    """the key the rest of the engine sees (Position::hash(), used for the transposition table and printed by `hash`) is the
    five-component key itself: no other accessor of the key object, nothing mixed in (a clock, a counter, the history)"""
    from rules.cases import effects_under
    hs = [f for f in p.fns(POS + '::hash') if f.body is not None]
    if len(hs) != 1:
        raise AnalysisBroken('C04: Position::hash() not found')
    h = hs[0]
    ctx.analysed(h)
    got = effects_under(h, kids(h.body), {})
    ctx.ob('C04.R6.position-hash', 'Position::hash', got == ['return _zobrist_hash.get_key()'],
           'Position::hash() returns the five-component key and nothing else (%s)' % got, site=h.loc())
    others = sorted({short(f.name) for f in p.funcs.values() if f.name.startswith(HK + '::get_') and f.body is not None and f.params})
    ctx.ob('C04.R6.position-hash', 'HashKey accessors', not others,
           'no accessor of the key takes something to mix into it%s' % ('' if not others else ' — ' + ', '.join(others)),
           site='engine/zobrist_hash.cpp')


def key_primitives(ctx, p):
    """R6: what each incremental update of the key does to the five components (effects per case, rules/cases.effects_under)"""
    from rules.cases import effects_under
    pkk = p.enum('engine::PieceKind')

    def eff(name, val=None, keep=()):
        f = p.fn(HK + '::' + name)
        ctx.analysed(f)
        return f, effects_under(f, kids(f.body), val or {}, keep=keep)
    def delta(name, val, depth=0):
        """net effect of a HashKey method on the key components: {component: ('=', value) | ('^', sorted terms)}; calls of other
        HashKey methods are replaced by their own effect with the arguments substituted"""
        f = p.fn(HK + '::' + name)
        ctx.analysed(f)
        out = {}
        for e in effects_under(f, kids(f.body), val):
            m = re.fullmatch(r'\((_\w+_key)(\^?=)(.*)\)', e)
            if m:
                comp, op, v = m.groups()
                if op == '=':
                    out[comp] = ('=', v)
                else:
                    terms = [t for t in (v[1:-1].split('^') if v.startswith('(') and v.endswith(')') and '^' in v else [v])]
                    cur = out.get(comp, ('^', []))
                    if cur[0] != '^':
                        raise AnalysisBroken('C04.R6: %s assigns and then toggles %s' % (name, comp))
                    out[comp] = ('^', sorted(cur[1] + terms))
                continue
            m = re.fullmatch(r'(\w+)\((.*)\)', e)
            if m and depth < 3 and p.fns(HK + '::' + m.group(1)):
                g = p.fn(HK + '::' + m.group(1))
                args = [a.strip() for a in m.group(2).split(',')]
                _g, sub = delta(m.group(1), val, depth + 1)
                for comp, (op, v) in sub.items():
                    def subst(t):
                        for q, a in zip(g.params, args):
                            t = re.sub(r'\b%s\b' % re.escape(q['name']), a, t)
                        return t
                    if op == '=':
                        out[comp] = ('=', subst(v))
                    else:
                        cur = out.get(comp, ('^', []))
                        out[comp] = ('^', sorted(cur[1] + [subst(t) for t in v]))
                continue
            raise AnalysisBroken('C04.R6: %s does `%s`, which the rule does not know' % (name, e))
        return f, out
    table = [
        ('flip_side', {'_color_key': ('^', ['SIDE_HASH'])}, 'the side component toggles the side constant'),
        ('clear_enpassant', {'_enpassant_key': ('=', '0')}, 'the e.p. component becomes empty'),
        ('set_enpassant', {'_enpassant_key': ('=', 'ENPASSANT_HASH[file]')}, 'the e.p. component becomes the constant of the file'),
        ('clear_castling', {'_castling_key': ('=', '0')}, 'the castling component becomes empty'),
        ('set_castling', {'_castling_key': ('=', 'CASTLING_HASH[castling]')}, 'the castling component becomes the constant of the rights set'),
    ]
    for name, want, what in table:
        f, got = delta(name, {})
        ctx.ob('C04.R6.key-primitive', name, got == want, '%s (%s)' % (what, got), site=f.loc())
    for kind, comp in (('PAWN', '_pawn_key'), ('KNIGHT', '_piece_key'), ('KING', '_piece_key')):
        val = {'get_piece_kind(piece)': pkk[kind], 'make_piece_kind(piece)': pkk[kind]}
        f, got = delta('toggle_piece', val)
        ctx.ob('C04.R6.key-primitive', 'toggle_piece:%s' % kind, got == {comp: ('^', ['PIECE_HASH[piece][sq]'])},
               'toggling a %s toggles its constant in the %s component (%s)' % (kind.lower(), 'pawn' if comp == '_pawn_key' else 'piece', got), site=f.loc())
        f, got = delta('move_piece', val)
        ctx.ob('C04.R6.key-primitive', 'move_piece:%s' % kind, got == {comp: ('^', sorted(['PIECE_HASH[piece][from]', 'PIECE_HASH[piece][to]']))},
               'moving a %s toggles its constants for the origin and the target in the %s component (%s)'
               % (kind.lower(), 'pawn' if comp == '_pawn_key' else 'piece', got), site=f.loc())
    gk = _plain_get_key(p)
    ctx.analysed(gk)
    got = effects_under(gk, kids(gk.body), {})
    from rules.norm import Norm as _Nk
    ctx.ob('C04.R6.key-composition', 'get_key', got == ['return (_castling_key^_color_key^_enpassant_key^_pawn_key^_piece_key)'],
           'the key is the XOR of the five components (%s)' % got, site=gk.loc())
    gp = p.fn(HK + '::get_pawnkey')
    ctx.analysed(gp)
    got = effects_under(gp, kids(gp.body), {})
    ctx.ob('C04.R6.key-composition', 'get_pawnkey', got == ['return _pawn_key'], 'the pawn key is the pawn component (%s)' % got, site=gp.loc())


def check(ctx):
    p = ctx.prog()
    key_primitives(ctx, p)
    _position_hash(ctx, p)
    muts = {}
    for nm in ('do_move', 'undo_move', 'do_null_move', 'undo_null_move', 'set_enpassant_square'):
        muts[nm] = p.fn(POS + '::' + nm)
    ctor = [f for f in p.fns(POS + '::Position') if len(f.params) == 1][0]
    for f in list(muts.values()) + [ctor]:
        ctx.analysed(f)

    # ---- R1 TYPESTATE (castling, e.p.) ---------------------------------------------------------
    def run(fn, entry):
        ts = TS(fn)
        at, exits = flow.run(fn, [entry], ts.transfer, ts.refine)
        return exits
    null_exit = None
    for nm, entry in (('do_move', ('ORIG', 'ORIG', 'ORIG')), ('undo_move', ('ORIG', 'ORIG', 'ORIG')),
                      ('do_null_move', ('ORIG', 'ORIG', 'ORIG'))):
        fn = muts[nm]
        exits = run(fn, entry)
        if not exits:
            raise AnalysisBroken('typestate: no exit state for ' + nm)
        badc = [s for s in exits if not in_sync(s, entry)[0]]
        bade = [s for s in exits if not in_sync(s, entry)[1]]
        ctx.ob('C04.R1.castling-key', nm, not badc,
               'at every exit of %s the castling key was set from _castling_rights after its last change (exit states %s)'
               % (nm, sorted(set(s[0] for s in exits))), site=fn.loc())
        ctx.ob('C04.R1.ep-key', nm, not bade,
               'at every exit of %s the e.p. key matches _enpassant_square: cleared iff NO_SQUARE, else its file (exit states %s)'
               % (nm, sorted(set((s[1], s[2]) for s in exits))), site=fn.loc())
        if nm == 'do_null_move':
            null_exit = exits
    fn = muts['undo_null_move']
    exits = set()
    for e in null_exit:
        exits |= run(fn, e)
    badc = [s for s in exits if not in_sync(s, None)[0]]
    bade = [s for s in exits if not in_sync(s, None)[1]]
    ctx.ob('C04.R1.castling-key', 'undo_null_move', not badc,
           'undo_null_move leaves the castling key in step (entry = exit state of do_null_move; balanced search in between, C03.R3)',
           site=fn.loc())
    ctx.ob('C04.R1.ep-key', 'undo_null_move', not bade,
           'undo_null_move restores the e.p. key together with the e.p. square (entry = exit state of do_null_move) (exit states %s)'
           % sorted(set((s[1], s[2]) for s in exits)), site=fn.loc())
    # set_enpassant_square writes the field only
    se = muts['set_enpassant_square']
    ws = [n for f, n, k in p.field_accesses(POS, '_enpassant_square') if k in ('write', 'rmw', 'addr')]
    wfn = sorted(set(short(f.name) for f, n, k in p.field_accesses(POS, '_enpassant_square') if k in ('write', 'rmw', 'addr')))
    ctx.ob('C04.R1.ep-writers', '_enpassant_square', wfn == ['set_enpassant_square'],
           '_enpassant_square is written only through set_enpassant_square (writers: %s)' % wfn, site=se.loc())
    wfn = sorted(set(short(f.name) for f, n, k in p.field_accesses(POS, '_castling_rights') if k in ('write', 'rmw', 'addr')))
    ctx.ob('C04.R1.castling-writers', '_castling_rights', set(wfn) <= {'do_move', 'undo_move', 'Position'},
           '_castling_rights is written only by do_move, undo_move and the constructor (writers: %s)' % wfn, site=muts['do_move'].loc())

    # side
    ccs = p.fn(POS + '::change_current_side')
    ctx.analysed(ccs)
    flips = [n for n, cfid, nm in ccs.calls() if nm == HK + '::flip_side']
    sw = [n for f, n, k in p.field_accesses(POS, '_current_side') if f is ccs and k == 'write']
    from props.C03 import _once_every_path
    okv = False
    if sw:
        v = strip_casts(written_value(ccs, sw[0]))
        okv = canon(ccs, v) == '!(_current_side)'
    ctx.ob('C04.R1.side-key', 'change_current_side', _once_every_path(ccs, flips) and _once_every_path(ccs, sw) and okv,
           'change_current_side flips the colour key and the field together, once each on every path', site=ccs.loc())
    wfn = sorted(set(short(f.name) for f, n, k in p.field_accesses(POS, '_current_side') if k in ('write', 'rmw', 'addr')))
    ctx.ob('C04.R1.side-writers', '_current_side', set(wfn) <= {'change_current_side', 'Position'},
           '_current_side is written only by change_current_side and the constructor (writers: %s)' % wfn, site=ccs.loc())
    fcallers = sorted(set(short(f.name) for f, n in p.callers_of(HK + '::flip_side')))
    ctx.ob('C04.R1.flip-callers', 'flip_side', fcallers == ['change_current_side'],
           'HashKey::flip_side is called only from change_current_side (callers: %s)' % fcallers, site=ccs.loc())

    # pieces: each primitive toggles the key with the piece and square(s) it writes to the board
    for nm, want in (('add_piece', ('toggle_piece', ['piece', 'square'])),
                     ('remove_piece', ('toggle_piece', ['piece', 'square'])),
                     ('move_piece', ('move_piece', ['piece', 'from', 'to']))):
        fn = p.fn(POS + '::' + nm)
        ctx.analysed(fn)
        calls = [(n, short(cn)) for n, cfid, cn in fn.calls() if cn.startswith(HK + '::')]
        ok = len(calls) == 1 and calls[0][1] == want[0] and \
            [canon(fn, a, inline=False) for a in kids(calls[0][0])[1:]] == want[1] and _once_every_path(fn, [calls[0][0]])
        # the `piece` argument is what the board holds/held on that square
        if ok and nm != 'add_piece':
            pd = [n for n in fn.all_nodes() if n['k'] == 'VarDecl' and n.get('name') == 'piece']
            src = 'square' if nm == 'remove_piece' else 'from'
            ok = len(pd) == 1 and canon(fn, kids(pd[0])[0], inline=False) == '_board[%s]' % src
            # read before the board is overwritten
            bw = [n for f, n, k in p.field_accesses(POS, '_board') if f is fn and k == 'write']
            ok = ok and all(fn.cfg.node_dominates(fn.parent(pd[0]), w) for w in bw)
        bw = [n for f, n, k in p.field_accesses(POS, '_board') if f is fn and k == 'write']
        ctx.ob('C04.R1.piece-key', nm, ok and bool(bw),
               '%s updates the key with the same piece and square(s) it writes to _board, exactly once' % nm, site=fn.loc())
    wfn = sorted(set(short(f.name) for f, n, k in p.field_accesses(POS, '_board') if k in ('write', 'rmw', 'addr')))
    ctx.ob('C04.R1.board-writers', '_board', set(wfn) <= {'add_piece', 'remove_piece', 'move_piece', 'Position'},
           '_board is written only by the three primitives and the constructor (writers: %s)' % wfn, site='engine/position.cpp')
    # constructor: init() after every hashed field is final
    initc = [n for n, cfid, nm in ctor.calls() if nm == HK + '::init']
    hashed = []
    for fld in ('_board', '_castling_rights', '_current_side'):
        hashed += [n for f, n, k in p.field_accesses(POS, fld) if f is ctor and k in ('write', 'rmw')]
    hashed += [n for n, cfid, nm in ctor.calls() if nm == POS + '::set_enpassant_square']
    hashed += [n for f, n, k in p.field_accesses(POS, '_piece_count') if f is ctor and k in ('write', 'rmw')]
    ok = len(initc) == 1 and all(not ctor.cfg.path_avoiding(ctor.cfg.position(initc[0]), set(), {h['i']}) for h in hashed) \
        and ctor.cfg.path_avoiding((ctor.cfg.entry, -1), {initc[0]['i']}, 'exit') is None
    ctx.ob('C04.R1.ctor-init-last', 'Position(fen)', ok and len(hashed) >= 6,
           'the constructor computes the key (HashKey::init) on every path, after the last write to every hashed field', site=ctor.loc())
    # ... and init() XORs into the components: nothing may have touched the key between its construction and init()
    hk_mut = {f.id for f in p.funcs.values() if f.name.startswith(HK + '::') and f.body is not None and not f.d.get('const') and
              short(f.name) not in ('init', 'HashKey') and (f.cls or '') == HK}
    n_init = 0
    for f in p.funcs.values():
        if f.body is None:
            continue
        ics = [n for n, cfid, nm in f.calls() if nm == HK + '::init']
        for ic in ics:
            n_init += 1
            early = []
            for n, cfid, nm in f.calls():
                if n is ic or cfid not in p.funcs:
                    continue
                if (cfid in hk_mut or (p.reachable_from([cfid]) & hk_mut)) and \
                        f.cfg.path_avoiding(f.cfg.position(n), set(), {ic['i']}) is not None:
                    early.append('%s at line %s' % (short(nm), n.get('l')))
            ctx.ob('C04.R1.init-on-untouched-key', short(f.name), not early,
                   'HashKey::init XORs the position into the components, so no incremental key update runs before it in %s%s'
                   % (short(f.name), '' if not early else ' — before init: ' + ', '.join(early)), site=f.loc(ic))
    ctx.floor('C04.R1.init-on-untouched-key', n_init, 1, 'calls of HashKey::init')
    zero = [i for i in ctor.d.get('inits', []) if i.get('field') == '_zobrist_hash']
    hkc = [f for f in p.fns(HK + '::HashKey')]
    z_ok = bool(zero) and len(hkc) == 1 and all(const_of(strip_casts(i['init'])) == 0 for i in hkc[0].d.get('inits', [])) \
        and len(hkc[0].d.get('inits', [])) == 5
    ctx.ob('C04.R1.ctor-zero', 'HashKey()', z_ok, 'the key starts from five zero components before init() XORs into them', site=hkc[0].loc() if hkc else '')

    # ---- R2 from-scratch == incremental ------------------------------------------------------------
    init = p.fn(HK + '::init')
    ctx.analysed(init)
    inc = {}
    for nm in ('toggle_piece', 'flip_side', 'set_enpassant', 'set_castling', 'clear_enpassant', 'clear_castling'):
        f = p.fn(HK + '::' + nm)
        ctx.analysed(f)
        for n in f.all_nodes():
            if n['k'] in ('BinaryOperator', 'CompoundAssignOperator') and n.get('op') in ('=', '^='):
                comp = short(strip_casts(kids(n)[0]).get('ref', {}).get('n', ''))
                inc.setdefault(comp, set()).add((n['op'], _table(f, kids(n)[1]), _guard_kind(f, n)))
    cov = _init_cover(p, init)
    want_cov = {'side': 'BLACK', 'castling': True, 'ep': True, 'pieces': 'each of the 12 pieces once: pawns into the pawn key, others into the piece key, every list entry'}
    ctx.ob('C04.R2.init-cover', 'HashKey::init', cov == want_cov,
           'init XORs SIDE_HASH iff Black is to move, CASTLING_HASH[rights], ENPASSANT_HASH[file of the e.p. square] only when a square is set, '
           'and PIECE_HASH[piece][square] for every list entry of each of the twelve pieces, pawns into the pawn key and the others into the '
           'piece key (directly or through toggle_piece) — found %s' % cov, site=init.loc())
    # which constant table feeds which component incrementally is decided per primitive by R6 (key_primitives): side <- SIDE_HASH,
    # e.p. <- ENPASSANT_HASH[file], castling <- CASTLING_HASH[rights], pawn / piece <- PIECE_HASH[piece][square] by kind.

    # ---- R3 pawn key purity ----------------------------------------------------------------------------
    # only the key's own methods touch the pawn and piece components (what they do to them: R6); the pawn key is returned unmixed
    for comp in ('_pawn_key', '_piece_key'):
        w_ = sorted({short(f.name) for f, n, k in p.field_accesses(HK, comp) if k in ('write', 'rmw', 'addr')})
        ctx.ob('C04.R3.component-writers', comp, set(w_) <= {'toggle_piece', 'move_piece', 'init', 'HashKey'},
               '%s is written only by the key\'s own toggle/move/init (%s)' % (comp, w_), site='engine/zobrist_hash.cpp')

    # ---- R4 history independence ---------------------------------------------------------------------------
    hk_funcs = [f for f in p.funcs.values() if f.cls == HK]
    ctx.floor('C04.R4.hashkey-methods', len(hk_funcs), 10, 'HashKey methods')
    bad = []
    allowed_calls = {'engine::Position::color', 'engine::Position::number_of_pieces', 'engine::Position::piece_position',
                     'engine::Position::castling_rights', 'engine::Position::enpassant_square'}
    for f in hk_funcs:
        for n, cfid, nm in f.calls():
            if nm.startswith(POS + '::') and nm not in allowed_calls:
                bad.append((f, n, nm))
        for n in f.all_nodes():
            r = n.get('ref')
            if r and r['k'] == 'Field' and r.get('own') == POS:
                bad.append((f, n, r['n']))
    ctx.ob('C04.R4.no-history-reads', 'HashKey', not bad,
           'no HashKey method reads ply/half-move counters or the history (only colour, piece lists, rights, e.p. square)',
           site=bad[0][0].loc(bad[0][1]) if bad else 'engine/zobrist_hash.cpp')
    gk = _plain_get_key(p)
    comps = sorted(short(n['ref']['n']) for n in gk.all_nodes() if n.get('ref', {}).get('k') == 'Field')
    xors = [n for n in gk.all_nodes() if n['k'] == 'BinaryOperator']
    ctx.ob('C04.R4.key-is-xor-of-five', 'get_key',
           comps == ['_castling_key', '_color_key', '_enpassant_key', '_pawn_key', '_piece_key'] and
           all(x.get('op') == '^' for x in xors) and len(xors) == 4,
           'get_key is the XOR of exactly the five components (%s)' % comps, site=gk.loc())
    # tables are written only by zobrist::init
    for g in ('engine::PIECE_HASH', 'engine::CASTLING_HASH', 'engine::SIDE_HASH', 'engine::ENPASSANT_HASH'):
        w = sorted(set(f.name for f, n, k in p.global_accesses(g) if k in ('write', 'rmw', 'addr')))
        ctx.ob('C04.R4.table-writers', short(g), w == ['engine::zobrist::init'],
               '%s is written only by zobrist::init (once per process)' % short(g), site='engine/zobrist_hash.cpp')
    # ---- R5 FILL: every cell of the random tables is drawn -----------------------------------------------------------
    from rules.fill import fill_sites
    tabs = {'engine::PIECE_HASH', 'engine::CASTLING_HASH', 'engine::ENPASSANT_HASH'}
    n_fill = 0
    seen_t = set()
    for f, n, t, dim, ext, itv, lv in fill_sites(p, tabs):
        n_fill += 1
        seen_t.add(t)
        ok = itv is not None and itv[0] == 0 and itv[1] == ext - 1 and f.name == 'engine::zobrist::init'
        ctx.ob('C04.R5.fill', '%s[dim %d by %s]' % (short(t), dim, lv), ok,
               'zobrist::init draws a random for every index of %s: loop variable `%s` covers exactly 0..%d (interval %s); '
               'an undrawn cell stays 0 and makes two different positions share a key' % (short(t), lv, ext - 1, itv), site=f.loc(n))
    ctx.floor('C04.R5.fill', n_fill, 4, 'random table stores')
    ctx.ob('C04.R5.fill-tables', 'tables', seen_t == tabs, 'all three random tables are filled by loops', site='engine/zobrist_hash.cpp')
    sh = [n for f, n, k in p.global_accesses('engine::SIDE_HASH') if k == 'write' and f.name == 'engine::zobrist::init']
    ctx.ob('C04.R5.side-hash', 'SIDE_HASH', len(sh) == 1, 'SIDE_HASH is drawn once by zobrist::init', site='engine/zobrist_hash.cpp')
    ctx.note('not decided: that different positions get different keys (64-bit collision odds)')


def _table(f, e):
    """classify the hashed operand: which table, which index kind"""
    s = canon(f, e, inline=False)
    if s == 'SIDE_HASH':
        return 'SIDE_HASH'
    if s in ('0',):
        return '0'
    e = strip_casts(e)
    if s.startswith('PIECE_HASH['):
        return 'PIECE_HASH[piece][sq]'
    if s.startswith('CASTLING_HASH['):
        idx = s[len('CASTLING_HASH['):-1]
        return 'CASTLING_HASH[rights]' if idx in ('castling', 'position.castling_rights()') else 'CASTLING_HASH[%s]' % idx
    if s.startswith('ENPASSANT_HASH['):
        idx = s[len('ENPASSANT_HASH['):-1]
        return 'ENPASSANT_HASH[file]' if idx in ('file', 'file(position.enpassant_square())') else 'ENPASSANT_HASH[%s]' % idx
    return s


def _guard_kind(f, n):
    return ''


def _init_cover(p, init):
    """what HashKey::init folds into the key, independent of how its loops are arranged: every site that XORs a
    component (or calls the incremental toggle_piece) is evaluated for each binding of the enclosing range-for
    loops over constant lists"""
    from rules.common import guard_facts
    from rules.norm import Norm
    pe = p.enum('engine::Piece')
    pk = p.enum('engine::PieceKind')
    out = {}
    routed = []           # (piece value, component)
    shape_ok = True

    def bindings(n):
        """[env] over the enclosing range-for loops with constant initializer lists"""
        envs = [{}]
        for a in init.ancestors(n):
            if a['k'] == 'CXXForRangeStmt':
                vals = [x['cv'] for x in walk(a['ch'][0]) if x.get('ref', {}).get('k') == 'Enum' and 'cv' in x]
                var = [x for x in walk(a['ch'][5]) if x['k'] == 'VarDecl']
                if len(var) != 1 or not vals:
                    return None
                envs = [dict(e, **{var[0]['name']: v}) for e in envs for v in vals]
        return envs

    def list_loop(n, pexpr, sexpr):
        """the site runs for i = 0 .. number_of_pieces(P)-1 and takes the square piece_position(P, i)"""
        nm = Norm(init)
        for a in init.ancestors(n):
            if a['k'] == 'ForStmt':
                from rules.common import counting_for, for_init_const
                cf = counting_for(init, a)
                if not cf or for_init_const(a) != 0 or cf[2] != '<':
                    return False
                iv = [x for x in walk(a['ch'][0]) if x['k'] == 'VarDecl'][0]['name']
                P = nm.s(pexpr)
                return nm.s(cf[1]) == 'position.number_of_pieces(%s)' % P and nm.s(sexpr) == 'position.piece_position(%s,%s)' % (P, iv)
        return False

    for n in init.all_nodes():
        comp = None
        pexpr = sexpr = None
        if n['k'] == 'CompoundAssignOperator' and n.get('op') == '^=':
            comp = short(strip_casts(kids(n)[0]).get('ref', {}).get('n', ''))
            e = strip_casts(kids(n)[1])
            gf = Norm(init).facts(guard_facts(init, n))
            if comp == '_color_key':
                if canon(init, e) == 'SIDE_HASH' and gf == frozenset({('in', 'position.color()', frozenset({1}))}):
                    out['side'] = 'BLACK'
                continue
            if comp == '_castling_key':
                out['castling'] = Norm(init).s(e) == 'CASTLING_HASH[position.castling_rights()]' and not gf
                continue
            if comp == '_enpassant_key':
                out['ep'] = Norm(init).s(e) == 'ENPASSANT_HASH[file(position.enpassant_square())]' and \
                    gf == frozenset({('in', 'position.enpassant_square()', frozenset(range(64)))})
                continue
            if comp in ('_pawn_key', '_piece_key'):
                if e['k'] == 'ArraySubscriptExpr' and strip_casts(kids(e)[0])['k'] == 'ArraySubscriptExpr' and \
                        canon(init, kids(strip_casts(kids(e)[0]))[0]) == 'PIECE_HASH':
                    pexpr, sexpr = kids(strip_casts(kids(e)[0]))[1], kids(e)[1]
                else:
                    shape_ok = False
                    continue
        elif n.get('callee', {}).get('n') == 'engine::HashKey::toggle_piece':
            comp = 'toggle'
            pexpr, sexpr = kids(n)[1], kids(n)[2]
        if pexpr is None:
            continue
        envs = bindings(n)
        if envs is None or not list_loop(n, pexpr, sexpr):
            shape_ok = False
            continue
        gfn = [a for a in Norm(init).facts(guard_facts(init, n)) if 'number_of_pieces' not in str(a) and '__begin' not in str(a)
               and 'CXXRewrittenBinaryOperator' not in str(a) and a[0] != '<']
        if gfn:
            shape_ok = False
        for env in envs:
            pv = Norm(init, env).cval(pexpr)
            if pv is None:
                shape_ok = False
                continue
            kind = (pv - 1) % 6 + 1 if pv else 0
            if comp == 'toggle':
                routed.append((pv, '_pawn_key' if kind == pk['PAWN'] else '_piece_key'))     # toggle_piece's own routing is C04.R3
            else:
                routed.append((pv, comp))
    want = sorted((v, '_pawn_key' if k.endswith('_PAWN') else '_piece_key') for k, v in pe.items() if k != 'NO_PIECE')
    if shape_ok and sorted(routed) == want:
        out['pieces'] = 'each of the 12 pieces once: pawns into the pawn key, others into the piece key, every list entry'
    else:
        out['pieces'] = 'routed %s (recognised: %s)' % (sorted(routed), shape_ok)
    return out
