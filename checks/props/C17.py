"""C17 — SAN output is unambiguous and parses back to the same move.

Partial. R1 LANG: the printer's output language (derived by abstract
interpretation of san()/san_without_check() over sequences of character
classes) is included in the parser's accept language (castling literals with
the suffix handling found in the code, union the language of SAN_REGEX read
from the source and compiled to a DFA by the checker). R2 field validity of
from()/to() in parse_san and in the printer's filters (shared with C15.R2).
R3 printer and parser select candidates by the same criteria, and the letter
tables are mutual inverses. R4 buffers: C10. Uniqueness of the printed SAN
for each concrete position is not decided."""
import re

from facts import AnalysisBroken
from prog import walk, kids, short
from rules.common import strip_casts, const_of, guard_facts, SubCtx
from rules.effects import canon

LEVEL = 'other'
EXPLANATION = ('Partial: printer language <= parser language decided on automata built from the source (string tables, '
               'concatenation structure, regex literal); candidate-selection criteria agree; letter tables invert. '
               'That the disambiguation makes every printed SAN unique in each concrete position is not decided.')
POS = 'engine::Position'


# ---- tiny regex -> DFA (classes, ?, groups, escapes, literals) ----------------------------------------------------
def parse_regex(rx):
    """returns list of (frozenset(chars), optional) ; groups are transparent; AnalysisBroken on anything else"""
    items = []
    i = 0
    n = len(rx)
    stack = []

    def cls_at(i):
        if rx[i] == '[':
            j = i + 1
            chars = set()
            while rx[j] != ']':
                c = rx[j]
                if c == '\\':
                    j += 1
                    c = rx[j]
                if j + 2 < n and rx[j + 1] == '-' and rx[j + 2] != ']':
                    hi = rx[j + 2]
                    for o in range(ord(c), ord(hi) + 1):
                        chars.add(chr(o))
                    j += 3
                else:
                    chars.add(c)
                    j += 1
            return frozenset(chars), j + 1
        if rx[i] == '\\':
            return frozenset([rx[i + 1]]), i + 2
        if rx[i] in '.*+{}|^$':
            raise AnalysisBroken('LANG: regex operator %r not in the understood subset' % rx[i])
        return frozenset([rx[i]]), i + 1

    while i < n:
        c = rx[i]
        if c == '(':
            stack.append(len(items))
            i += 1
            continue
        if c == ')':
            start = stack.pop()
            i += 1
            if i < n and rx[i] == '?':
                # optional group: only supported when the group is a single item
                if len(items) - start != 1:
                    raise AnalysisBroken('LANG: optional multi-item group')
                items[start] = (items[start][0], True)
                i += 1
            continue
        cl, i = cls_at(i)
        opt = False
        if i < n and rx[i] == '?':
            opt = True
            i += 1
        items.append((cl, opt))
    if stack:
        raise AnalysisBroken('LANG: unbalanced regex')
    return items


def accepts_all(items, seq):
    """does the item sequence accept EVERY concrete string of the class sequence `seq`"""
    # positions: set of indices into items meaning "next item to consume"; epsilon-skip optional items
    def close(S):
        out = set(S)
        ch = True
        while ch:
            ch = False
            for k in list(out):
                if k < len(items) and items[k][1] and k + 1 not in out:
                    out.add(k + 1)
                    ch = True
        return out
    # for universal acceptance over classes we track, per concrete char, the successor sets; the set of
    # *possible state sets* can be large, so track a set of frozensets (one per equivalence of chars)
    cur = {frozenset(close({0}))}
    for cl in seq:
        nxt = set()
        for S in cur:
            by_char = {}
            for ch_ in cl:
                T = set()
                for k in S:
                    if k < len(items) and ch_ in items[k][0]:
                        T.add(k + 1)
                by_char.setdefault(frozenset(close(T)), []).append(ch_)
            for T in by_char:
                if not T:
                    return False, 'char %r rejected' % by_char[T][0]
                nxt.add(T)
        cur = nxt
    for S in cur:
        if len(items) not in S:
            return False, 'string ends early'
    return True, ''


# ---- printer: abstract interpretation over class sequences -------------------------------------------------------------
def string_table(f, name):
    for n in f.all_nodes():
        if n['k'] == 'VarDecl' and n.get('name') == name:
            for x in walk(n):
                if x['k'] == 'StringLiteral':
                    return x.get('s')
    return None


def printer_language(p, f, pk):
    """set of tuples of frozenset(chars) that san_without_check can return"""
    results = set()
    paths = []
    tables = {}

    def lambda_attrs(lam_node):
        g = p.funcs.get(lam_node.get('lambda'))
        out = set()
        if g is None:
            return out
        txt = ' '.join(canon(g, kids(r)[0], inline=False).replace(' ', '') for r in g.all_nodes() if r['k'] == 'ReturnStmt' and kids(r))
        def has(a, b):
            return (a + '==' + b) in txt or (b + '==' + a) in txt
        if has('file(from(m))', 'file(from(move))'):
            out.add('file')
        if has('rank(from(m))', 'rank(from(move))'):
            out.add('rank')
        if has('moved_piece', 'p') or has('moved_piece', 'make_piece_kind(piece_at(from(m)))'):
            out.add('kind')
        if has('to(move)', 'to(m)'):
            out.add('target')
        if has('promotion(move)', 'promotion(m)'):
            out.add('promotion')
        return out

    def table_class(tname, idx_node):
        s = tables.get(tname)
        if s is None:
            s = tables[tname] = string_table(f, tname)
        if s is None:
            raise AnalysisBroken('LANG: string table %s not found' % tname)
        t = canon(f, idx_node).replace(' ', '')
        if t.startswith('file(') or t.startswith('rank('):
            return frozenset(s[:8])
        # piece-kind indexed: the letters of the non-padding cells
        return frozenset(c for c in s if c != ' ')

    def value_of(e, cur):
        """abstract value (tuple of classes) appended by expression e"""
        e = strip_casts(e)
        if e['k'] == 'StringLiteral':
            return tuple(frozenset([c]) for c in e.get('s', ''))
        if e['k'] == 'CXXOperatorCallExpr' and e.get('op') == '[]':
            ks = kids(e)
            tname = short(strip_casts(ks[1]).get('ref', {}).get('n', ''))
            return (table_class(tname, ks[2]),)
        if e.get('callee', {}).get('n') == 'engine::squareToNotation':
            g = p.fn('engine::squareToNotation')
            fs, rs = string_table(g, 'file_str'), string_table(g, 'rank_str')
            if not fs or not rs:
                raise AnalysisBroken('LANG: squareToNotation tables')
            return (frozenset(fs[:8]), frozenset(rs[:8]))
        if e['k'] in ('CXXConstructExpr', 'ImplicitCastExpr', 'CXXBindTemporaryExpr', 'MaterializeTemporaryExpr') and kids(e):
            return value_of(kids(e)[0], cur)
        raise AnalysisBroken('LANG: appended expression %s at %s' % (e['k'], f.loc(e)))

    def run(stmts, s, facts):
        """yields (s, facts, returned?)"""
        states = [(s, facts)]
        for st in stmts:
            nxt = []
            for (s_, fa) in states:
                nxt.extend(step(st, s_, fa))
            states = nxt
        return states

    def step(st, s, facts):
        k = st['k']
        if k == 'ReturnStmt':
            e = strip_casts(kids(st)[0])
            while e['k'] in ('CXXConstructExpr', 'ImplicitCastExpr') and kids(e):
                e = strip_casts(kids(e)[0])
            if e['k'] == 'StringLiteral':
                results.add(tuple(frozenset([c]) for c in e.get('s', '')))
            elif short(e.get('ref', {}).get('n', '')) == 's':
                results.add(s)
                paths.append((s, facts))
            else:
                raise AnalysisBroken('LANG: return of %s' % e['k'])
            return []
        if k == 'CompoundStmt':
            return run(kids(st), s, facts)
        if k == 'IfStmt':
            ch = st.get('ch') or []
            outs = []
            for truth in (True, False):
                f2 = decide(ch[0], truth, s, facts)
                if f2 is None:
                    continue
                br = ch[1] if truth else (ch[2] if len(ch) > 2 else None)
                if br is None:
                    outs.append((s, f2))
                else:
                    outs.extend(step(br, s, f2))
            return outs
        if k == 'CXXOperatorCallExpr' and st.get('op') == '+=':
            ks = kids(st)
            if short(strip_casts(ks[1]).get('ref', {}).get('n', '')) == 's':
                f2 = dict(facts)
                t = canon(f, ks[2], inline=False).replace(' ', '')
                if t.startswith('file_str[file(from(move))]'):
                    f2['#D'] = f2.get('#D', frozenset()) | {'file'}
                if t.startswith('rank_str[rank(from(move))]'):
                    f2['#D'] = f2.get('#D', frozenset()) | {'rank'}
                return [(s + value_of(ks[2], s), f2)]
            return [(s, facts)]
        if k == 'CXXOperatorCallExpr' and st.get('op') == '=':
            ks = kids(st)
            tgt = strip_casts(ks[1]).get('ref', {})
            calls = [x for x in walk(ks[2]) if x.get('callee', {}).get('n', '').startswith('engine::filter')]
            if tgt.get('k') == 'Local' and calls:
                src = None
                for x in walk(kids(calls[0])[1]):
                    if x.get('ref', {}).get('k') == 'Local':
                        src = x['ref']['n']
                        break
                lam = [x for x in walk(calls[0]) if x.get('lambda')]
                f2 = dict(facts)
                f2['#attrs:' + tgt['n']] = frozenset(f2.get('#attrs:' + (src or tgt['n']), frozenset()) | (lambda_attrs(lam[0]) if lam else set()))
                return [(s, f2)]
        if k == 'DeclStmt':
            for d in kids(st):
                if d['k'] == 'VarDecl' and d.get('name') == 's':
                    return [((), facts)]
            return [(s, facts)]
        # other statements do not touch s
        for x in walk(st):
            if x.get('ref', {}).get('n') == 's' and x['ref'].get('k') == 'Local' and x is not st:
                from prog import access_kind
                if access_kind(f, x) != 'read':
                    raise AnalysisBroken('LANG: unmodelled modification of s at %s' % f.loc(x))
        return [(s, facts)]

    def decide(cond, truth, s, facts):
        """facts: dict canon->bool for conditions on unmodified inputs; `s == ""` is decided on the abstract string"""
        c = strip_casts(cond)
        if c['k'] == 'BinaryOperator' and c.get('op') == '&&':
            if truth:
                f1 = decide(kids(c)[0], True, s, facts)
                return None if f1 is None else decide(kids(c)[1], True, s, f1)
            # false: either side false; over-approximate by trying a-false, else b-false (both explored via union)
            f1 = decide(kids(c)[0], False, s, facts)
            if f1 is not None:
                return f1
            fa = decide(kids(c)[0], True, s, facts)
            return None if fa is None else decide(kids(c)[1], False, s, fa)
        t = canon(f, c, inline=False).replace(' ', '')
        if t in ('(s==StringLiteral)', '(s==basic_string(StringLiteral))') or (t.startswith('(s==') and '""' in t):
            return facts if ((len(s) == 0) == truth) else None
        if t.startswith('(s=='):
            lit = [x.get('s') for x in walk(c) if x['k'] == 'StringLiteral']
            if lit == ['']:
                return facts if ((len(s) == 0) == truth) else None
        m_ = re.match(r'^\((\w+)\.size\(\)>1\)$', t)
        if m_:
            f2 = dict(facts)
            f2['#ev'] = tuple(f2.get('#ev', ())) + ((f2.get('#attrs:' + m_.group(1), frozenset()), truth),)
            key, val = t + '@%d' % len(f2['#ev']), truth
            f2[key] = val
            return f2
        key, val = t, truth
        if '!=' in t and '==' not in t:
            key, val = t.replace('!=', '=='), not truth
        if key in facts and facts[key] != val:
            return None
        f2 = dict(facts)
        f2[key] = val
        return f2

    run(kids(f.body), (), {})
    return results, paths


def _peel(n):
    while n is not None and (n['k'] in ('ExprWithCleanups', 'MaterializeTemporaryExpr', 'CXXBindTemporaryExpr', 'ImplicitCastExpr',
                                        'ParenExpr', 'CXXFunctionalCastExpr', 'CXXStaticCastExpr')) and kids(n):
        n = kids(n)[-1]
    return n


def check(ctx):
    p = ctx.prog()
    pk = p.enum('engine::PieceKind')
    sq_ = p.enum('engine::Square')
    swc = p.fn(POS + '::san_without_check')
    san = p.fn(POS + '::san')
    ps = p.fn(POS + '::parse_san')
    for f in (swc, san, ps):
        ctx.analysed(f)

    # ---- R1 LANG -------------------------------------------------------------------------------------------
    base, ppaths = printer_language(p, swc, pk)
    ctx.floor('C17.R1.printer-forms', len(base), 8, 'abstract printer strings')
    # suffixes added by san()
    suffixes = set()
    for n in san.all_nodes():
        if n['k'] == 'ReturnStmt':
            lits = [x.get('s') for x in walk(n) if x['k'] == 'StringLiteral']
            uses_basic = any(short(x.get('ref', {}).get('n', '')) == 'basic_san' for x in walk(n))
            if not uses_basic:
                raise AnalysisBroken('LANG: san() returns something other than basic_san + suffix')
            suffixes.add(lits[0] if lits else '')
    printer = set()
    for b in base:
        for sfx in suffixes:
            printer.add(b + tuple(frozenset([c]) for c in sfx))
    # parser side
    rx = None
    v = p.var(POS + '::SAN_REGEX')
    for x in walk(v.get('init')):
        if x['k'] == 'StringLiteral':
            rx = x.get('s')
    if rx is None:
        raise AnalysisBroken('SAN_REGEX literal not found')
    items = parse_regex(rx)
    rm = [n for n, cfid, nm in ps.calls() if nm.startswith('std::regex_match')]
    if len(rm) != 1 or 'SAN_REGEX' not in canon(ps, rm[0], inline=False):
        raise AnalysisBroken('parse_san: regex_match against SAN_REGEX not found')
    # castling literals and the suffix idiom
    lits = set()
    cmp_var = None
    for n in ps.all_nodes():
        if n['k'] == 'CXXOperatorCallExpr' and n.get('op') == '==':
            ls = [x.get('s') for x in walk(n) if x['k'] == 'StringLiteral']
            vs = [short(x['ref']['n']) for x in walk(n) if x.get('ref', {}).get('k') in ('Local', 'Parm')]
            if ls and vs and '-' in ls[0]:
                lits.add(ls[0])
                cmp_var = vs[0]
    strip = set()
    if cmp_var and cmp_var != 'str':
        # variable is a copy of str with one trailing mark removed:  if (!v.empty() && (v.back()=='+' || v.back()=='#')) v.pop_back();
        for n in ps.all_nodes():
            if n['k'] == 'IfStmt' and any(short(c.get('callee', {}).get('n', '')) == 'pop_back' and cmp_var in canon(ps, c, inline=False)
                                          for c in walk(kids(n)[1]) if c.get('callee')):
                for x in walk(kids(n)[0]):
                    if x['k'] == 'CharacterLiteral' and 'back()' in canon(ps, ps.parent(x) if ps.parent(x)['k'] != 'ImplicitCastExpr' else ps.parent(ps.parent(x)), inline=False):
                        strip.add(chr(x['cv']))
        decl = [n for n in ps.all_nodes() if n['k'] == 'VarDecl' and n.get('name') == cmp_var and kids(n)]
        if len(decl) != 1:
            raise AnalysisBroken('parse_san: the definition of the string compared with the castling spellings was not found')
        init = _peel(kids(decl[0])[0])
        if init['k'] == 'CXXConstructExpr' and len(kids(init)) == 1:
            init = _peel(kids(init)[0])
        if short(init.get('ref', {}).get('n', '')) == 'str':
            pass                                 # copy of str, marks removed in place (collected above)
        elif init['k'] == 'CallExpr' and p.funcs.get((init.get('callee') or {}).get('fid')) is not None and \
                p.funcs[init['callee']['fid']].body is not None and len(kids(init)) == 2 and \
                short(_peel(kids(init)[1]).get('ref', {}).get('n', '')) == 'str':
            # a helper computes the string: decide, for every mark san() appends, what it returns for a string ending in it
            from rules.norm import Norm, decision, Unknown
            h = p.funcs[init['callee']['fid']]
            ctx.analysed(h)
            q = h.params[0]['name'] if 'name' in h.params[0] else h.params[0].get('n')
            nmh = Norm(h)
            strip = set()
            for m in sorted({c for sfx in suffixes for c in sfx}):
                try:
                    r = decision(h, {q + '.empty()': 0, q + '.back()': ord(m), q + '.size()': 4, q + '.length()': 4}, nmh)
                except Unknown as e:
                    raise AnalysisBroken('parse_san: %s decides on %s, which the suffix rule does not model' % (short(h.name), e))
                out = nmh.s(kids(r)[0]) if r is not None and kids(r) else None
                if out in ('%s.substr(0,(%s.size()-1))' % (q, q), '%s.substr(0,(%s.length()-1))' % (q, q)):
                    strip.add(m)
                elif out != q:
                    raise AnalysisBroken('parse_san: %s returns %s for a string ending in %r' % (short(h.name), out, m))
        else:
            raise AnalysisBroken('parse_san: the string compared with the castling spellings is neither str nor a recognised '
                                 'transformation of it (%s)' % canon(ps, init, inline=False))
    # the castling prelude of parse_san, evaluated on each castling spelling the printer can produce (rules/streval.py): the
    # spelling must come back as the castling move of the same wing (given that the move is in the generated list)
    from rules.streval import StrEval, Returned
    from rules.norm import Unknown as _Unk
    se = StrEval(p, legal=True)
    kcm, qcm = p.val('engine::KING_CASTLING_MOVE'), p.val('engine::QUEEN_CASTLING_MOVE')
    castle_lang = set()
    wrong_wing = []
    for form in sorted(printer, key=str):
        if not all(len(c_) == 1 for c_ in form):
            continue
        text = ''.join(next(iter(c_)) for c_ in form)
        if not text.startswith(('O-O', '0-0')):
            continue
        res = None
        try:
            fell = se.run(ps, kids(ps.body), {'str': text},
                          stop=lambda st: any((x.get('callee') or {}).get('n', '').startswith('std::regex_match') for x in walk(st)))
            res = 'falls through to the regex' if fell is False else 'no result'
        except Returned as r_:
            res = r_.value
        except _Unk as u:
            raise AnalysisBroken('parse_san: the castling prelude does something the string evaluator does not model (%s)' % u)
        want = qcm if text.startswith(('O-O-O', '0-0-0')) else kcm
        if res == want:
            castle_lang.add(form)
        elif res in (kcm, qcm):
            wrong_wing.append(text)
    # ... and a spelling that is not castling reaches the regex
    for text in ('e4', 'Nf3', 'exd8=Q+', 'Rad1#'):
        try:
            fell = se.run(ps, kids(ps.body), {'str': text},
                          stop=lambda st: any((x.get('callee') or {}).get('n', '').startswith('std::regex_match') for x in walk(st)))
            if fell is not False:
                wrong_wing.append(text + ' (never reaches the regex)')
        except Returned as r_:
            wrong_wing.append('%s (answered %s before the regex)' % (text, r_.value))
        except _Unk as u:
            raise AnalysisBroken('parse_san: the castling prelude does something the string evaluator does not model (%s)' % u)
    ctx.ob('C17.R1.castling-wing', 'parse_san', not wrong_wing,
           'a printed castling spelling is read back as castling on the same wing%s' % ('' if not wrong_wing else ' — not: %s' % wrong_wing),
           site=ps.loc())
    ctx.info['printer_forms'] = len(printer)
    ctx.info['regex'] = rx
    ctx.info['castling_accepts'] = sorted(''.join(next(iter(c)) for c in t) for t in castle_lang)
    n_forms = 0
    for form in sorted(printer, key=lambda t: (len(t), str(t))):
        n_forms += 1
        shown = ''.join('[%s]' % ''.join(sorted(c)) if len(c) > 1 else next(iter(c)) for c in form)
        if form in castle_lang:
            ok, why = True, 'castling literal'
        else:
            ok, why = accepts_all(items, form)
        ctx.ob('C17.R1.printer-in-parser', shown, ok,
               'every string of the printed form %s is accepted by parse_san (castling literals %s, else SAN_REGEX)%s'
               % (shown, sorted(ctx.info['castling_accepts']), '' if ok else ' — ' + why),
               site=swc.loc() if ok else ps.loc(), sample=(n_forms <= 3 or not ok))
    # the castling comparison precedes the regex (so a castling string never reaches the loop)
    ctx.ob('C17.R1.castling-literals', 'parse_san', {'O-O', 'O-O-O'} <= lits,
           'parse_san recognises the castling spellings the printer emits (%s)' % sorted(lits), site=ps.loc())

    # what the printer appends, in which order and under which conditions (normal forms; the castling early returns aside)
    if not any(n['k'] == 'VarDecl' and n.get('name') == 'matching_moves' for n in swc.all_nodes()):
        # the rules below read the candidate set as a vector narrowed by filters and tested by its size; another bookkeeping
        # (counters, find_if chains) with the same outcome is not something they can judge
        raise AnalysisBroken('san_without_check does not keep the moves that would be written alike in the list the printer rules read '
                             '(`matching_moves`): when file and rank are added is decided from tests of that list only')
    from rules.norm import Norm as _NS
    nsw = _NS(swc, inline=False, keep=('s', 'capturing_bb', 'matching_moves', 'moved_piece'))
    KIND = frozenset(v for k_, v in pk.items() if k_ not in ('NO_PIECE_KIND', 'PAWN') and isinstance(v, int) and v <= pk['KING'])
    ANYK = frozenset(v for k_, v in pk.items() if k_ != 'NO_PIECE_KIND' and isinstance(v, int) and v <= pk['KING'])
    CAP = ('truthy', '(capturing_bb&square_bb(to(move)))', True)
    expect = [('piece_str[moved_piece]', {('in', 'moved_piece', KIND | frozenset({0}))}, {('in', 'moved_piece', KIND)}),
              ('file_str[file(from(move))]', {('ge', 'matching_moves.size()', 2)}, None),
              ('rank_str[rank(from(move))]', {('ge', 'matching_moves.size()', 2)}, None),
              ('file_str[file(from(move))]', {('eq', '""', 's'), ('in', 'moved_piece', frozenset({pk['PAWN']})), CAP}, None),
              ('"x"', {CAP}, None),
              ('squareToNotation(to(move))', set(), None),
              ('"="', {('in', 'promotion(move)', ANYK)}, None),
              ('promotion_str[promotion(move)]', {('in', 'promotion(move)', ANYK)}, None)]
    found_app = []
    form_b = False
    for n in swc.all_nodes():
        if n['k'] == 'CXXOperatorCallExpr' and n.get('op') == '+=' and nsw.s(kids(n)[1]) == 's':
            fa = set(a for a in nsw.facts(guard_facts(swc, n)) if not (a[0] == 'in' and a[1] == 'castling(move)'))
            found_app.append((nsw.s(kids(n)[2]), fa, n))
    # the capture condition may be spelt without the accumulated bitboard (two tests joined by ||): then it is decided as a
    # table over {target holds an enemy piece, the mover is a pawn, the target is the e.p. square}
    xs_ = [(v, fa, n) for v, fa, n in found_app if v == '"x"']
    if len(xs_) == 1 and CAP not in xs_[0][1]:
        from rules.norm import Norm as _Nx, cond_value as _cvx, Unknown as _Ux
        from rules.common import all_guards as _agx
        TE = '(pieces(!(_current_side))&square_bb(to(move)))'
        conds_ = [(c_, t_) for c_, t_ in _agx(swc, xs_[0][2]) if not any((x.get('callee') or {}).get('n') == 'engine::castling' for x in walk(c_))]
        bad_x = None
        for E_ in (0, 1):
            for P_ in (0, 1):
                for ep_ in (sq_['NO_SQUARE'], 20):
                    val = {'moved_piece': pk['PAWN'] if P_ else pk['KNIGHT'], 'make_piece_kind(piece_at(from(move)))': pk['PAWN'] if P_ else pk['KNIGHT'],
                           'to(move)': 20, '_enpassant_square': ep_, 'enpassant_square()': ep_, TE: E_, ('truthy', TE, True): bool(E_)}
                    nx = _Nx(swc, keep=('moved_piece',))
                    try:
                        got = all(_cvx(nx, c_, val) == t_ for c_, t_ in conds_)
                    except _Ux as u:
                        raise AnalysisBroken('san_without_check: the capture mark depends on `%s`, which the rule does not know' % str(u)[:140])
                    want = bool(E_) or (bool(P_) and ep_ == 20)
                    if got != want and bad_x is None:
                        bad_x = 'enemy piece on target=%s, pawn moves=%s, e.p. square %s: `x` %s' % (
                            bool(E_), bool(P_), 'is the target' if ep_ == 20 else 'not set', 'written' if got else 'not written')
        form_b = bad_x is None
        if bad_x is not None:
            ctx.ob('C17.R1.printer-capture', 'san_without_check', False,
                   'a capture is a move onto an enemy piece or, for a pawn, onto the e.p. square when there is one — ' + bad_x, site=swc.loc())
        # in this spelling the pawn's file is written under the same capture condition: give both appends the canonical fact
        found_app = [(v, (fa | {CAP}) if (v == '"x"' or (('eq', '""', 's') in fa)) and form_b else fa, n) for v, fa, n in found_app]
    bad_app = None
    if [v for v, _fa, _n in found_app] != [v for v, _w, _alt in expect]:
        known_vals = {v for v, _w, _alt in expect}
        if any(v not in known_vals for v, _fa, _n in found_app):
            raise AnalysisBroken('san_without_check appends `%s`, which the rule does not know' % [v for v, _fa, _n in found_app if v not in known_vals][0])
        bad_app = 'appended in the order %s, expected %s' % ([v for v, _fa, _n in found_app], [v for v, _w, _alt in expect])
    else:
        for (v, fa, n), (_v, want_, alt_) in zip(found_app, expect):
            if fa != want_ and (alt_ is None or fa != alt_) and bad_app is None:
                bad_app = '%s is appended under %s, expected %s (line %s)' % (v, sorted(map(str, fa)), sorted(map(str, want_)), n.get('l'))
    ctx.ob('C17.R1.printer-fields', 'san_without_check', bad_app is None,
           'the printer writes piece letter (not for pawns), file and rank only when needed, the capturing pawn\'s file, `x` for a capture, '
           'the target square and `=` + letter for a promotion, in this order%s' % ('' if bad_app is None else ' — ' + bad_app), site=swc.loc())
    if form_b:
        ctx.ob('C17.R1.printer-capture', 'san_without_check', True,
               'a capture is a move onto an enemy piece or, for a pawn, onto the e.p. square when there is one (decided as a table)', site=swc.loc())
    cbd = [] if form_b else [n for n in swc.all_nodes() if n['k'] == 'VarDecl' and n.get('name') == 'capturing_bb' and kids(n)]
    cbu = [] if form_b else [n for n in swc.all_nodes() if n['k'] == 'CompoundAssignOperator' and nsw.s(kids(n)[0]) == 'capturing_bb']
    okc = len(cbd) == 1 and nsw.s(kids(cbd[0])[0]) in ('pieces(!(_current_side))',) and len(cbu) == 1 and cbu[0].get('op') == '|=' and \
        nsw.s(kids(cbu[0])[1]) == 'square_bb(_enpassant_square)' and \
        set(a for a in nsw.facts(guard_facts(swc, cbu[0])) if not (a[0] == 'in' and a[1] == 'castling(move)')) == \
        {('in', '_enpassant_square', frozenset(range(64))), ('in', 'moved_piece', frozenset({pk['PAWN']}))}
    if not form_b:
        ctx.ob('C17.R1.printer-capture', 'san_without_check', bool(okc),
               'a capture is a move onto an enemy piece or, for a pawn, onto the e.p. square when there is one', site=swc.loc())

    # disambiguation: what is printed about the origin must single the mover out among the candidates
    base_attrs = {'kind', 'target', 'promotion'}
    n_dp = 0
    bad_dp = []
    for form, facts in ppaths:
        D = set(facts.get('#D', frozenset()))
        ev = facts.get('#ev', ())
        n_dp += 1
        if {'file', 'rank'} <= D:
            continue
        ok = any((not truth) and base_attrs <= set(attrs) and set(attrs) <= base_attrs | D for attrs, truth in ev)
        if not ok:
            bad_dp.append((sorted(D), [(sorted(a), t) for a, t in ev]))
    ctx.ob('C17.R3.disambiguation', 'san_without_check', n_dp >= 8 and not bad_dp,
           'on every path the printed origin information (nothing / file / rank / both) is justified by a test that at most one candidate '
           'shares exactly that information (%d paths)%s' % (n_dp, '' if not bad_dp else ': unjustified %s' % bad_dp[:2]),
           site=swc.loc(), detail={'unjustified': str(bad_dp[:4])})

    # ---- R2 field validity (C15.R2) ------------------------------------------------------------------------------
    import props.C15 as c15
    sub = SubCtx(ctx)
    c15.check(sub)
    bad = [r for r in sub.results if not r[2] and r[0] == 'C15.R2.field-validity' and
           any(k in r[1] for k in ('parse_san', 'san_without_check', 'lambda', 'san:'))]
    ctx.ob('C17.R2.field-validity', 'parse_san/san', not bad,
           'from()/to() of list entries are only read for non-castling entries in parse_san and in the printer\'s filters (C15.R2)%s'
           % ('' if not bad else ': ' + '; '.join(r[1] for r in bad)), site=bad[0][4] if bad else ps.loc())

    # ---- R3 criteria agreement and letter tables -----------------------------------------------------------------
    # the candidate test of the parser, wherever it is written (the condition inside the candidate loop, or a predicate handed to
    # count_if/find_if), as a decision table: a move matches exactly when it is not castling, its piece kind, target square and
    # (when written) origin file, origin rank and promotion piece agree with the string
    from rules.norm import Norm as _Nc, cond_value as _cvc, Unknown as _Uc
    from rules.common import all_guards as _agc
    loop_if = None
    pred = None            # (function, [(condition node, required truth)])
    for n in ps.all_nodes():
        if n['k'] == 'IfStmt' and any(x.get('callee', {}).get('n') == 'engine::from' for x in walk(kids(n)[0])) and \
                any((x.get('ref') or {}).get('n') == 'to_square' for x in walk(kids(n)[0])):
            loop_if = n
            pred = (ps, [(c_, t_) for c_, t_ in _agc(ps, n) if any((x.get('callee') or {}).get('n') == 'engine::castling' for x in walk(c_))] + [(kids(n)[0], True)])
    if pred is None:
        for g_ in [p.funcs[n['lambda']] for n in ps.all_nodes() if n.get('lambda') and n['lambda'] in p.funcs]:
            rets_ = [r_ for r_ in g_.all_nodes() if r_['k'] == 'ReturnStmt' and kids(r_)]
            if len(rets_) == 1 and any((x.get('callee') or {}).get('n') == 'engine::from' for x in walk(rets_[0])) and \
                    any((x.get('ref') or {}).get('n') == 'to_square' for x in walk(rets_[0])):
                pred = (g_, [(kids(rets_[0])[0], True)])
    if pred is None:
        raise AnalysisBroken('parse_san: the test that matches a legal move against the parsed fields was not found')
    pf, pconds = pred
    import itertools as _it
    bad_c = None
    for cz, kd, hf, fe, hr, re_, te, hp, pe in _it.product((False, True), repeat=9):
        val = {'castling(move)': 5 if cz else 0, 'make_piece_kind(piece_at(from(move)))': 2, 'moved_piece': 2 if kd else 3,
               'from_file.operator bool()': int(hf), 'from_file.has_value()': int(hf), 'file(from(move))': 3, 'from_file.value()': 3 if fe else 4,
               '*(from_file)': 3 if fe else 4,
               'from_rank.operator bool()': int(hr), 'from_rank.has_value()': int(hr), 'rank(from(move))': 1, 'from_rank.value()': 1 if re_ else 2,
               '*(from_rank)': 1 if re_ else 2,
               'to(move)': 20, 'to_square': 20 if te else 21,
               'promotion_piece_kind.operator bool()': int(hp), 'promotion_piece_kind.has_value()': int(hp),
               ('eq',) + tuple(sorted(['promotion(move)', 'promotion_piece_kind'])): pe,
               ('eq',) + tuple(sorted(['promotion(move)', 'promotion_piece_kind.value()'])): pe,
               ('eq',) + tuple(sorted(['promotion(move)', '*(promotion_piece_kind)'])): pe}
        nmc = _Nc(pf, keep=('move', 'm', 'moved_piece', 'to_square', 'from_file', 'from_rank', 'promotion_piece_kind'))
        try:
            got = all(_cvc(nmc, c_, val) == t_ for c_, t_ in pconds)
        except _Uc as u:
            raise AnalysisBroken('parse_san: the candidate test depends on `%s`, which the table does not know' % str(u)[:120])
        want = (not cz) and kd and (not hf or fe) and (not hr or re_) and te and (not hp or pe)
        if got != want and bad_c is None:
            bad_c = 'castling=%s kind=%s file(written=%s,equal=%s) rank(written=%s,equal=%s) target=%s promotion(written=%s,equal=%s): %s' % (
                cz, kd, hf, fe, hr, re_, te, hp, pe, 'matches' if got else 'does not match')
    ctx.ob('C17.R3.parser-criteria', 'parse_san', bad_c is None,
           'parse_san matches candidates by piece kind, optional file, optional rank, target square and optional promotion, and never '
           'a castling entry%s' % ('' if bad_c is None else ' — ' + bad_c), site=pf.loc())
    # every way parse_san gives up is one the inclusion argument above accounts for: no regex match, an impossible promotion
    # piece, not exactly one candidate. A further rejection could refuse strings the printer produces.
    from rules.norm import Norm as _N
    nps = _N(ps, inline=False)
    n_rej = 0
    for n in ps.all_nodes():
        if n['k'] != 'ReturnStmt' or not kids(n) or nps.s(kids(n)[0]) != '0':
            continue
        n_rej += 1
        gf = guard_facts(ps, n)
        inner = (nps.show_cond(gf[0][0]), gf[0][1]) if gf else ('', True)
        known = ('regex_match(' in inner[0] and not inner[1]) or \
                ('promotion_piece_kind' in inner[0] and inner[1] and 'matching' not in inner[0]) or \
                (inner[0].replace(' ', '') in ('(nematching_move_count1)',) and inner[1]) or \
                (re.fullmatch(r'\(ne count_if\(begin,end,.*\) 1\)', inner[0]) is not None and inner[1])
        if not known:
            refused = _refused_prints(p, ps, n, gf)
            if refused is None:
                raise AnalysisBroken('parse_san gives up at %s under `%s` (%s): a rejection the inclusion argument does not cover'
                                     % (ps.loc(n), inner[0], inner[1]))
            ctx.ob('C17.R1.extra-rejection', 'parse_san@%d' % n.get('l', 0), not refused,
                   'a further way of giving up (`%s`) refuses none of the strings san() writes for a legal move, decided for the '
                   'kinds of move the printer distinguishes (quiet, capture, e.p. capture, promotion, capturing promotion)%s'
                   % (inner[0][:100], '' if not refused else ' — refused: ' + ', '.join(refused)), site=ps.loc(n))
    ctx.floor('C17.R1.rejections', n_rej, 3, 'NO_MOVE returns in parse_san')
    from rules.norm import cond_value as _cv, Unknown as _U2
    npi = _N(ps)
    # (a) an optional capture group is read only when it is not empty
    n_opt = 0
    for n in ps.all_nodes():
        if (n.get('callee') or {}).get('n', '').endswith('::at') and 'match[' in npi.s(n):
            m_ = re.search(r'match\[(\d)\]', npi.s(n))
            grp_ = int(m_.group(1)) if m_ else None
            if grp_ in _regex_roles(p, optional=True):
                n_opt += 1
                facts_ = set()
                for c_, t_ in guard_facts(ps, n):
                    if t_:
                        facts_ |= set(npi.conj(c_))
                ctx.ob('C17.R1.optional-groups', 'match[%d]' % grp_, ('ge', 'match[%d].length()' % grp_, 1) in facts_,
                       'the optional group %d of the SAN regex is read only when it matched something (an empty group has no first '
                       'character)' % grp_, site=ps.loc(n))
    for n in ps.all_nodes():
        if n['k'] == 'IfStmt' and any(x.get('callee') and 'match[5]' in npi.s(x) for x in walk(kids(n)[1])) and \
                any((x.get('ref') or {}).get('n') == 'promotion_piece_kind' for x in walk(kids(n)[1])):
            n_opt += 1
            ctx.ob('C17.R1.optional-groups', 'match[5]', ('ge', 'match[5].length()', 1) in set(npi.conj(kids(n)[0])),
                   'the promotion group is decoded only when it matched something', site=ps.loc(n))
    ctx.floor('C17.R1.optional-groups', n_opt, 3, 'reads of optional groups')
    # (b) which promotion pieces are refused: pawn and king, nothing else, and only when a promotion was written
    rej = [n for n in ps.all_nodes() if n['k'] == 'IfStmt' and
           any((x.get('ref') or {}).get('n') == 'promotion_piece_kind' for x in walk(kids(n)[0])) and
           any(r_['k'] == 'ReturnStmt' for r_ in walk(kids(n)[1]))]
    bad_p = None
    for n in rej:
        for has in (False, True):
            for kname in ('PAWN', 'KNIGHT', 'BISHOP', 'ROOK', 'QUEEN', 'KING'):
                val = {('truthy', 'promotion_piece_kind.operator bool()', True): has, 'promotion_piece_kind.operator bool()': 1 if has else 0,
                       'promotion_piece_kind.has_value()': 1 if has else 0, 'promotion_piece_kind': pk[kname],
                       'promotion_piece_kind.value()': pk[kname], '*(promotion_piece_kind)': pk[kname]}
                nv = _N(ps)
                try:
                    got = _cv(nv, kids(n)[0], val)
                except _U2 as u:
                    raise AnalysisBroken('parse_san: the promotion-piece test depends on `%s`' % u)
                want = has and kname in ('PAWN', 'KING')
                if got != want and bad_p is None:
                    bad_p = '%s: %s' % ('promotion to %s' % kname if has else 'no promotion written', 'refused' if got else 'accepted')
    ctx.ob('C17.R1.promotion-pieces', 'parse_san', bool(rej) and bad_p is None,
           'a written promotion piece is refused exactly when it is a pawn or a king; a move without promotion is never refused here%s'
           % ('' if bad_p is None else ' — ' + bad_p), site=ps.loc(rej[0]) if rej else ps.loc())
    # second spelling of (c)/(d): the standard algorithms over the whole generated list with the candidate test as predicate
    cnt_calls = [n for n, _c, nm_ in ps.calls() if nm_.split('<')[0] == 'std::count_if']
    fnd_calls = [n for n, _c, nm_ in ps.calls() if nm_.split('<')[0] == 'std::find_if']
    if cnt_calls or fnd_calls:
        nk_ = _N(ps, inline=False)
        beg = [n for n in ps.all_nodes() if n['k'] == 'VarDecl' and n.get('name') == 'end' and kids(n)]
        gen_ok = len(beg) == 1 and nk_.s(kids(beg[0])[0]).startswith('generate_moves(*(this),') and ',begin)' in nk_.s(kids(beg[0])[0])
        args_c = [nk_.s(a_) for a_ in kids(cnt_calls[0])[1:]] if len(cnt_calls) == 1 else None
        args_f = [nk_.s(a_) for a_ in kids(fnd_calls[0])[1:]] if len(fnd_calls) == 1 else None
        okw = gen_ok and args_c is not None and args_c[:2] == ['begin', 'end'] and args_f is not None and args_f == args_c
        ctx.ob('C17.R3.candidate-walk', 'parse_san', bool(okw),
               'the candidates are counted over the whole generated list (count_if from begin to the end generate_moves returned)', site=ps.loc())
        rets_ = [r_ for r_ in ps.all_nodes() if r_['k'] == 'ReturnStmt' and kids(r_) and any(x is fnd_calls[0] for x in walk(r_))] if fnd_calls else []
        okk = okw and len(rets_) == 1 and nk_.s(kids(rets_[0])[0]).startswith('*(find_if(')
        ctx.ob('C17.R3.candidate-kept', 'parse_san', bool(okk),
               'the answer is the candidate found by the same test over the same list', site=ps.loc())
        g_ = [(nps.show_cond(c_), t_) for r_ in rets_ for c_, t_ in guard_facts(ps, r_)]
        oku = any(re.fullmatch(r'\(ne count_if\(begin,end,.*\) 1\)', c_) and not t_ for c_, t_ in g_)
        ctx.ob('C17.R3.unique-match', 'parse_san', bool(oku), 'parse_san answers only when exactly one legal move matches', site=ps.loc())
    else:
        # (c) every generated move is looked at, (d) the answer is the single candidate
        loops_ = [n for n in ps.all_nodes() if n['k'] == 'ForStmt' and any((x.get('ref') or {}).get('n') == 'matching_move_count' for x in walk(n))]
        okl = len(loops_) == 1
        if okl:
            lp_ = loops_[0]
            nk_ = _N(ps, inline=False)
            iv_ = [x for x in walk(lp_['ch'][0]) if x['k'] == 'VarDecl'] if lp_['ch'][0] else []
            inc_ = strip_casts(lp_['ch'][3]) if lp_['ch'][3] else None
            okl = len(iv_) == 1 and kids(iv_[0]) and nk_.s(kids(iv_[0])[0]) == 'begin' and lp_['ch'][2] is not None and \
                nk_.conj(lp_['ch'][2]) == frozenset({('ne',) + tuple(sorted([iv_[0]['name'], 'end']))}) and \
                inc_ is not None and inc_['k'] == 'UnaryOperator' and inc_.get('op') == '++'
            beg = [n for n in ps.all_nodes() if n['k'] == 'VarDecl' and n.get('name') == 'end' and kids(n)]
            okl = okl and len(beg) == 1 and nk_.s(kids(beg[0])[0]).startswith('generate_moves(*(this),') and ',begin)' in nk_.s(kids(beg[0])[0])
        ctx.ob('C17.R3.candidate-walk', 'parse_san', bool(okl),
               'the candidate loop visits every move of the generated list (from begin up to the end generate_moves returned)', site=ps.loc())
        asg = [n for n in ps.all_nodes() if n['k'] == 'BinaryOperator' and n.get('op') == '=' and
               (strip_casts(kids(n)[0]).get('ref') or {}).get('n') == 'matching_move']
        incs = [n for n in ps.all_nodes() if n['k'] == 'UnaryOperator' and n.get('op') == '++' and
                (strip_casts(kids(n)[0]).get('ref') or {}).get('n') == 'matching_move_count']
        oka = len(asg) == 1 and len(incs) == 1 and okl and _N(ps, inline=False, keep=('move',)).s(kids(asg[0])[1]) in ('move', '*(it)') and \
            ps.parent(asg[0]) is not None and ps.cfg.position(asg[0]) is not None and ps.cfg.position(incs[0]) is not None and \
            ps.cfg.position(asg[0])[0] == ps.cfg.position(incs[0])[0]
        ctx.ob('C17.R3.candidate-kept', 'parse_san', bool(oka),
               'a matching candidate is remembered and counted in the same step', site=ps.loc(asg[0]) if asg else ps.loc())
        cnt = [n for n in ps.all_nodes() if n['k'] == 'IfStmt' and canon(ps, kids(n)[0], inline=False).replace(' ', '') == '(matching_move_count!=1)']
        ctx.ob('C17.R3.unique-match', 'parse_san', len(cnt) == 1,
               'parse_san answers only when exactly one legal move matches', site=ps.loc())
    lam = [p.funcs[n['lambda']] for n in swc.all_nodes() if n.get('lambda') and n['lambda'] in p.funcs]
    pc = set()
    for g in lam:
        s_ = canon(g, g.body, inline=False).replace(' ', '') if False else ' '.join(canon(g, kids(r)[0], inline=False).replace(' ', '')
                                                                                     for r in g.all_nodes() if r['k'] == 'ReturnStmt' and kids(r))
        if 'moved_piece==p' in s_:
            pc.add('kind')
        if 'to(move)==to(m)' in s_:
            pc.add('target')
        if 'promotion(move)==promotion(m)' in s_:
            pc.add('promotion')
        if 'file(from(m))==file(from(move))' in s_:
            pc.add('file')
    ranks = [n for n in swc.all_nodes() if n['k'] == 'CXXOperatorCallExpr' and n.get('op') == '+=' and 'rank_str[rank(from(move))]' in canon(swc, n, inline=False).replace(' ', '')]
    ctx.ob('C17.R3.printer-criteria', 'san_without_check', pc == {'kind', 'target', 'promotion', 'file'} and len(ranks) == 1,
           'the printer builds its candidate set by kind, target and promotion, narrows by file, then adds the rank (%s)' % sorted(pc), site=swc.loc())
    both = [n for n, cfid, nm in ps.calls() if nm == 'engine::generate_moves'] + [n for n, cfid, nm in swc.calls() if nm == 'engine::generate_moves']
    sides = set(canon(f_, kids(n)[2], inline=False) for f_, n in ((ps, both[0]), (swc, both[1]))) if len(both) == 2 else set()
    ctx.ob('C17.R3.same-candidates', 'generate_moves', len(both) == 2 and sides <= {'color()', '_current_side'},
           'printer and parser draw candidates from generate_moves for the side to move of the same position', site=ps.loc())
    # letter tables: piece_str[K] and promotion_str[K] are mapped back to K by parse_piece_kind
    ppk = [p.funcs[n['lambda']] for n in ps.all_nodes() if n.get('lambda') and n['lambda'] in p.funcs]
    if len(ppk) != 1:
        # the letter decoder may have become a named function: take the callee that is applied to match[1]
        dec = [p.funcs.get((n.get('callee') or {}).get('fid')) for n in ps.all_nodes()
               if n['k'] == 'VarDecl' and n.get('name') == 'moved_piece' for n in walk(n) if n.get('callee') and (n.get('callee') or {}).get('fid') in p.funcs]
        ppk = [d for d in dec if d is not None and d.body is not None and d.file.startswith(p.root)][:1]
    if len(ppk) != 1:
        raise AnalysisBroken('parse_san: the function that decodes piece letters was not found')

    class _Back(dict):
        def get(self, key, default=None):
            if key not in self:
                try:
                    self[key] = se.call(ppk[0], [key])
                except _Unk as u:
                    raise AnalysisBroken('parse_san: the piece-letter decoder does something the string evaluator does not model (%s)' % u)
            return self[key]
    back = _Back()
    ctx.ob('C17.R3.pawn-letter', 'parse_piece_kind', back.get('') == pk['PAWN'],
           'no piece letter means a pawn (decoded: %s)' % back.get(''), site=ps.loc())
    pstr, prom = string_table(swc, 'piece_str'), string_table(swc, 'promotion_str')
    ok = pstr is not None and prom is not None
    if ok:
        for kname in ('KNIGHT', 'BISHOP', 'ROOK', 'QUEEN', 'KING'):
            ok = ok and len(pstr) > pk[kname] and back.get(pstr[pk[kname]]) == pk[kname]
        for kname in ('KNIGHT', 'BISHOP', 'ROOK', 'QUEEN'):
            ok = ok and len(prom) > pk[kname] and back.get(prom[pk[kname]]) == pk[kname]
    ctx.ob('C17.R3.letters', 'piece letters', ok,
           'the piece letter printed for N,B,R,Q,K (and the promotion letter for N,B,R,Q) is mapped back to the same kind by the parser '
           '(tables %r, %r; parser %s)' % (pstr, prom, back), site=ps.loc())
    # capture groups feed the right variables
    grp = {}
    for n in ps.all_nodes():
        if n['k'] == 'VarDecl' and n.get('name') in ('moved_piece', 'to_square') and kids(n):
            idx = [const_of(strip_casts(kids(x)[2])) for x in walk(n) if x['k'] == 'CXXOperatorCallExpr' and x.get('op') == '[]'
                   and short(strip_casts(kids(x)[1]).get('ref', {}).get('n', '')) == 'match']
            grp[n['name']] = sorted(set(idx))
    for nm in ('from_file', 'from_rank', 'promotion_piece_kind'):
        for n in ps.all_nodes():
            if n['k'] == 'CXXOperatorCallExpr' and n.get('op') == '=' and short(strip_casts(kids(n)[1]).get('ref', {}).get('n', '')) == nm:
                idx = [const_of(strip_casts(kids(x)[2])) for x in walk(n) if x['k'] == 'CXXOperatorCallExpr' and x.get('op') == '[]'
                       and short(strip_casts(kids(x)[1]).get('ref', {}).get('n', '')) == 'match']
                grp[nm] = sorted(set(idx))
    roles = _regex_roles(p)
    want_grp = {'moved_piece': [roles.get('piece')], 'from_file': [roles.get('file')], 'from_rank': [roles.get('rank')],
                'to_square': [roles.get('target')], 'promotion_piece_kind': [roles.get('promotion')]}
    ctx.ob('C17.R3.groups', 'parse_san', grp == want_grp and None not in roles.values() and len(roles) >= 5,
           'regex groups 1..5 feed piece, file, rank, target, promotion in that order (%s)' % grp, site=ps.loc())
    ctx.note('buffers used by the printer/parser are C10 (B10 list capacity, NO_SQUARE shift)')
    ctx.note('not decided: uniqueness of the printed SAN among the legal moves of each concrete position')


def _refused_prints(p, ps, ret, gf):
    """a rejection of parse_san outside the inclusion argument, evaluated on what san() prints for each kind of legal move: the
    string tests by constant evaluation on a representative spelling (and its groups under the SAN regex), the board test
    `piece_at(to_square) == NO_PIECE` from the kind of move (the target of a quiet move, a promotion or an e.p. capture is empty).
    Returns the list of refused kinds, or None when some part of the condition is neither."""
    import re as _re
    from rules.streval import StrEval, Unknown as _SU
    from rules.norm import Norm as _Nn
    from rules.common import strip_casts
    v = p.vars.get('engine::Position::SAN_REGEX') or {}
    lit = None
    init = v.get('init')
    if isinstance(init, dict):
        sl = [x for x in walk(init) if x['k'] == 'StringLiteral']
        lit = sl[0].get('s') if len(sl) == 1 else None
    if lit is None:
        return None
    try:
        rx = _re.compile(lit)
    except _re.error:
        return None
    CASES = (('a quiet move', 'Nf3', True), ('a capture', 'Nxe5', False), ('an e.p. capture', 'exd6', True),
             ('a promotion', 'e8=Q', True), ('a capturing promotion', 'exd8=Q', False), ('a quiet pawn move', 'e4', True),
             ('a disambiguated capture', 'Raxd1', False))
    nn = _Nn(ps, keep=('to_square',))
    se = StrEval(p)

    def leaf(c0, case):
        name, text, empty = case
        s_ = nn.s(c0).replace(' ', '')
        if 'piece_at(to_square)' in s_:
            at = nn.atom(c0)
            if isinstance(at, tuple) and at[0] == 'in' and at[1] == 'piece_at(to_square)' and len(at[2]) == 1:
                return (0 in at[2]) == empty
            if isinstance(at, tuple) and at[0] == 'truthy' and at[1] == 'piece_at(to_square)':
                return (not empty) == at[2]
            return None
        mm = rx.fullmatch(text)
        if mm is None:
            return None
        env = {'str': text, 'match': [mm.group(0)] + [g if g is not None else '' for g in mm.groups()]}
        try:
            return bool(se.truth(se.ev(ps, c0, env)))
        except _SU:
            return None

    def ev(c, case):
        c0 = strip_casts(c)
        while c0 is not None and c0['k'] in ('ParenExpr', 'ExprWithCleanups') and kids(c0):
            c0 = strip_casts(kids(c0)[-1])
        if c0['k'] == 'BinaryOperator' and c0.get('op') in ('&&', '||'):
            a, b = ev(kids(c0)[0], case), ev(kids(c0)[1], case)
            if c0['op'] == '&&':
                if a is False or b is False:
                    return False
                return None if a is None or b is None else True
            if a is True or b is True:
                return True
            return None if a is None or b is None else False
        if c0['k'] == 'UnaryOperator' and c0.get('op') == '!':
            a = ev(kids(c0)[0], case)
            return None if a is None else not a
        r_ = c0.get('ref') or {}
        if r_.get('k') == 'Local' and (c0.get('t') or '').replace('const ', '') == 'bool':
            from rules.effects import single_def as _sd
            d0 = _sd(ps, r_['id'])
            if d0 is not None:
                return ev(d0, case)
        return leaf(c0, case)
    par = ps.parent(ret)
    while par is not None and par['k'] != 'IfStmt':
        par = ps.parent(par)
    if par is None:
        return None
    truth = any(x is ret for x in walk(kids(par)[1]))
    refused = []
    for case in CASES:
        r = ev(kids(par)[0], case)
        if r is None:
            return None
        if r == truth:
            refused.append('%s (%s)' % (case[0], case[1]))
    return refused


def _regex_roles(p, optional=False):
    """capture groups of SAN_REGEX by what they match: piece letter, origin file, origin rank, target square, promotion letter
    (a group of another kind, e.g. one around the capture mark, has no role). optional=True: the numbers of the groups that can
    match the empty string."""
    import re as _re
    v = p.vars.get('engine::Position::SAN_REGEX') or {}
    init = v.get('init')
    sl = [x for x in walk(init) if x['k'] == 'StringLiteral'] if isinstance(init, dict) else []
    if len(sl) != 1:
        raise AnalysisBroken('C17: the SAN regex is not a single string literal')
    lit = sl[0].get('s') or ''
    groups = []
    depth, start = 0, None
    i = 0
    while i < len(lit):
        ch = lit[i]
        if ch == '\\':
            i += 2
            continue
        if ch == '[':
            j = lit.find(']', i + 1)
            i = (j if j >= 0 else len(lit)) + 1
            continue
        if ch == '(':
            if lit[i + 1:i + 2] == '?':
                raise AnalysisBroken('C17: the SAN regex uses a non-capturing or special group, which the rule does not parse')
            if depth == 0:
                start = i
            depth += 1
        elif ch == ')':
            depth -= 1
            if depth == 0 and start is not None:
                groups.append(lit[start + 1:i])
        i += 1
    if any('(' in g for g in groups):
        raise AnalysisBroken('C17: nested groups in the SAN regex')
    if optional:
        return [k + 1 for k, g in enumerate(groups) if _re.fullmatch(g, '') is not None]
    roles = {}
    for k, g in enumerate(groups):
        core = g[:-1] if g.endswith('?') else g
        role = None
        if core == '[a-h][1-8]':
            role = 'target'
        elif core == '[a-h]':
            role = 'file'
        elif core == '[1-8]':
            role = 'rank'
        elif core.startswith('[') and core.endswith(']') and set(core[1:-1]) <= set('NBRQKnbrqk'):
            role = 'promotion' if ('piece' in roles) else 'piece'
        if role is not None:
            if role in roles:
                raise AnalysisBroken('C17: two groups of the SAN regex match a %s' % role)
            roles[role] = k + 1
    return roles
