"""C05 — every `go` is answered by exactly one legal `bestmove`.

Decided: R1 exactly one answer on every path of the thread entry and of
Search::go; R2 the NO_MOVE sentinel cannot reach the printed move (abstract
interpretation of the field's definitions along go -> iter_search); R3 every
use of a transposition-table move other than an equality comparison is
guarded by a membership test in the node's own move list; R4 only the three
PV helpers write the PV, and what they are given comes from the node's list
or the guarded table move; R5 move ordering only permutes; R6 no non-returning
construct in the search thread. Legality of the list itself is C01's concern."""
import re

from facts import AnalysisBroken
from prog import walk, kids, short, access_kind
from rules import flow
from rules.common import counting_for, for_init_const
from rules.effects import single_def, canon
from rules.common import (thread_entries, uci_handlers, const_of, strip_casts, strip_conv,
                          expr_key, base_locals, string_literal_sites, in_loop,
                          enclosing_full_stmt, guard_facts, local_writes, written_value)

LEVEL = 'other'
EXPLANATION = ('Partial: decides that exactly one bestmove is printed on every path, that the NO_MOVE sentinel '
               'cannot reach it, that table moves are only used after a membership test in the node\'s generated '
               'list, that PV moves originate from that list, and that ordering is a permutation. '
               'Legality of the generated list is C01; wall-clock behaviour is not decided.')

NORETURN = ('exit', '_exit', 'abort', 'quick_exit', 'terminate', 'pthread_exit', 'longjmp', '_Exit')


def check(ctx):
    p = ctx.prog()
    entries = thread_entries(p)
    ctx.floor('C05.anchors.threads', len(entries), 1, 'thread constructions')
    entry = entries[0][2]
    t_search = p.reachable_from([entry])
    for fid in t_search:
        ctx.analysed(p.funcs[fid])

    # ---- R1 exactly one answer ---------------------------------------------------
    # the word `go` reaches the handler that starts the search thread
    from rules.ucitab import uci_dispatch
    loop_, disp = uci_dispatch(p)
    creators = {short(c_.name) for c_, n_, e_ in entries}
    ctx.ob('C05.R1.go-dispatch', 'go', disp.get('go') in creators,
           'the command word `go` is dispatched to the handler that constructs the search thread (go -> %s; thread made by %s)'
           % (disp.get('go'), sorted(creators)), site=loop_.loc())
    sites = string_literal_sites(p, 'bestmove ')
    ctx.floor('C05.R1.sites', len(sites), 2, '"bestmove " print sites')
    site_funcs = {}
    for f, n in sites:
        site_funcs.setdefault(f.id, []).append(n)
    ok_who = all(fid in t_search for fid in site_funcs)
    ctx.ob('C05.R1.who', 'bestmove-sites', ok_who and len(sites) == len(site_funcs),
           '"bestmove " is printed only from the search thread, at most once per function (%s)'
           % ', '.join(sorted(short(p.funcs[k].name) for k in site_funcs)),
           site=', '.join(f.loc(n) for f, n in sites))

    def answers_of(f):
        """CFG points of f that produce an answer: a local print, or a call to a
        function that always answers exactly once"""
        pts = []
        for n in site_funcs.get(f.id, []):
            pts.append(enclosing_full_stmt(f, n))
        for n, cfid, nm in f.calls():
            if cfid in exactly_once and exactly_once[cfid]:
                pts.append(n)
        return pts

    exactly_once = {}
    # bottom-up: functions printing directly, then their callers up to the thread entry
    order = [fid for fid in site_funcs if fid != entry.id] + [entry.id]
    for fid in order:
        f = p.funcs[fid]
        pts = answers_of(f)
        c = f.cfg
        ids = set()
        for s in pts:
            ids |= set(x['i'] for x in walk(s))
        none_path = c.path_avoiding((c.entry, -1), ids, 'exit')
        twice = False
        for s in pts:
            pos = c.position(s)
            # last element of the statement
            lastpos = max((c.pos[x['i']] for x in walk(s) if x['i'] in c.pos and c.pos[x['i']][0] == pos[0]),
                          default=pos)
            others = set()
            for s2 in pts:
                others |= set(x['i'] for x in walk(s2))
            own = set(x['i'] for x in walk(s))
            if in_loop(f, s):
                twice = True
            if c.path_avoiding(lastpos, set(), others - own) is not None and (others - own):
                twice = True
        ok = none_path is None and not twice and bool(pts)
        exactly_once[fid] = ok
        ctx.ob('C05.R1.exactly-once', short(f.name), ok,
               'every path through %s prints exactly one bestmove (no path without, none with two, not in a loop)' % f.name,
               site=f.loc(), detail={'path_without_answer': none_path})

    # ---- R2 sentinel cannot reach the sink ---------------------------------------------
    go = p.fn('engine::Search::go')
    sink = None
    for n in site_funcs.get(go.id, []):
        stmt = enclosing_full_stmt(go, n)
        for x in walk(stmt):
            if x.get('callee', {}).get('n') == 'engine::Position::uci':
                arg = strip_casts(kids(x)[-1])
                if arg.get('ref', {}).get('k') == 'Field':
                    sink = (x, arg)
    if sink is None:
        raise AnalysisBroken('bestmove sink: argument of Position::uci in Search::go is not a field read')
    fld = sink[1]['ref']['n']
    ctx.info['bestmove_field'] = fld
    sent = p.val('engine::NO_MOVE')
    writers = {}
    for f, n, k in p.field_accesses(*fld.rsplit('::', 1)):
        if k in ('write', 'rmw'):
            writers.setdefault(f.id, []).append(n)
        if k == 'addr':
            raise AnalysisBroken('address of %s taken in %s' % (fld, f.name))
    ctx.floor('C05.R2.defs', sum(len(v) for v in writers.values()), 2, 'definitions of the answer field')

    def may_write(fid, seen=None):
        seen = seen or set()
        if fid in seen or fid not in p.funcs:
            return False
        seen.add(fid)
        if fid in writers:
            return True
        return any(may_write(c, seen) for c in p.callees(p.funcs[fid]))

    memo = {}

    def summarize(fid, st_in, depth=0):
        key = (fid, st_in)
        if key in memo:
            return memo[key]
        memo[key] = frozenset([st_in])  # recursion guard
        f = p.funcs[fid]

        def transfer(fn, n, st):
            r = n.get('ref')
            if n['k'] in ('BinaryOperator', 'CXXOperatorCallExpr') and n.get('op') == '=':
                lhs = strip_casts(kids(n)[0] if n['k'] == 'BinaryOperator' else kids(n)[1])
                if lhs.get('ref', {}).get('n') == fld:
                    rhs = strip_conv(kids(n)[-1])
                    cv = const_of(rhs)
                    if cv is not None:
                        return ['S' if cv == sent else 'N']
                    if rhs.get('ref', {}).get('n') == fld:
                        return [st]
                    return ['N']
            c = n.get('callee')
            if c and c['fid'] in p.funcs and c['fid'] != fid and may_write(c['fid']):
                return list(summarize(c['fid'], st, depth + 1))
            return [st]

        def refine(fn, cond, truth, st):
            c = strip_casts(cond)
            if c['k'] == 'BinaryOperator' and c.get('op') in ('==', '!='):
                a, b = [strip_casts(x) for x in kids(c)]
                for x, y in ((a, b), (b, a)):
                    if x.get('ref', {}).get('n') == fld and const_of(y) == sent:
                        is_sent = truth if c['op'] == '==' else not truth
                        if is_sent and st == 'N':
                            return None
                        if not is_sent and st == 'S':
                            return None
                        return 'S' if is_sent else 'N'
            # A-ROOT: the root move list is non-empty (quantifier: position has a legal move)
            if c.get('callee', {}).get('n', '').endswith('::empty') and 'root' in _obj_name(c):
                if truth:
                    return None
            if c['k'] == 'BinaryOperator' and c.get('op') in ('>', '!=', '==', '<=', '<', '>='):
                a, b = [strip_casts(x) for x in kids(c)]
                if a.get('callee', {}).get('n', '').endswith('::size') and 'root' in _obj_name(a) and const_of(b) == 0:
                    nonempty = {'>': True, '!=': True, '==': False, '<=': False}.get(c['op'])
                    if nonempty is not None and truth != nonempty:
                        return None
            return st

        at, exits = flow.run(f, [st_in], transfer, refine)
        memo[key] = exits
        memo[(fid, st_in, 'at')] = at
        return exits

    init_states = set()
    for f, n, k in p.field_accesses(*fld.rsplit('::', 1)):
        if k == 'ctorinit':
            cv = const_of(strip_conv(n))
            init_states.add('S' if cv == sent else 'N')
    if not init_states:
        init_states = {'S'}
    bad = False
    for s0 in init_states:
        summarize(go.id, s0)
        at = memo[(go.id, s0, 'at')]
        if 'S' in at.get(sink[1]['i'], frozenset()) or not at.get(sink[1]['i']):
            bad = True
    ctx.ob('C05.R2.sentinel', short(fld), not bad,
           'NO_MOVE (the initial value of %s) cannot reach the move printed after "bestmove" on any path '
           'through go() and the functions that define the field (stop flag treated as unknown at every read)' % fld,
           site=go.loc(sink[0]))
    ctx.assume('A-ROOT: the root move list is non-empty (the property quantifies over positions with a legal move; searchmoves lists are non-empty)')

    # ---- R3 table move only after membership test ---------------------------------------
    tt_field = 'engine::tt::TTEntry::move'
    n_reads = 0
    for f in p.repo_funcs('engine/'):
        reads = []
        for n in f.all_nodes():
            r = n.get('ref')
            if r and r['k'] == 'Field' and r['n'] == tt_field and access_kind(f, n) == 'read':
                reads.append(n)
        if not reads:
            continue
        ctx.analysed(f)
        tainted = {}      # local id -> source read
        uses = [(n, n) for n in reads]
        done = set()
        while uses:
            use, src = uses.pop()
            if use['i'] in done:
                continue
            done.add(use['i'])
            n_reads += 1
            verdict, why = _classify_use(p, f, use)
            if verdict == 'local':
                vid = why
                if vid not in tainted:
                    tainted[vid] = src
                    for x in f.all_nodes():
                        rr = x.get('ref')
                        if rr and rr.get('id') == vid and rr['k'] in ('Local',) and access_kind(f, x) == 'read':
                            uses.append((x, src))
                n_reads -= 1
                continue
            ok = verdict == 'harmless'
            if verdict == 'sensitive':
                ok = _guarded_by_membership(p, f, use, src)
            ctx.ob('C05.R3.table-move-guarded', '%s:%s' % (short(f.name), why), ok,
                   'use of a transposition-table move (%s) is an equality comparison / std::find operand, or is '
                   'control-dependent on std::find(begin,end,<that move>) != end over the node\'s move list' % why,
                   site=f.loc(use))
    ctx.floor('C05.R3.table-move-guarded', n_reads, 3, 'uses of TTEntry::move')
    # constructor writers of the field: only TTEntry's constructors
    for f, n, k in p.field_accesses('engine::tt::TTEntry', 'move'):
        if k in ('write', 'rmw', 'addr'):
            ctx.ob('C05.R3.table-move-writers', short(f.name), False,
                   'TTEntry::move is written outside its constructor', site=f.loc(n))

    # ---- R4 PV writers and origin -------------------------------------------------------
    pv_helpers = {'engine::clear_pv_list', 'engine::set_new_pv_list', 'engine::add_new_move_to_pv_list'}
    n_pvw = 0
    for fld4 in ('_pv_list', '_pv_list_length'):
        for f, n, k in p.field_accesses('engine::Info', fld4):
            if k in ('write', 'rmw', 'addr') or (k == 'call'):
                n_pvw += 1
                ok = f.name in pv_helpers or (k == 'ctorinit')
                if not ok and fld4 == '_pv_list_length' and k == 'write':
                    wv_ = written_value(f, n)
                    if wv_ is not None and const_of(strip_casts(wv_)) == 0:
                        ok = True           # emptying a PV in place puts no move into it
                if not ok and p.is_new_function(f):
                    raise AnalysisBroken('C05: %s, a function the reference tree did not have, writes Info::%s; where its moves come '
                                         'from is decided for the three PV helpers only' % (short(f.name), fld4))
                ctx.ob('C05.R4.pv-writers', '%s:%s' % (short(f.name), fld4), ok,
                       'Info::%s is written only by clear_pv_list/set_new_pv_list/add_new_move_to_pv_list' % fld4,
                       site=f.loc(n))
    ctx.floor('C05.R4.pv-writers', n_pvw, 4, 'PV writes')
    n_pvc = 0
    for hname, argi in (('engine::set_new_pv_list', 1), ('engine::add_new_move_to_pv_list', 1)):
        for f, call in p.callers_of(hname):
            n_pvc += 1
            arg = strip_casts(kids(call)[1 + argi])
            ok, why = _from_node_list(p, f, arg, call)
            ctx.ob('C05.R4.pv-origin', '%s:%s' % (short(f.name), why), ok,
                   'move put into the PV is an element of the node\'s own move list (begin[k]) or the guarded table move',
                   site=f.loc(call))
    ctx.floor('C05.R4.pv-origin', n_pvc, 4, 'PV helper call sites')
    # the line appended behind the move is the one the child search wrote: the frame handed to every recursive call of the
    # function is the frame whose PV is spliced in, and the destination is the function's own frame
    from rules.norm import Norm as _Nc
    n_cf = 0
    for f, call in p.callers_of('engine::add_new_move_to_pv_list'):
        pinfo = [q for q in f.params if 'Info' in (q.get('type') or '') or q['name'] == 'info']
        if not pinfo:
            raise AnalysisBroken('C05: %s splices a child PV but has no frame parameter' % short(f.name))
        nc = _Nc(f, keep=tuple(q['name'] for q in pinfo))
        dest, src = nc.s(kids(call)[1]), nc.s(kids(call)[3])
        made = [n for n, cfid, nm in f.calls() if nm in ('engine::Position::do_move', 'engine::Position::do_null_move')]
        rec, same = set(), set()
        for n, cfid, nm in f.calls():
            if nm in ('engine::Search::search', 'engine::Search::quiescence_search'):
                # a call behind a made move searches a child; one on the node's own position is a hand-off (depth 0)
                child = any(f.cfg.node_dominates(m_, n) for m_ in made)
                (rec if child else same).add(nc.s(kids(n)[-1]))
        n_cf += 1
        if not rec:
            raise AnalysisBroken('C05: %s splices a child PV but makes no recursive search call behind a made move in its own body '
                                 '(through a helper or a lambda?)' % short(f.name))
        ctx.ob('C05.R4.pv-child-frame', short(f.name),
               dest == pinfo[0]['name'] and sorted(rec) == [src] and src != dest and same <= {dest},
               'the PV spliced behind a move is read from the frame every child search was given (child calls: %s, same-node calls: %s, '
               'spliced: %s -> %s)' % (sorted(rec), sorted(same), src, dest),
               site=f.loc(call))
    ctx.floor('C05.R4.pv-child-frame', n_cf, 2, 'PV splices')

    # every activation of a recursive search function defines its own PV before any return: the parent
    # appends the child's PV (info + 1) after the call, so a path that returns without touching the frame's
    # PV would splice in moves left over from an unrelated line
    from rules.common import sccs
    comps = sccs(p, t_search)
    n_pvd = 0
    for fid in sorted(set().union(*comps) if comps else []):
        f = p.funcs[fid]
        pinfo = [q for q in f.params if q['name'] == 'info']
        if not pinfo:
            continue
        own = set()
        for n, cfid, nm in f.calls():
            if nm in pv_helpers:
                a = strip_casts(kids(n)[1])
                if a.get('ref', {}).get('id') == pinfo[0]['id']:
                    own.add(n['i'])
        c = f.cfg
        path = c.path_avoiding((c.entry, -1), own, 'exit') if own else [c.entry]
        n_pvd += 1
        ctx.ob('C05.R4.pv-defined', short(f.name), path is None,
               'every path through %s (including early returns for draws, stops and cut-offs) first (re)defines this frame\'s PV' % short(f.name),
               site=f.loc(), detail={'path_blocks_without_pv_write': path})
    ctx.floor('C05.R4.pv-defined', n_pvd, 2, 'recursive search functions with a frame')

    # ---- R4a the root PV that is answered is the one the root search wrote -------------------------------
    from rules.norm import Norm as _Nf
    itf = p.fn('engine::Search::iter_search')
    ctx.analysed(itf)
    nf_ = _Nf(itf, keep=('info',))
    roots_ = [n for n, cfid, nm in itf.calls() if nm == 'engine::Search::search']
    frames_ = sorted({nf_.s(kids(c_)[-1]) for c_ in roots_})
    bm_ = [n for n in itf.all_nodes() if n['k'] == 'BinaryOperator' and n.get('op') == '=' and nf_.s(kids(n)[0]) == '_best_move' and
           '_pv_list' in nf_.s(kids(n)[1])]
    pi_ = [n for n, cfid, nm in itf.calls() if nm == 'engine::Search::print_info']
    if not roots_ or not bm_:
        raise AnalysisBroken('C05: the root search call / the assignment of _best_move from a PV were not found in iter_search')
    src_ = sorted({re.sub(r'\._pv_list(\[0\]|\.front\(\)|\.at\(0\))$', '', nf_.s(kids(n)[1])) for n in bm_} | {nf_.s(kids(c_)[-1]) for c_ in pi_})
    ctx.ob('C05.R4.root-pv-frame', 'iter_search', len(frames_) == 1 and src_ == frames_,
           'the move answered and the PV printed are read from the frame the root search was given (search: %s, read: %s)' % (frames_, src_),
           site=itf.loc(bm_[0]))

    # ---- R4b the PV is printed from the positions it passes through ------------------------------------
    # Position::uci(m) renders castling from the side to move of the position asked, so the k-th PV move has to be formatted
    # by the root position advanced through the k moves before it.
    from rules.norm import Norm
    n_pp = 0
    for fid in sorted(t_search):
        f = p.funcs[fid]
        if f.body is None:
            continue
        nmf = Norm(f)
        for n, cfid, nm in f.calls():
            if nm != 'engine::Position::uci':
                continue
            arg = nmf.s(kids(n)[1])
            rng = None
            if '_pv_list' not in arg:
                # the loop variable of a range-for over the PV
                a0 = strip_casts(kids(n)[1])
                for lp_ in [a for a in f.ancestors(n) if a['k'] == 'CXXForRangeStmt']:
                    lv = [x for x in walk(lp_) if x['k'] == 'VarDecl' and not (x.get('name') or '').startswith('__')]
                    rv = [x for x in walk(lp_) if x['k'] == 'VarDecl' and (x.get('name') or '').startswith('__range')]
                    if lv and rv and (a0.get('ref') or {}).get('id') == lv[0]['id'] and kids(rv[0]) and '_pv_list' in nmf.s(kids(rv[0])[0]):
                        rng = (lp_, nmf.s(kids(rv[0])[0]), lv[0]['name'])
                if rng is None:
                    continue
            n_pp += 1
            obj = strip_casts(kids(kids(n)[0])[0]) if kids(kids(n)[0]) else None
            r = (obj or {}).get('ref', {})
            ok, why = False, ''
            if rng is None and '_pv_list[' in arg:
                idx = arg.split('_pv_list[', 1)[1].rsplit(']', 1)[0]
                if idx == '0' and obj is not None and short(obj.get('ref', {}).get('n', '')) == '_position':
                    ctx.ob('C05.R4.pv-print', '%s:%s' % (short(f.name), arg), True,
                           'the first PV move is formatted by the root position', site=f.loc(n))
                    continue
            loops = [a for a in f.ancestors(n) if a['k'] in ('ForStmt', 'CXXForRangeStmt')]
            if not loops:
                why = 'not inside a loop over the PV'
            elif r.get('k') != 'Local':
                why = 'formatted by %s, which is not a local copy advanced along the PV' % (nmf.s(obj) if obj is not None else '?')
            else:
                lp = loops[0]
                if lp['k'] == 'ForStmt':
                    cf_ = counting_for(f, lp)
                    iv = next((x['name'] for x in f.all_nodes() if x['k'] == 'VarDecl' and cf_ and x.get('id') == cf_[0]), None)
                    whole = cf_ is not None and for_init_const(lp) == 0 and '_pv_list[' in arg and arg.split('_pv_list[', 1)[1].rsplit(']', 1)[0] == iv and \
                        '_pv_list_length' in nmf.s(cf_[1]) and cf_[2] == '<'
                else:
                    whole = rng is not None and lp is rng[0] and '_pv_list_length' in rng[1] and ('_pv_list.data()' in rng[1] or '_pv_list.begin()' in rng[1])
                # the copy starts as the position the PV starts from: the root for the root's PV, the node's own position for a node's
                init_ok = any(x['k'] == 'VarDecl' and x.get('id') == r['id'] and kids(x) and nmf.s(kids(x)[0]) in ('_position', 'position') and
                              not f.inside(x, lp) for x in f.all_nodes())
                argk = Norm(f, inline=False).s(kids(n)[1])
                adv = [m for m, c2, nm2 in f.calls() if nm2 == 'engine::Position::do_move' and f.inside(m, lp) and
                       kids(kids(m)[0]) and strip_casts(kids(kids(m)[0])[0]).get('ref', {}).get('id') == r['id'] and
                       (nmf.s(kids(m)[1]) == arg or Norm(f, inline=False).s(kids(m)[1]) == argk)]
                others = [m for m, c2, nm2 in f.calls() if f.inside(m, lp) and m is not n and m not in adv and
                          kids(m) and kids(kids(m)[0]) and strip_casts(kids(kids(m)[0])[0]).get('ref', {}).get('id') == r['id'] and
                          not (m.get('callee') or {}).get('const')]
                after = bool(adv) and all(f.cfg.node_postdominates(m, n) or f.cfg.node_dominates(n, m) for m in adv[:1]) and \
                    f.cfg.node_dominates(n, adv[0])
                ok = bool(whole and init_ok and after and not others)
                why = 'whole PV in order: %s; copy of the root: %s; advanced by do_move of the same move after formatting it: %s; other mutations: %d' % (
                    whole, init_ok, after, len(others))
            ctx.ob('C05.R4.pv-print', '%s:%s' % (short(f.name), arg), ok,
                   'the k-th PV move is formatted by a copy of the root position that has been advanced through the k moves before it (%s)'
                   % why, site=f.loc(n))
    ctx.floor('C05.R4.pv-print', n_pp, 1, 'PV moves converted to text')

    # ---- R5 ordering only permutes ------------------------------------------------------
    om = p.fn('engine::MoveOrderer::order_moves')
    ctx.analysed(om)
    bp = [q for q in om.params if q['name'] in ('begin', 'end')]
    if len(bp) != 2:
        raise AnalysisBroken('order_moves(begin,end) parameters not found')
    ids = {q['id']: q['name'] for q in bp}
    n_sw = 0
    for n in om.all_nodes():
        r = n.get('ref')
        if not r or r.get('id') not in ids or r['k'] != 'Parm':
            continue
        k = _ptr_use(om, n)
        if k == 'read':
            continue
        if k == 'swap':
            n_sw += 1
            continue
        ctx.ob('C05.R5.permutation', 'order_moves:%s' % ids[r['id']], False,
               'the move list is modified other than by std::swap of two of its elements (%s)' % k,
               site=om.loc(n))
    ctx.ob('C05.R5.permutation', 'order_moves', n_sw % 2 == 0,
           'order_moves writes the list only by swapping two of its elements (std::swap / std::iter_swap; %d operands)' % n_sw,
           site=om.loc())
    # swap indices bounded by n_moves: both operands are begin[<loop var>] of counting loops < n_moves
    # (bounds themselves are C10's obligation)

    # ---- R6 no non-returning construct in the search thread -----------------------------
    n_nr = 0
    for fid in sorted(t_search):
        f = p.funcs[fid]
        for n, cfid, nm in f.calls():
            if short(nm) in NORETURN and not nm.startswith('engine::'):
                n_nr += 1
                ctx.ob('C05.R6.no-noreturn', '%s:%s' % (short(f.name), short(nm)), False,
                       'call to %s reachable from the search thread can skip the answer' % nm, site=f.loc(n))
        for n in f.all_nodes():
            if n['k'] == 'CXXThrowExpr':
                n_nr += 1
                ctx.ob('C05.R6.no-noreturn', '%s:throw' % short(f.name), False,
                       'throw reachable from the search thread', site=f.loc(n))
    ctx.ob('C05.R6.no-noreturn', 'search-thread', n_nr == 0,
           'no exit/abort/terminate/throw in the %d functions reachable from %s' % (len(t_search), entry.name),
           site=entry.loc())
    # ---- R7 the answer comes: a stop that arrived is not lost (C06.R2), so a search without a limit of its own still ends ---------
    from rules.common import SubCtx as _SC6
    import props.C06 as c06
    sub6 = _SC6(ctx)
    c06.check(sub6)
    bad6 = [r for r in sub6.results if not r[2] and (r[0].startswith('C06.R2') or r[0].startswith('C06.R3') or r[0].startswith('C06.R0'))]
    ctx.ob('C05.R7.stop-ends-the-search', 'stop flag', not bad6,
           'exactly one bestmove needs the search to end: a stop is never overwritten and is polled on every node visit (C06.R0/R2/R3)%s'
           % ('' if not bad6 else ' — refuted: ' + '; '.join('%s %s at %s' % (r[0], r[1], r[4]) for r in bad6[:3])),
           site=bad6[0][4] if bad6 else 'engine/search.cpp')
    # ---- R8 the position the answer is formatted from is the root position: every move the search makes on it is taken back ------
    import props.C03 as c03
    sub3 = _SC6(ctx)
    c03.check(sub3)
    bad3 = [r for r in sub3.results if not r[2] and r[0].startswith('C03.R3')]
    ctx.ob('C05.R8.root-position-restored', 'search thread', not bad3,
           'bestmove and the PV are rendered by the searcher\'s own position, which is the root position again when the search returns: '
           'every do_move on it is paired with its undo_move on every path, stops included (C03.R3)%s'
           % ('' if not bad3 else ' — refuted: ' + '; '.join('%s %s at %s' % (r[0], r[1], r[4]) for r in bad3[:3])),
           site=bad3[0][4] if bad3 else 'engine/search.cpp')
    ctx.note('not decided: legality of the generated list (C01), of GUI-supplied searchmoves, and timing')


def _obj_name(call):
    """name of the object a member call is made on"""
    for x in walk(call):
        r = x.get('ref')
        if r and r['k'] in ('Field', 'Local', 'Parm', 'Global'):
            return r['n']
    return ''


def _classify_use(p, f, n, _depth=0):
    """how the value read at n is consumed"""
    cur = n
    while True:
        par = f.parent(cur)
        if par is None:
            return 'sensitive', 'unknown'
        k = par['k']
        if k in ('ImplicitCastExpr', 'ParenExpr'):
            cur = par
            continue
        if k == 'BinaryOperator' and par.get('op') in ('==', '!='):
            return 'harmless', 'compare'
        if k == 'VarDecl':
            return 'local', par['id']
        if k == 'BinaryOperator' and par.get('op') == '=' and kids(par)[1] is cur:
            lhs = strip_casts(kids(par)[0])
            r = lhs.get('ref', {})
            if r.get('k') == 'Local':
                return 'local', r['id']
            return 'sensitive', 'store:' + short(r.get('n', '?'))
        if k == 'ConditionalOperator':
            cur = par
            continue
        if k in ('CallExpr', 'CXXMemberCallExpr', 'CXXOperatorCallExpr', 'CXXConstructExpr'):
            nm = par.get('callee', {}).get('n', '?')
            if nm == 'std::find':
                args = kids(par)[1:]
                if len(args) == 3 and args[2] is cur:
                    return 'harmless', 'find-operand'
            h = p.funcs.get(par.get('callee', {}).get('fid'))
            if h is not None and h.body is not None and p.is_new_function(h) and k == 'CallExpr' and _depth < 3:
                # a helper the reference tree did not have: what does it do with this argument?
                args = kids(par)[1:]
                pos = next((i for i, a in enumerate(args) if a is cur), None)
                if pos is not None and pos < len(h.params):
                    pid = h.params[pos]['id']
                    inner = [x for x in h.all_nodes() if x.get('ref', {}).get('k') == 'Parm' and x['ref'].get('id') == pid]
                    verdicts = [_classify_use(p, h, x, _depth + 1)[0] for x in inner]
                    if inner and all(v == 'harmless' for v in verdicts):
                        return 'harmless', 'helper-compare'
            return 'sensitive', 'arg:' + short(nm)
        if k == 'ReturnStmt':
            return 'sensitive', 'return'
        if k == 'LambdaExpr' and _depth < 3:
            # captured by a lambda: what its body does with the captured variable
            name_ = (strip_casts(cur).get('ref') or {}).get('n')
            g = p.funcs.get(par.get('lambda'))
            if g is None and '@' in (par.get('lambda') or ''):
                lid = par['lambda']
                pre, at_ = lid.split('operator()', 1)[0], lid.rsplit('@', 1)[1]
                inst = [h for k_, h in p.funcs.items() if k_.startswith(pre + 'operator()') and k_.endswith('@' + at_) and h.body is not None]
                g = inst[0] if len(inst) == 1 else None
            if g is not None and g.body is not None and name_:
                inner = [x for x in g.all_nodes() if x['k'] == 'DeclRefExpr' and (x.get('ref') or {}).get('n') == name_]
                verdicts = [_classify_use(p, g, x, _depth + 1)[0] for x in inner]
                if all(v == 'harmless' for v in verdicts):
                    return 'harmless', 'lambda-capture'
            raise AnalysisBroken('C05: a transposition-table move is captured by the lambda at %s; what the lambda does with it is not '
                                 'followed' % f.loc(par))
        return 'sensitive', k


def _membership_tests(f, cond):
    """[(found_when_true, first, last, element, other side, operand nodes in f)] for a condition that is — directly or through a
    helper the reference tree did not have — `std::find(first, last, element) ==/!= <other>`"""
    from rules.norm import Norm
    nm = Norm(f, inline=False)
    m = nm.resolve(cond)
    ex = nm.expand(m)
    sub, e = ex if ex is not None else (nm, m)
    e = sub.resolve(e)
    out = []
    if e is None or e['k'] not in ('BinaryOperator', 'CXXOperatorCallExpr') or e.get('op') not in ('!=', '=='):
        return out
    ks = kids(e) if e['k'] == 'BinaryOperator' else kids(e)[1:]
    a, b = [sub.resolve(x) for x in ks]
    for x, y in ((a, b), (b, a)):
        if x.get('callee', {}).get('n') == 'std::find':
            args = kids(x)[1:]
            if len(args) != 3:
                continue
            ops = kids(m)[1:] if ex is not None else list(args)
            out.append((e['op'] == '!=', sub.s(args[0]), sub.s(args[1]), sub.s(args[2]), sub.s(y), ops, x if ex is None else m))
    return out


def _guarded_by_membership(p, f, use, src):
    from rules.norm import Norm
    key = Norm(f, inline=False).s(src)
    for cond, truth in guard_facts(f, use):
        for found_when_true, first, last, elem, other, ops, anchor in _membership_tests(f, cond):
            found = truth if found_when_true else not truth
            if not found or elem != key or last != other:
                continue
            # the operands must not be redefined between the test and the use
            stable = True
            vids = set()
            for o in ops:
                vids |= base_locals(o)
            for vid in vids:
                for w in local_writes(f, vid):
                    cg = f.cfg
                    if cg.path_avoiding(cg.position(anchor), set(), {w['i']}) is not None and \
                            cg.path_avoiding(cg.position(w), set(), {use['i']}) is not None:
                        stable = False
            if stable:
                return True
    return False


def _from_node_list(p, f, arg, call):
    """is `arg` (a move expression) drawn from the node's own list"""
    arg = strip_casts(arg)
    r = arg.get('ref', {})
    if r.get('k') == 'Field' and r.get('n') == 'engine::tt::TTEntry::move':
        return _guarded_by_membership(p, f, arg, arg), 'table-move'
    if r.get('k') in ('Local',):
        # every definition of the local must be begin[...] / *it over the list / another such local
        vid = r['id']
        defs = []
        for n in f.all_nodes():
            if n['k'] == 'VarDecl' and n.get('id') == vid and kids(n):
                defs.append(kids(n)[0])
        for w in local_writes(f, vid):
            v = written_value(f, w)
            if v is not None:
                defs.append(v)
        if not defs:
            return False, 'undefined-local'
        for d in defs:
            d = strip_casts(d)
            if const_of(d) == 0:
                # NO_MOVE initialiser: the use must be guarded by != NO_MOVE or overwritten; accept only if
                # the call is not reachable with the initial value: checked by requiring a dominating non-constant def
                # or a guard fact `local != NO_MOVE`
                ok = False
                for cond, truth in guard_facts(f, call):
                    c = strip_casts(cond)
                    if c['k'] == 'BinaryOperator' and c.get('op') in ('==', '!='):
                        a, b = [strip_casts(x) for x in kids(c)]
                        for x, y in ((a, b), (b, a)):
                            if x.get('ref', {}).get('id') == vid and const_of(y) == 0:
                                if (c['op'] == '!=') == truth:
                                    ok = True
                # or the sentinel def is killed by a non-sentinel def on every path to the call
                if not ok:
                    others = [w for w in local_writes(f, vid) if const_of(strip_casts(written_value(f, w) or {})) != 0]
                    ok = any(f.cfg.node_dominates(w, call) for w in others)
                if not ok:
                    return False, 'sentinel-local'
                continue
            ok, why = _from_node_list(p, f, d, call)
            if not ok:
                return False, why
        return True, 'list-local'
    if arg['k'] == 'ArraySubscriptExpr':
        base = strip_casts(kids(arg)[0])
        if base.get('ref', {}).get('k') in ('Local', 'Parm') and short(base['ref']['n']) in ('begin',):
            if not _index_in_list(f, arg, base):
                return False, 'begin[k]: k not shown to lie in [0, end - begin)'
            return True, 'begin[k]'
    if arg['k'] == 'UnaryOperator' and arg.get('op') == '*':
        return True, '*it'
    if r.get('k') == 'Parm':
        return True, 'param'  # helper-to-helper forwarding (checked at the outer call site)
    raise AnalysisBroken('C05: the move written into the PV at %s comes from `%s`, a form the rule cannot trace to the node\'s move list'
                         % (f.loc(call), canon(f, arg, inline=False)[:80]))


def _index_in_list(f, sub, base):
    """begin[k]: k is a counter that stays below end - begin of the same list, or 0 where the list is known to be non-empty.
    The slots from `end` on hold moves of other positions (the per-ply buffers are reused), so an index equal to the count
    hands the search a move that was never generated here."""
    from rules.effects import canon
    idx = strip_casts(kids(sub)[1])
    bn = short(base['ref']['n'])

    def is_count(e, minus1=False):
        e = strip_casts(e)
        r = e.get('ref', {})
        if r.get('k') == 'Local':
            d0 = single_def(f, r['id'])
            if d0 is not None:
                return is_count(d0, minus1)
        s = canon(f, e, inline=False).replace(' ', '').replace('static_cast<int>', '')
        core = r'\(?end-%s\)?' % re.escape(bn)
        if minus1:
            return re.fullmatch(r'\(?%s-1\)?' % core, s) is not None
        return re.fullmatch(core, s) is not None

    cv = const_of(idx)
    if cv is not None:
        if cv != 0:
            return False
        for cond, truth in guard_facts(f, sub):
            c = strip_casts(cond)
            if c['k'] == 'BinaryOperator' and c.get('op') in ('==', '!='):
                a, b = kids(c)
                for x, y in ((a, b), (b, a)):
                    if const_of(strip_casts(y)) == 0 and is_count(x) and (c['op'] == '!=') == truth:
                        return True
            if c['k'] == 'BinaryOperator' and c.get('op') in ('>', '<'):
                a, b = kids(c)
                x, y = (a, b) if c['op'] == '>' else (b, a)
                if const_of(strip_casts(y)) == 0 and is_count(x) and truth:
                    return True
        return False
    iid = idx.get('ref', {}).get('id')
    if iid is None:
        return False
    for a in f.ancestors(sub):
        if a['k'] == 'ForStmt':
            cf = counting_for(f, a)
            if cf and cf[0] == iid:
                ini = for_init_const(a)
                if ini is None or ini < 0:
                    return False
                if cf[2] in ('<', '!='):
                    return is_count(cf[1])
                return cf[2] == '<=' and is_count(cf[1], True)
    return False


def _ptr_use(f, n):
    """how the pointer parameter at n is used: read / swap / other write"""
    cur = n
    while True:
        par = f.parent(cur)
        if par is None:
            return 'read'
        k = par['k']
        if k in ('ImplicitCastExpr', 'ParenExpr'):
            cur = par
            continue
        if k == 'ArraySubscriptExpr' or (k == 'UnaryOperator' and par.get('op') == '*'):
            # element access: how is the element used
            e = par
            pp = f.parent(e)
            while pp and pp['k'] in ('ImplicitCastExpr', 'ParenExpr'):
                e, pp = pp, f.parent(pp)
            if pp and pp.get('callee', {}).get('n') == 'std::swap':
                return 'swap'
            ak = access_kind(f, par)
            return 'read' if ak == 'read' else 'elem-' + ak
        if k == 'BinaryOperator' and par.get('op') in ('-', '+', '!=', '==', '<'):
            if par.get('op') in ('+', '-'):
                cur = par
                continue
            return 'read'
        cn_ = (par.get('callee') or {}).get('n', '') if k == 'CallExpr' else ''
        if cn_.startswith('std::'):
            sn_ = short(cn_)
            pos_ = next((i for i, a in enumerate(kids(par)[1:]) if a is cur), None)
            if sn_ == 'iter_swap':
                return 'swap'
            if sn_ in ('max_element', 'min_element', 'find', 'find_if', 'count', 'count_if', 'distance', 'any_of', 'all_of', 'none_of',
                       'accumulate', 'for_each_n') or (sn_ == 'transform' and pos_ in (0, 1)):
                return 'read'
            raise AnalysisBroken('C05: the move list is handed to %s at %s; whether that only permutes it is not something the rule knows'
                                 % (cn_, f.loc(par)))
        ak = access_kind(f, cur)
        return 'read' if ak == 'read' else ak
