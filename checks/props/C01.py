"""C01 — legal move generation is exact.

Partial: exactness over ~10^44 positions is a semantic statement about chess.
Decided are structural necessary conditions, each of which, when broken,
makes the generator wrong for a non-empty class of legal positions:
M1 move-category x pin-partition matrix (every pawn move category is handled
for unpinned and for pinned pawns where the rules allow it, incl. en passant);
M2 evasion-mask discipline; M3 castling preconditions and path tables;
M4 colour genericity: mirror pairs and shift/offset agreement;
M5 attacker-kind cover of the check/forbidden-square routines;
M6 plumbing: dispatch by colour, perft driver, list discipline."""
import re

from facts import AnalysisBroken
from prog import walk, kids, short, access_kind
from rules.common import strip_casts, const_of, guard_facts, written_value, local_writes
from rules.effects import canon, single_def

LEVEL = 'other'
EXPLANATION = ('Partial: six families of structural necessary conditions of exactness over the seven colour-generic '
               'generators (both instantiations). That the bitboard expressions yield exactly the legal target squares '
               'in every position rests on C11 for the tables and is otherwise not decided; duplicates are not decided.')
M64 = (1 << 64) - 1


def flipv(bb):
    out = 0
    for r in range(8):
        out |= ((bb >> (8 * r)) & 0xFF) << (8 * (7 - r))
    return out


def emissions(f, _depth=0):
    """[(site node in f, creator name, [arg nodes])] for every  *list++ = create_*(...)  of f, including those made by a
    helper the reference tree did not have (an extracted emitter): its emissions are attributed to the call site and its
    arguments are rewritten in terms of the caller (parameters replaced by the actual arguments, its single-definition locals
    by their definitions)"""
    out = []
    for n in f.all_nodes():
        if n['k'] == 'BinaryOperator' and n.get('op') == '=':
            lhs, rhs = kids(n)
            l = strip_casts(lhs)
            if l['k'] == 'UnaryOperator' and l.get('op') == '*':
                inner = strip_casts(kids(l)[0])
                if inner['k'] == 'UnaryOperator' and inner.get('op') == '++':
                    r = strip_casts(rhs)
                    nm = short(r.get('callee', {}).get('n', ''))
                    if nm.startswith('create_'):
                        out.append((n, nm, kids(r)[1:]))
    prog_ = f.prog
    if _depth < 3:
        for n, cfid, nm in list(f.calls()):
            h = prog_.funcs.get(cfid)
            if h is None or h.body is None or not prog_.is_new_function(h) or not h.file.startswith(prog_.root):
                continue
            sub = emissions(h, _depth + 1)
            if not sub:
                continue
            actual = kids(n)[1:]
            if len(actual) != len(h.params):
                raise AnalysisBroken('C01: call of emitting helper %s not understood' % h.name)
            pmap = {q['id']: a for q, a in zip(h.params, actual)}
            for em_h, creator, args_h in sub:
                if guard_facts(h, em_h):
                    raise AnalysisBroken('C01: helper %s emits moves conditionally; not understood' % h.name)
                out.append((n, creator, [_transplant(h, a, pmap) for a in args_h]))
    return out


_SYN = [0]


def _transplant(h, node, pmap, depth=0):
    """copy of an expression of helper h rewritten for the caller"""
    if node is None:
        return None
    r = node.get('ref')
    if r and r['k'] == 'Parm' and r.get('id') in pmap:
        return pmap[r['id']]
    if r and r['k'] == 'Local' and depth < 6:
        d = single_def(h, r['id'])
        if d is None:
            raise AnalysisBroken('C01: helper %s uses a local with several definitions in an emitted move' % h.name)
        return _transplant(h, d, pmap, depth + 1)
    _SYN[0] -= 1
    c = dict(node)
    c['i'] = _SYN[0]
    if node.get('ch'):
        c['ch'] = [_transplant(h, x, pmap, depth) if x else x for x in node['ch']]
    return c


def loop_source(f, em):
    """for an emission inside FOR_EACH_BIT: the expression that last defined the scanned bitboard before the loop"""
    loops = [a for a in f.ancestors(em) if a['k'] == 'WhileStmt']
    if not loops:
        return None, None
    lp = loops[0]
    c = strip_casts(kids(lp)[0])
    vid = c.get('ref', {}).get('id')
    if vid is None:
        return lp, None
    # latest definition that dominates the loop and is not followed by another definition before it
    cands = []
    for n in f.all_nodes():
        if n['k'] == 'VarDecl' and n.get('id') == vid and kids(n):
            cands.append((n, kids(n)[0], f.parent(n)))
    for w in local_writes(f, vid):
        v = written_value(f, w)
        par = f.parent(w)
        if v is not None and par.get('op') == '=':
            cands.append((w, v, par))
    best = None
    for n, v, stmt in cands:
        if f.inside(n, lp):
            continue
        if not f.cfg.node_dominates(stmt, kids(lp)[0]):
            continue
        if best is None or f.cfg.node_dominates(best[2], stmt):
            best = (n, v, stmt)
    return lp, (best[1] if best else None)


def mask_under_shift(f, n, under, seen):
    """names of evasion masks referenced inside the argument of a shift, following single-definition locals"""
    out = []
    n = strip_casts(n)
    if n is None or n['i'] in seen:
        return out
    r = n.get('ref')
    if r and r['k'] == 'Parm' and r['n'] in ('push_mask', 'capture_mask'):
        return ['%s (line %d)' % (r['n'], n.get('l', 0))] if under else []
    if r and r['k'] == 'Local':
        d = single_def(f, r['id'])
        if d is not None:
            return mask_under_shift(f, d, under, seen | {n['i']})
        return out
    if n['k'] == 'CallExpr' and short(n.get('callee', {}).get('n', '')) == 'shift':
        for a in kids(n)[1:]:
            out += mask_under_shift(f, a, True, seen)
        return out
    for c in kids(n):
        out += mask_under_shift(f, c, under, seen)
    return out


def _ep_evasion(ctx, ge, col):
    """M2 for en passant. While in check the capture is a legal evasion exactly when it removes the checking pawn (the CAPTURED
    pawn's square is in capture_mask) or lands on the checking line (the e.p. square is in push_mask). The conditions that
    govern the emissions may only test membership of those two squares in the two masks; they are evaluated over the sixteen
    valuations of {captured-square, e.p.-square} x {capture_mask, push_mask} (a finite model of the masks restricted to the
    two squares) and must let the emissions through exactly when that disjunction holds."""
    import itertools
    from rules.norm import Norm, Unknown
    nm = Norm(ge)
    cs_str = '(enpassant_square-8)' if col == 'WHITE' else '(enpassant_square+8)'
    MASKS = ('capture_mask', 'push_mask')

    def mentions(c):
        for x in walk(c):
            if x.get('ref', {}).get('n') in MASKS:
                return True
            r = x.get('ref') or {}
            if r.get('k') == 'Local':
                from rules.effects import single_def
                d = single_def(ge, r['id'])
                if d is not None and any(y.get('ref', {}).get('n') in MASKS for y in walk(d)):
                    return True
        return False

    def bb(n, U):
        n = nm.resolve(n)
        while n['k'] in ('ParenExpr', 'ExprWithCleanups') and kids(n):
            n = nm.resolve(kids(n)[0])
        r = n.get('ref') or {}
        if r.get('k') == 'Parm' and r['n'] in MASKS:
            return frozenset(q for q in ('ep', 'cs') if U[(r['n'], q)])
        if (n.get('callee') or {}).get('n') == 'engine::square_bb':
            t = nm.s(kids(n)[1])
            if t == 'enpassant_square':
                return frozenset(['ep'])
            if t == cs_str:
                return frozenset(['cs'])
            raise Unknown('square_bb(%s)' % t)
        if n['k'] == 'BinaryOperator' and n.get('op') in ('&', '|', '^'):
            a, b = bb(kids(n)[0], U), bb(kids(n)[1], U)
            return {'&': a & b, '|': a | b, '^': a ^ b}[n['op']]
        if n['k'] == 'UnaryOperator' and n.get('op') == '~':
            return frozenset(['ep', 'cs']) - bb(kids(n)[0], U)
        if n.get('cv') == 0 or const_of(n) == 0:
            return frozenset()
        raise Unknown(nm.s(n))

    def tv(n, U):
        m = nm.resolve(n)
        while m['k'] in ('ParenExpr', 'ExprWithCleanups') and kids(m):
            m = nm.resolve(kids(m)[0])
        if m['k'] == 'BinaryOperator' and m.get('op') in ('&&', '||'):
            a = tv(kids(m)[0], U)
            if m['op'] == '&&':
                return a and tv(kids(m)[1], U)
            return a or tv(kids(m)[1], U)
        if m['k'] == 'UnaryOperator' and m.get('op') == '!':
            return not tv(kids(m)[0], U)
        if m['k'] == 'BinaryOperator' and m.get('op') in ('!=', '==') and const_of(nm.resolve(kids(m)[1])) == 0:
            v = bool(bb(kids(m)[0], U))
            return v if m['op'] == '!=' else not v
        return bool(bb(m, U))

    ems = emissions(ge)
    keys = [(mk, q) for mk in MASKS for q in ('ep', 'cs')]
    n_eval = 0
    seen_mask_cond = [False]

    def reach(st, target, U):
        """(target reached on some path consistent with U, control may fall through st); conditions that do not mention the
        masks are free"""
        if st is None:
            return False, True
        if st is target or ge.inside(target, st) and st['k'] not in ('CompoundStmt', 'IfStmt', 'ForStmt', 'WhileStmt', 'DoStmt',
                                                                      'SwitchStmt', 'CXXForRangeStmt'):
            return True, st['k'] != 'ReturnStmt'
        k = st['k']
        if k == 'CompoundStmt':
            for c in kids(st):
                r, ft = reach(c, target, U)
                if r:
                    return True, ft
                if not ft:
                    return False, False
            return False, True
        if k == 'IfStmt':
            ch = [x for x in (st.get('ch') or [])]
            cond, th, el = ch[-3] if len(ch) >= 3 else ch[0], None, None
            ks = kids(st)
            cond, th = ks[0], ks[1]
            el = ks[2] if len(ks) > 2 else None
            if mentions(cond):
                seen_mask_cond[0] = True
                arms = [th] if tv(cond, U) else [el]
            else:
                arms = [th, el]
            res = [reach(a, target, U) for a in arms]
            return any(r for r, _ in res), any(ft for _, ft in res)
        if k == 'ReturnStmt':
            return False, False
        if k in ('ForStmt', 'WhileStmt', 'DoStmt', 'CXXForRangeStmt'):
            body = kids(st)[-1]
            r, _ = reach(body, target, U)
            return r, True
        if k == 'SwitchStmt':
            raise Unknown('switch statement')
        return False, True

    for em, creator, args in ems:
        bad = None
        for bits in itertools.product((False, True), repeat=4):
            U = dict(zip(keys, bits))
            try:
                r, _ = reach(ge.body, em, U)
            except Unknown as e:
                raise AnalysisBroken('C01.M2.ep-evasion: the evasion filter of generate_enpassant tests %s, which is not a membership '
                                     'test of the e.p./captured square in the masks' % e)
            n_eval += 1
            want = U[('capture_mask', 'cs')] or U[('push_mask', 'ep')]
            if r != want and bad is None:
                bad = 'captured pawn %s capture_mask, e.p. square %s push_mask, e.p. square %s capture_mask: the capture is %s' % (
                    'in' if U[('capture_mask', 'cs')] else 'not in', 'in' if U[('push_mask', 'ep')] else 'not in',
                    'in' if U[('capture_mask', 'ep')] else 'not in', 'generated' if r else 'dropped')
        if not seen_mask_cond[0]:
            raise AnalysisBroken('C01.M2.ep-evasion: no condition on capture_mask/push_mask governs the e.p. emission at %s' % ge.loc(em))
        ctx.ob('C01.M2.ep-evasion', 'generate_enpassant<%s>:%s' % (col, ge.loc(em).split(':')[-1]), bad is None,
               'the e.p. capture passes the evasion filter exactly when the captured pawn is the checker (its square in capture_mask) '
               'or the e.p. square blocks the check (in push_mask)%s' % ('' if bad is None else ' — ' + bad), site=ge.loc(em))
    return n_eval


def check(ctx):
    p = ctx.prog()
    dirs = p.enum('engine::Direction')
    cas = p.enum('engine::Castling')
    sq = p.enum('engine::Square')
    gens = {}
    for nm in ('generate_legal_moves', 'generate_pawn_moves', 'generate_enpassant', 'generate_pinned_pawn_moves',
               'generate_pinned_piece_moves', 'generate_pins', 'checkers', 'forbidden_squares'):
        for col in ('engine::WHITE', 'engine::BLACK'):
            fs = [f for f in p.fns('engine::' + nm) if f.targs == col]
            if len(fs) != 1:
                raise AnalysisBroken('instantiation %s<%s> not found' % (nm, col))
            gens[(nm, short(col))] = fs[0]
            ctx.analysed(fs[0])

    # ---- M8 value-level rules: first, so that what they decide is on record before a form rule below meets a shape it does not
    # know and stops the check (a stop of their own is raised only after the form rules had their say)
    import props.C01sem as sem
    sem_stop = None
    try:
        sem.check(ctx, p, gens, emissions, loop_source, dirs)
    except AnalysisBroken as e_:
        sem_stop = e_

    # ---- M1 category x partition matrix ------------------------------------------------------------------------
    for col in ('WHITE', 'BLACK'):
        up = 8 if col == 'WHITE' else -8
        # unpinned pawns
        f = gens[('generate_pawn_moves', col)]
        cats = set()
        for em, creator, args in emissions(f):
            lp, src = loop_source(f, em)
            s = canon(f, src, keep=()).replace(' ', '') if src is not None else ''
            frm = canon(f, args[0]).replace(' ', '')
            if creator == 'create_promotion':
                cats.add('promo-capture' if 'capture_mask' in s else 'promo-push')
            elif 'capture_mask' in s:
                cats.add('capture')
            elif re.search(r'\(2\*', frm):
                cats.add('double')
            else:
                cats.add('push')
        ctx.ob('C01.M1.unpinned', 'generate_pawn_moves<%s>' % col, cats == {'promo-capture', 'promo-push', 'capture', 'double', 'push'},
               'un-pinned pawns: single push, double push, capture, promotion by push and by capture are all emitted (%s)' % sorted(cats),
               site=f.loc())
        # promotions emit all four kinds
        kinds = {}
        for em, creator, args in emissions(f):
            if creator == 'create_promotion':
                lp, src = loop_source(f, em)
                kinds.setdefault(lp['i'], set()).add(const_of(strip_casts(args[2])))
        pk = p.enum('engine::PieceKind')
        allk = {pk['QUEEN'], pk['ROOK'], pk['BISHOP'], pk['KNIGHT']}
        ctx.ob('C01.M1.promotion-kinds', 'generate_pawn_moves<%s>' % col, bool(kinds) and all(v == allk for v in kinds.values()),
               'every promotion loop emits queen, rook, bishop and knight', site=f.loc())
        # en passant for unpinned pawns fed from the position's e.p. square
        gl = gens[('generate_legal_moves', col)]
        ep_calls = [n for n, cfid, nm in gl.calls() if nm == 'engine::generate_enpassant']
        ok = len(ep_calls) == 1 and canon(gl, kids(ep_calls[0])[5], inline=False).replace(' ', '') == 'pos.enpassant_square()' and \
            any(canon(gl, c, inline=False).replace(' ', '') == '(pos.enpassant_square()!=NO_SQUARE)' and t for c, t in guard_facts(gl, ep_calls[0]))
        ctx.ob('C01.M1.unpinned-ep', 'generate_legal_moves<%s>' % col, ok,
               'en passant is generated for un-pinned pawns whenever the position has an e.p. square', site=gl.loc(ep_calls[0]) if ep_calls else gl.loc())
        ge = gens[('generate_enpassant', col)]
        ems = emissions(ge)
        tg = set(canon(ge, a[1], inline=False) for _, _, a in ems)
        fr = sorted(canon(ge, a[0]).replace(' ', '') for _, _, a in ems)
        _ep_evasion(ctx, ge, col)
        ctx.ob('C01.M1.ep-emission', 'generate_enpassant<%s>' % col, len(ems) == 2 and tg == {'enpassant_square'},
               'both capturing directions are emitted onto the e.p. square (%s)' % fr, site=ge.loc())
        # horizontal discovered-check test when exactly one pawn can capture
        rays = [canon(ge, kids(n)[2], inline=False) for n, cfid, nm in ge.calls() if nm == 'engine::attack_in_line']
        gd = [canon(ge, c, inline=False).replace(' ', '') for n, cfid, nm in ge.calls() if nm == 'engine::attack_in_line'
              for c, t in guard_facts(ge, n) if t]
        if not rays:
            raise AnalysisBroken('C01: generate_enpassant<%s> does not look along the king\'s rank with attack_in_line; another way of testing '
                                 'the exposure after both pawns leave the rank is not something the rule can judge' % col)
        blk = [n for n in ge.all_nodes() if n['k'] == 'VarDecl' and n.get('name') == 'blockers']
        okb = len(blk) == 1 and canon(ge, kids(blk[0])[0], inline=False).replace(' ', '') == '(pos.pieces()^(square_bb(captured_square)|attacking_bb))'
        ctx.ob('C01.M1.ep-rank-discovery', 'generate_enpassant<%s>' % col, rays == ['RAY_E'] and okb and
               any('bool(right_bb)!=bool(left_bb)' in g or '(bool(right_bb)!=bool(left_bb))' in g for g in gd),
               'with a single capturer, the capture is dropped if removing both pawns from the rank exposes the king to a rook/queen', site=ge.loc())
        # pinned pawns
        fp = gens[('generate_pinned_pawn_moves', col)]
        cells = set()
        for em, creator, args in emissions(fp):
            case = None
            for a in fp.ancestors(em):
                if a['k'] == 'CaseStmt':
                    case = a.get('casev')
                    break
            gf = [canon(fp, c).replace(' ', '') for c, t in guard_facts(fp, em) if t]
            on7 = any(re.match(r'^\(rank\(from\)==', g) for g in gf)
            to = canon(fp, args[1]).replace(' ', '')
            dirv = None
            m = re.search(r'\+(\(2\*)?static_cast|\+', to)
            gstr = ' '.join(gf)
            # bitboards built up in a local (capture_bb |= ...): include every definition of locals named in the guards
            for c_, t_ in guard_facts(fp, em):
                for x in walk(c_):
                    r_ = x.get('ref', {})
                    if r_.get('k') == 'Local' and single_def(fp, r_['id']) is None:
                        for d_ in fp.all_nodes():
                            if d_['k'] == 'VarDecl' and d_.get('id') == r_['id'] and kids(d_):
                                gstr += ' ' + canon(fp, kids(d_)[0]).replace(' ', '')
                        for w_ in local_writes(fp, r_['id']):
                            v_ = written_value(fp, w_)
                            if v_ is not None:
                                gstr += ' ' + canon(fp, v_).replace(' ', '')
            kind = 'capture' if 'pos.pieces(!(side))' in gstr or 'capture_bb' in gstr or 'pieces(' in gstr and '~(pos.pieces())' not in gstr else 'push'
            if '~(pos.pieces())' in gstr and 'pos.pieces(!' not in gstr:
                kind = 'push'
            if '(2*' in to or '2*' in to:
                kind = 'double'
            ep = 'enpassant_square' in gstr
            if case is None:
                raise AnalysisBroken('C01: generate_pinned_pawn_moves<%s> emits a move outside the cases of its pin-direction switch; '
                                     'the form rule about pinned pawns reads that switch' % col)
            cells.add((case, 'promo-' + kind if creator == 'create_promotion' else kind, ep))
        want_cells = {(0, 'capture', True), (2, 'capture', True), (1, 'push', False), (1, 'double', False),
                      (0, 'promo-capture', False), (2, 'promo-capture', False), (1, 'promo-push', False)}
        ctx.ob('C01.M1.pinned', 'generate_pinned_pawn_moves<%s>' % col, cells == want_cells,
               'pinned pawns: along a diagonal pin capture (including en passant onto the pin ray) and promotion-capture; '
               'along a file pin push, double push and promotion-push (cells %s)' % sorted(cells, key=str), site=fp.loc(),
               detail={'missing': sorted(want_cells - cells, key=str), 'extra': sorted(cells - want_cells, key=str)})
        # the pin-ray switch pairs each case with its own direction (case = ray & 3: 0 NW/SE, 1 N/S, 2 NE/SW)
        okd = True
        for em, creator, args in emissions(fp):
            case = None
            for a in fp.ancestors(em):
                if a['k'] == 'CaseStmt':
                    case = a.get('casev')
                    break
            to = canon(fp, args[1]).replace(' ', '')
            if case not in (0, 1, 2):
                raise AnalysisBroken('C01: generate_pinned_pawn_moves<%s> emits a move outside the three cases of its pin-direction switch; '
                                     'the form rule about pinned pawns reads that switch' % col)
            want_dir = {0: 7 if col == 'WHITE' else -7, 1: up, 2: 9 if col == 'WHITE' else -9}[case]
            # the direction constant inside the to-square arithmetic
            vals = [x['cv'] for x in walk(args[1]) if x.get('ref', {}).get('k') == 'Local' and 'cv' in x and 'Direction' in x.get('t', '')]
            okd = okd and vals and all(v == want_dir for v in vals)
        ctx.ob('C01.M1.pinned-directions', 'generate_pinned_pawn_moves<%s>' % col, okd,
               'each pin-ray class moves the pawn only along that ray\'s forward direction', site=fp.loc())

    # ---- M2 evasion masks ---------------------------------------------------------------------------------------------
    for col in ('WHITE', 'BLACK'):
        f = gens[('generate_pawn_moves', col)]
        ok = True
        n_l = 0
        for em, creator, args in emissions(f):
            lp, src = loop_source(f, em)
            s = canon(f, src).replace(' ', '') if src is not None else ''
            n_l += 1
            is_cap = 'shift(pawnsOn7)&capture_mask' in s or re.search(r'capture_mask', s) is not None
            ok = ok and (('&capture_mask' in s) != ('&push_mask' in s))
        ctx.ob('C01.M2.pawn-masks', 'generate_pawn_moves<%s>' % col, ok and n_l >= 16,
               'every pawn move loop is restricted by capture_mask (captures) or push_mask (pushes)', site=f.loc())
        # the evasion masks restrict the destination square only: a mask inside the argument of a shift restricts an
        # intermediate square (e.g. the square a double push passes over) and loses blocking moves
        inner = []
        for em, creator, args in emissions(f):
            lp, src = loop_source(f, em)
            if src is not None:
                inner += mask_under_shift(f, src, False, set())
        ctx.ob('C01.M2.mask-on-destination', 'generate_pawn_moves<%s>' % col, not inner,
               'push_mask/capture_mask are applied to destination squares only, never to a set that is shifted afterwards'
               + ('' if not inner else ' — ' + ', '.join(sorted(set(inner)))), site=f.loc())
        gl = gens[('generate_legal_moves', col)]
        # non-king piece generators receive target = capture_mask | push_mask
        tgt = [n for n in gl.all_nodes() if n['k'] == 'VarDecl' and n.get('name') == 'target']
        okt = len(tgt) == 1 and canon(gl, kids(tgt[0])[0], inline=False).replace(' ', '') in ('(capture_mask|push_mask)', '(push_mask|capture_mask)')
        pcs = [n for n, cfid, nm in gl.calls() if nm == 'engine::generate_piece_moves']
        okp = len(pcs) == 4 and all(canon(gl, kids(n)[3], inline=False) == 'target' for n in pcs) and \
            sorted(x['callee']['targs'] for x in pcs) == ['engine::BISHOP', 'engine::KNIGHT', 'engine::QUEEN', 'engine::ROOK']
        ctx.ob('C01.M2.piece-target', 'generate_legal_moves<%s>' % col, okt and okp,
               'knights, bishops, rooks and queens are generated onto capture_mask | push_mask only', site=gl.loc())
        # masks: single check -> checker / between squares ; no check -> enemy pieces / empty squares
        defs = {}
        for n in gl.all_nodes():
            if n['k'] == 'BinaryOperator' and n.get('op') == '=':
                l = canon(gl, kids(n)[0], inline=False)
                if l in ('push_mask', 'capture_mask'):
                    gf = tuple(sorted((canon(gl, c, inline=False).replace(' ', ''), t) for c, t in guard_facts(gl, n)
                                      if 'checkers_bb' in canon(gl, c, inline=False) or 'is_piece_slider' in canon(gl, c, inline=False)))
                    defs[(l, gf)] = canon(gl, kids(n)[1], inline=False).replace(' ', '')
        want_defs = {
            ('capture_mask', (('checkers_bb', True),)): 'checkers_bb',
            ('push_mask', (('checkers_bb', True), ('is_piece_slider(pos.piece_at(checker_square))', True))):
                '((LINES[king_sq][checker_square]^square_bb(king_sq))^square_bb(checker_square))',
            ('push_mask', (('checkers_bb', True), ('is_piece_slider(pos.piece_at(checker_square))', False))): '0',
            ('push_mask', (('checkers_bb', False),)): '~(pos.pieces())',
            ('capture_mask', (('checkers_bb', False),)): 'pos.pieces(!(side))',
        }
        got_defs = {(k[0], tuple((a, b) for a, b in k[1] if 'popcount' not in a)): v for k, v in defs.items()}
        ctx.ob('C01.M2.mask-definitions', 'generate_legal_moves<%s>' % col, got_defs == want_defs,
               'in single check non-king moves must capture the checker or interpose (sliders only); otherwise any enemy piece / empty square',
               site=gl.loc(), detail={'found': {str(k): v for k, v in got_defs.items()}})
        # double check: king moves only
        ret = [n for n in gl.all_nodes() if n['k'] == 'ReturnStmt' and 'generate_king_moves' in canon(gl, kids(n)[0], inline=False)]
        okd = len(ret) == 1 and any('popcount_more_than_one(checkers_bb)' in canon(gl, c, inline=False) and t for c, t in guard_facts(gl, ret[0]))
        ctx.ob('C01.M2.double-check', 'generate_legal_moves<%s>' % col, okd, 'in double check only king moves are generated', site=gl.loc())
        # pinned pieces and castling only when not in check
        pinned_calls = [n for n, cfid, nm in gl.calls() if nm == 'engine::generate_pinned_piece_moves']
        okn = bool(pinned_calls) and all(any(canon(gl, c, inline=False) == 'checkers_bb' and not t for c, t in guard_facts(gl, n)) for n in pinned_calls)
        ctx.ob('C01.M2.pinned-only-unchecked', 'generate_legal_moves<%s>' % col, okn,
               'pinned pieces (whose generators ignore the evasion masks for pawns) are only generated when the king is not in check', site=gl.loc())
        # king moves avoid attacked squares computed with the king x-rayed out, and own pieces
        km = [n for n, cfid, nm in gl.calls() if nm == 'engine::generate_king_moves']
        okk = len(km) == 2 and all(canon(gl, kids(n)[2], inline=False).replace(' ', '') == '(attacked|pos.pieces(side))' for n in km)
        att = [n for n in gl.all_nodes() if n['k'] == 'VarDecl' and n.get('name') == 'attacked']
        okk = okk and len(att) == 1 and canon(gl, kids(att[0])[0], inline=False).replace(' ', '') == 'forbidden_squares(pos)'
        ctx.ob('C01.M2.king-moves', 'generate_legal_moves<%s>' % col, okk,
               'the king never steps onto a square attacked by the opponent (forbidden_squares) or occupied by an own piece', site=gl.loc())
    # generate_piece_moves<K> and generate_pinned_piece_moves<side>: decided by value / per piece kind in props/C01sem.py
    # (M8.piece-moves, M8.pinned-dispatch)

    # ---- M3 castling ------------------------------------------------------------------------------------------------------
    icp = p.fn('engine::(anonymous namespace)::init_castling_paths_bitboards')
    ctx.analysed(icp)
    paths = {}
    for n in icp.all_nodes():
        if n['k'] == 'BinaryOperator' and n.get('op') == '=':
            l = strip_casts(kids(n)[0])
            if l['k'] == 'ArraySubscriptExpr' and strip_casts(kids(l)[0]).get('ref', {}).get('n') == 'engine::CASTLING_PATHS':
                paths[const_of(strip_casts(kids(l)[1]))] = const_of(strip_casts(kids(n)[1]))

    def bb(*names):
        v = 0
        for nm in names:
            v |= 1 << sq['SQ_' + nm]
        return v
    want_paths = {cas['W_OO']: bb('F1', 'G1'), cas['W_OOO']: bb('C1', 'D1'), cas['B_OO']: bb('F8', 'G8'), cas['B_OOO']: bb('C8', 'D8')}
    ctx.ob('C01.M3.paths', 'CASTLING_PATHS', paths == want_paths,
           'the king\'s transit squares are f/g (short) and c/d (long) on the home rank of each colour (%s)' % {k: hex(v or 0) for k, v in paths.items()},
           site=icp.loc())
    qb = p.val('engine::QUEEN_CASTLING_BLOCK')
    ctx.ob('C01.M3.queen-block', 'QUEEN_CASTLING_BLOCK', qb == [bb('B1'), bb('B8')], 'long castling also needs b1/b8 empty', site='engine/move_bitboards.cpp')
    for col, rights in (('WHITE', ('W_OO', 'W_OOO')), ('BLACK', ('B_OO', 'B_OOO'))):
        gl = gens[('generate_legal_moves', col)]
        from rules.norm import Norm
        cidx = 0 if col == 'WHITE' else 1
        found = {}
        for em, creator, args in emissions(gl):
            if creator != 'create_castling' or not gl.cfg.is_reachable(em):
                continue
            nm_ = Norm(gl)
            g = nm_.facts(guard_facts(gl, em))
            if g is None:
                continue          # arm of the other colour: constantly false in this instantiation
            wing = nm_.cval(args[0])
            found[wing] = found.get(wing, set()) | {g}
        want = {}
        for r, wing, long_ in ((rights[0], 'KING_CASTLING', False), (rights[1], 'QUEEN_CASTLING', True)):
            R = cas[r]
            atoms = {('truthy', '((forbidden_squares(pos)|pos.pieces())&CASTLING_PATHS[%d])' % R, False),
                     ('truthy', '(%d&pos.castling_rights())' % R, True), ('truthy', 'checkers(pos)', False)}
            if long_:
                atoms.add(('truthy', '(QUEEN_CASTLING_BLOCK[%d]&pos.pieces())' % cidx, False))
            want[cas[wing]] = {frozenset(atoms)}
        ctx.ob('C01.M3.preconditions', 'generate_legal_moves<%s>' % col, found == want,
               'castling is emitted only when not in check, with the right of that colour and wing, the king\'s path neither attacked nor '
               'occupied, and (long) the b-file square empty (%s)' % {k: [sorted(map(str, x)) for x in v] for k, v in found.items()}, site=gl.loc())

    # ---- M4 colour genericity ------------------------------------------------------------------------------------------------
    n_pairs = 0
    tmpl = [f for f in p.repo_funcs('engine/movegen') if f.targs.split(',')[0] in ('engine::WHITE', 'engine::BLACK')]
    ctx.floor('C01.M4.instantiations', len(tmpl), 30, 'colour-generic instantiations in movegen.cpp')
    for f in tmpl:
        for n in f.all_nodes():
            if n['k'] != 'ConditionalOperator':
                continue
            c, a, b = kids(n)
            cs = canon(f, c, inline=False).replace(' ', '')
            # in an instantiation `side` is substituted: the condition is  <0|1> == WHITE/BLACK
            if not re.match(r'^\((0|1|side)==(WHITE|BLACK)\)$', cs):
                continue
            va, vb = const_of(strip_casts(a)), const_of(strip_casts(b))
            if va is None or vb is None:
                continue
            n_pairs += 1
            t = n.get('t', '')
            if 'Bitboard' in t or va > 255 or vb > 255:
                ok = flipv(va) == vb
                why = 'rank masks are vertical mirror images'
            elif 'Piece' in t and 'Kind' not in t:
                ok = abs(va - vb) == 6
                why = 'same piece kind of the other colour'
            elif 'Rank' in t:
                ok = va + vb == 7
                why = 'relative ranks mirror'
            elif 'Castling' in t:
                wb = {cas['W_OO']: cas['B_OO'], cas['W_OOO']: cas['B_OOO'], cas['W_CASTLING']: cas['B_CASTLING']}
                ok = wb.get(va) == vb or wb.get(vb) == va
                why = 'the same castling right(s) of the other colour'
            elif 'Square' in t:
                ok = (va ^ 56) == vb
                why = 'the same square seen from the other side'
            elif 'Color' in t:
                ok = va + vb == 1
                why = 'the opposite colour'
            else:
                ok = va == -vb
                why = 'directions/offsets are negatives of each other'
            ctx.ob('C01.M4.mirror-pair', '%s<%s>@%d' % (short(f.name), short(f.targs), n['l']), ok,
                   'the two arms of a colour-dependent constant are a mirror pair: %s (%s, %s)' % (why, va, vb),
                   site=f.loc(n), sample=(n_pairs <= 2 or not ok))
    ctx.floor('C01.M4.mirror-pair', n_pairs, 50, 'colour-dependent constants')
    # shift direction and from-square offset agree in every pawn emission
    n_off = 0
    for col in ('WHITE', 'BLACK'):
        for gname in ('generate_pawn_moves',):
            f = gens[(gname, col)]
            for em, creator, args in emissions(f):
                lp, src = loop_source(f, em)
                if src is None:
                    raise AnalysisBroken('pawn emission without a scanned bitboard in %s' % f.name)
                shifts = [dirs[short(x['callee']['targs'])] for x in walk(src) if x.get('callee', {}).get('n') == 'engine::shift' and x['callee'].get('targs')]
                # pushed_pawns local carries one more shift
                for x in walk(src):
                    r = x.get('ref', {})
                    if r.get('k') == 'Local' and r['n'] == 'pushed_pawns':
                        d = single_def(f, r['id'])
                        shifts += [dirs[short(y['callee']['targs'])] for y in walk(d) if y.get('callee', {}).get('n') == 'engine::shift']
                frm = strip_casts(args[0])
                while frm['k'] in ('CXXFunctionalCastExpr', 'CStyleCastExpr', 'ImplicitCastExpr'):
                    frm = strip_casts(kids(frm)[0])
                off = None
                if frm['k'] == 'BinaryOperator' and frm.get('op') == '-':
                    off = const_of(strip_casts(kids(frm)[1]))
                n_off += 1
                ctx.ob('C01.M4.shift-offset', '%s<%s>@%d' % (gname, col, em['l']), off is not None and sum(shifts) == off,
                       'the from-square is the target minus exactly the shift applied to the pawns (shift %s, offset %s)' % (shifts, off),
                       site=f.loc(em), sample=(n_off <= 2))
        f = gens[('generate_enpassant', col)]
        vals = {n['name']: const_of(strip_casts(kids(n)[0])) for n in f.all_nodes() if n['k'] == 'VarDecl' and kids(n) and
                n.get('name') in ('UPRIGHT', 'UPLEFT', 'up', 'upright', 'upleft')}
        ctx.ob('C01.M4.ep-offsets', 'generate_enpassant<%s>' % col,
               vals.get('UPRIGHT') == vals.get('upright') and vals.get('UPLEFT') == vals.get('upleft') and vals.get('up') == (8 if col == 'WHITE' else -8),
               'en-passant capturers are located with the same offsets the pawns were shifted by (%s)' % vals, site=f.loc())
        # right_bb uses UPRIGHT and emits from ep - upright; left likewise
        pair = {}
        for n in f.all_nodes():
            if n['k'] == 'VarDecl' and n.get('name') in ('right_bb', 'left_bb') and kids(n):
                shc = [x for x in walk(kids(n)[0]) if x.get('callee', {}).get('n') == 'engine::shift']
                sh = [short(x['callee']['targs']) for x in shc]
                dv = dirs.get(sh[0]) if sh else None
                if dv is None and shc:
                    # a direction constant of the function itself (e.g. the negation of another one)
                    tv = [const_of(strip_casts(y)) for y in walk(shc[0]) if y['k'] == 'SubstNonTypeTemplateParmExpr']
                    dv = next((v for v in tv if v is not None), None)
                    if dv is None:
                        raise AnalysisBroken('C01: generate_enpassant<%s> shifts by a direction the rule cannot evaluate (%s)' % (col, sh))
                # shifting the pawns by D onto the target, or the target by -D onto the pawns, finds the same capturer
                if dv is not None and shc and 'enpassant' in canon(f, kids(shc[0])[-1], inline=True):
                    dv = -dv
                pair[n['name']] = dv
        em_pairs = {}
        for em, creator, args in emissions(f):
            gf = [canon(f, c, inline=False) for c, t in guard_facts(f, em) if t]
            frm = strip_casts(args[0])
            while frm['k'] in ('CXXFunctionalCastExpr', 'CStyleCastExpr', 'ImplicitCastExpr'):
                frm = strip_casts(kids(frm)[0])
            off = const_of(strip_casts(kids(frm)[1])) if frm['k'] == 'BinaryOperator' else None
            for g in gf:
                if g in ('right_bb', 'left_bb'):
                    em_pairs[g] = off
        ctx.ob('C01.M4.ep-sides', 'generate_enpassant<%s>' % col, pair == em_pairs and len(pair) == 2,
               'the move emitted for the right/left capturer starts where that capturer stands (%s vs %s)' % (pair, em_pairs), site=f.loc())
    ctx.floor('C01.M4.shift-offset', n_off, 32, 'pawn emissions')

    # ---- M5 attacker cover ---------------------------------------------------------------------------------------------------
    pk = p.enum('engine::PieceKind')
    for col in ('WHITE', 'BLACK'):
        # checkers<side> and forbidden_squares<side>: decided by value in props/C01sem.py (M8.checkers, M8.forbidden)
        # pins: eight rays, pinned piece of own colour, attacker a slider of the right kind
        gp = gens[('generate_pins', col)]
        rays = sorted(x['callee']['targs'].split(',')[1].strip() for x in gp.all_nodes() if x.get('callee', {}).get('n') == 'engine::generate_pin_in_ray')
        ctx.ob('C01.M5.pin-rays', 'generate_pins<%s>' % col, rays == sorted('engine::RAY_' + r for r in ('NW', 'N', 'NE', 'E', 'SE', 'S', 'SW', 'W')),
               'pins are searched on all eight rays from the king', site=gp.loc())
    for f in p.fns('engine::generate_pin_in_ray'):
        ctx.analysed(f)
        ray = p.enum('engine::Ray')[short(f.targs.split(',')[1].strip())]
        # reachable lsb/msb choice: rays 0..3 step to higher squares (nearest = lsb), 4..7 to lower (nearest = msb)
        scans = [short(nm) for n, cfid, nm in f.calls() if short(nm) in ('lsb', 'msb', 'pop_lsb') and f.cfg.is_reachable(n)]
        want = ['pop_lsb', 'lsb'] if ray < 4 else ['msb', 'msb']
        sl = None
        for n in f.all_nodes():
            if n['k'] == 'IfStmt' and canon(f, kids(n)[0], inline=False).replace(' ', '') in ('(%d&1)' % ray, '(ray&1)'):
                pass
        add = [short(x['ref']['n']) for n in f.all_nodes() if n['k'] == 'CompoundAssignOperator' and n.get('op') == '|=' and f.cfg.is_reachable(n)
               for x in walk(kids(n)[1]) if x.get('ref', {}).get('k') == 'Enum']
        want_add = ['ROOK'] if ray & 1 else ['BISHOP']
        own = any(canon(f, kids(n)[0], inline=False).replace(' ', '') == '(square_bb(pinned_sq)&position.pieces(side))' for n in f.all_nodes() if n['k'] == 'IfStmt')
        ctx.ob('C01.M5.pin-in-ray', 'generate_pin_in_ray<%s>' % f.targs.replace('engine::', ''), scans == want and add == want_add and own,
               'on this ray the two nearest pieces are taken nearest-first, the nearer must be an own piece, the farther an enemy %s or queen'
               % ('rook' if ray & 1 else 'bishop'), site=f.loc(), sample=False)

    # ---- M6 plumbing ----------------------------------------------------------------------------------------------------------
    gm = p.fn('engine::generate_moves')
    ctx.analysed(gm)
    r = [strip_casts(kids(n)[0]) for n in gm.all_nodes() if n['k'] == 'ReturnStmt']
    ok = len(r) == 1 and r[0]['k'] == 'ConditionalOperator'
    if ok:
        c, a, b = kids(r[0])
        ok = canon(gm, c, inline=False).replace(' ', '') == '(side==WHITE)' and \
            strip_casts(a).get('callee', {}).get('targs') == 'engine::WHITE' and strip_casts(b).get('callee', {}).get('targs') == 'engine::BLACK' and \
            strip_casts(a)['callee']['n'] == 'engine::generate_legal_moves' and strip_casts(b)['callee']['n'] == 'engine::generate_legal_moves'
    ctx.ob('C01.M6.dispatch', 'generate_moves', ok, 'generate_moves dispatches to the instantiation of the requested colour', site=gm.loc())
    pf = p.fn('engine::perft')
    ctx.analysed(pf)
    gc = [n for n, cfid, nm in pf.calls() if nm == 'engine::generate_moves']
    okp = len(gc) == 1 and canon(pf, kids(gc[0])[2], inline=False) == 'position.color()'
    leaf = [n for n in pf.all_nodes() if n['k'] == 'ReturnStmt' and canon(pf, kids(n)[0], inline=False).replace(' ', '') == '(end-begin)']
    ctx.ob('C01.M6.perft', 'perft', okp and len(leaf) == 1,
           'perft counts exactly the generated list of the side to move at the leaves (make/unmake balance is C03.R3)', site=pf.loc())
    ctx.assume('C11: attack tables and shift<> are exact; legal input positions (quantifier of C01)')
    # ---- M7 ray helper of the generator (pinned-piece moves, pin detection) ----------------------------------------------------
    from rules.common import SubCtx
    import props.C11 as c11
    sub = SubCtx(ctx)
    c11.check(sub)
    bad = [r for r in sub.results if not r[2] and r[0] in ('C11.R3.nearest-blocker', 'C11.R3.sibling-agreement', 'C11.R3.ray-enum',
                                                           'C11.R3.ray-directions', 'C11.R3.ray-store')]
    ctx.ob('C01.M7.ray-helper', 'attack_in_ray', not bad,
           'the generator\'s own ray walk (pins, moves of pinned sliders) stops at the nearest blocker in every direction and agrees with the '
           'table builder (C11.R3)%s' % ('' if not bad else ' — refuted: ' + '; '.join('%s at %s: %s' % (r[0], r[4], r[3][:160]) for r in bad)),
           site=bad[0][4] if bad else 'engine/movegen.cpp')
    if sem_stop is not None:
        raise sem_stop
    ctx.note('not decided: that the generated set equals the FIDE-legal set for every position; absence of duplicates')
