"""C06 — `stop` is never lost and always produces a prompt `bestmove`.

Decided (DESIGN.md §3 C06): R1 race freedom of everything shared between the
UCI thread (handlers legal during a search) and the search thread; R2 no
reset of the stop flag after publication + publication order; R3 the flag is
polled on every cycle of the search thread's drivers; R4 unwinding after an
observed stop reaches the answer; R5 nothing reachable from isready/stop
blocks, and the output lock is released on every path.
Not decided: the wall-clock bound between two polls (one node's work)."""
from facts import AnalysisBroken
from rules.effects import canon
from rules.common import guard_facts
from prog import walk, kids, short, access_kind
from rules.common import (thread_entries, uci_handlers, sccs, written_value, counting_for,
                          const_of, strip_casts, strip_conv, is_atomic_type, norm_cond)

LEVEL = 'proof'
EXPLANATION = ('Obligation list over the whole-program call graph and per-function CFGs: '
               'race (shared field x thread roots), no-reset, publication order, poll-on-every-cycle, '
               'unwinding, lock pairing. Decides the signalling discipline for every schedule; '
               'does not decide the time bound in seconds.')

DURING_SEARCH = ('stop', 'isready', 'quit')   # commands UCI allows while searching
BLOCKING = ('join', 'wait', 'wait_for', 'wait_until', 'sleep_for', 'sleep_until', 'get',
            'lock', 'try_lock_for', 'acquire')
NORETURN = ('exit', '_exit', 'abort', 'quick_exit', 'terminate', 'pthread_exit', 'longjmp',
            '_Exit')


def shared_accesses(p, fids):
    """location -> [(func, node, kind)] for repo fields and globals accessed in fids"""
    acc = {}
    for fid in fids:
        f = p.funcs[fid]
        for i in f.d.get('inits', []):
            if i.get('field') and f.cls:
                acc.setdefault(f.cls + '::' + i['field'], []).append((f, i.get('init') or {'i': -1, 'l': f.line}, 'ctorinit'))
        for n in f.all_nodes():
            r = n.get('ref')
            if not r:
                continue
            if r['k'] == 'Field' and r.get('own', '').startswith('engine::') or \
                    (r['k'] == 'Field' and r.get('own') in p.records):
                acc.setdefault(r['n'], []).append((f, n, access_kind(f, n)))
            elif r['k'] in ('Global', 'StaticMember') and r['n'] in p.vars:
                acc.setdefault(r['n'], []).append((f, n, access_kind(f, n)))
            elif r['k'] == 'StaticLocal':
                acc.setdefault(f.name + '::' + r['n'], []).append((f, n, access_kind(f, n)))
                STATIC_T[f.name + '::' + r['n']] = n.get('t', '')
    return acc


STATIC_T = {}


def loc_type(p, loc):
    if loc in STATIC_T:
        return STATIC_T[loc]
    if loc in p.vars:
        return p.vars[loc]['t']
    own, _, fld = loc.rpartition('::')
    if own in p.records:
        for fd in p.records[own]['fields']:
            if fd['name'] == fld:
                return fd['t']
    return ''


def flag_reads(p, f, flags):
    out = []
    for n in f.all_nodes():
        r = n.get('ref')
        if r and r['k'] == 'Field' and r['n'] in flags and access_kind(f, n) == 'read':
            out.append(n)
    return out


def check(ctx):
    p = ctx.prog()
    loop, handlers = uci_handlers(p)
    ctx.floor('C06.anchors.handlers', len(handlers), 10, 'UCI command handlers')
    for h in DURING_SEARCH:
        if h not in handlers:
            raise AnalysisBroken('UCI handler %s_command not found' % h)
    entries = thread_entries(p)
    ctx.floor('C06.anchors.threads', len(entries), 1, 'thread constructions')
    # the words a GUI sends during a search reach their own handlers
    from rules.ucitab import uci_dispatch
    loop_, disp = uci_dispatch(p)
    for h in DURING_SEARCH:
        ctx.ob('C06.R0.dispatch', h, disp.get(h) == h + '_command',
               'the command word `%s` is dispatched to %s_command (reaches %s)' % (h, h, disp.get(h)), site=loop_.loc())

    t_search = set()
    for creator, node, entry in entries:
        t_search |= p.reachable_from([entry])
    t_uci = p.reachable_from([handlers[h] for h in DURING_SEARCH])
    for fid in t_search | t_uci:
        ctx.analysed(p.funcs[fid])

    # ---- slot: the stop flag = Search fields written from stop_command --------
    stop_reach = p.reachable_from([handlers['stop']])
    acc_stop = shared_accesses(p, stop_reach)
    flags = set()
    for loc, lst in acc_stop.items():
        if any(k in ('write', 'rmw') for _, _, k in lst) and loc.startswith('engine::Search::'):
            flags.add(loc)
    if len(flags) > 1:
        # stop_command writes several Search fields: the flag is the one that is stored `true`; the others are ordinary shared
        # data and fall under R1 (race) like any other location both threads touch
        cand = set()
        for loc in flags:
            for f, n, k in acc_stop[loc]:
                if k == 'write':
                    v = written_value(f, n)
                    if v is not None and const_of(strip_conv(v)) == 1:
                        cand.add(loc)
        if len(cand) == 1:
            flags = cand
    if len(flags) != 1:
        raise AnalysisBroken('stop flag slot: expected exactly one Search field written from '
                             'stop_command, found %s' % sorted(flags))
    flag = next(iter(flags))
    ctx.info['stop_flag'] = flag

    # ---- R1 RACE ----------------------------------------------------------------
    acc_s = shared_accesses(p, t_search)
    acc_u = shared_accesses(p, t_uci)
    n_shared = 0
    for loc in sorted(set(acc_s) & set(acc_u)):
        ws = [(f, n, k) for f, n, k in acc_s[loc] if k in ('write', 'rmw', 'addr')]
        wu = [(f, n, k) for f, n, k in acc_u[loc] if k in ('write', 'rmw', 'addr')]
        if not ws and not wu:
            continue
        # constructor initialisation happens before publication: not a racing access
        n_shared += 1
        t = loc_type(p, loc)
        ok = is_atomic_type(t) or 'std::mutex' in t
        wsite = (wu or ws)[0]
        ctx.ob('C06.R1.race', loc, ok,
               '%s (type %s) is accessed by the search thread (%d sites) and by UCI handlers legal '
               'during a search (%d sites) with at least one write; must be std::atomic'
               % (loc, t, len(acc_s[loc]), len(acc_u[loc])),
               site='%s in %s' % (wsite[0].loc(wsite[1]), wsite[0].name))
    ctx.floor('C06.R1.race', n_shared, 1, 'shared written locations')

    # ---- R2 no reset after publication -----------------------------------------------
    n_w = 0
    for f, n, k in p.field_accesses(*flag.rsplit('::', 1)):
        if k not in ('write', 'rmw'):
            continue
        if f.id not in t_search and f.id not in t_uci:
            continue
        n_w += 1
        v = written_value(f, n)
        cv = const_of(strip_casts(v)) if v else None
        ok = (cv == 1)
        ctx.ob('C06.R2.no-reset', '%s:%s' % (short(f.name), 'true' if ok else 'non-true'), ok,
               'write to the stop flag in %s (reachable from %s) must store the constant true; '
               'a false/unknown store can overwrite a stop already delivered'
               % (f.name, 'search thread' if f.id in t_search else 'UCI thread'),
               site=f.loc(n))
    ctx.floor('C06.R2.no-reset', n_w, 2, 'stop flag writes')

    # constructor initialises the flag to false
    inits = [(f, n) for f, n, k in p.field_accesses(*flag.rsplit('::', 1)) if k == 'ctorinit']
    fld = p.field(*flag.rsplit('::', 1))
    ok = any(const_of(strip_conv(n)) == 0 for f, n in inits) or False
    if not inits and fld.get('has_init'):
        ok = True
    ctx.ob('C06.R2.init-false', flag, ok,
           'the Search constructor (run by the UCI thread before publication) initialises the stop flag to false',
           site=inits[0][0].loc(inits[0][1]) if inits else 'engine/search.h')

    # publication precedes thread start
    for creator, node, entry in entries:
        pubs = []
        for n in creator.all_nodes():
            r = n.get('ref')
            if r and r['k'] == 'Field' and r['n'] == 'engine::Uci::search' and \
                    access_kind(creator, n) in ('write', 'rmw'):
                pubs.append(n)
        ok = bool(pubs) and all(creator.cfg.node_dominates(x, node) for x in pubs)
        ctx.ob('C06.R2.publish-before-start', short(creator.name), ok,
               'the Search object is stored into Uci::search before the search thread is constructed',
               site=creator.loc(node))

    # ---- R3 poll on every cycle ------------------------------------------------------
    comps = sccs(p, t_search)
    scc_f = set().union(*comps) if comps else set()
    ctx.floor('C06.R3.scc', len(scc_f), 2, 'recursive search functions')

    def must_poll(fid, seen=()):
        """every entry->exit path of fid reads the flag (directly or via a must-poll callee)"""
        f = p.funcs[fid]
        pts = set(n['i'] for n in flag_reads(p, f, flags))
        for n, cfid, nm in f.calls():
            if cfid in p.funcs and cfid != fid and cfid not in seen and cfid in t_search:
                if cfid in mp_cache:
                    if mp_cache[cfid]:
                        pts.add(n['i'])
                elif must_poll(cfid, seen + (fid,)):
                    pts.add(n['i'])
        if not pts:
            return False
        c = f.cfg
        return c.path_avoiding((c.entry, -1), pts, 'exit') is None

    mp_cache = {}
    for fid in sorted(t_search):
        try:
            mp_cache[fid] = must_poll(fid)
        except AnalysisBroken:
            mp_cache[fid] = False

    drivers = set()
    for fid in t_search:
        if p.reachable_from([fid]) & scc_f:
            drivers.add(fid)
    ctx.info['drivers'] = sorted(drivers)

    for fid in sorted(scc_f):
        f = p.funcs[fid]
        reads = flag_reads(p, f, flags)
        polls = [n for n in reads]
        # calls to must-poll functions also count as polls
        pollcalls = [n for n, cfid, nm in f.calls() if mp_cache.get(cfid) and cfid not in scc_f]
        for n, cfid, nm in f.calls():
            if cfid in scc_f:
                ok = any(f.cfg.node_dominates(r, n) for r in polls + pollcalls)
                ctx.ob('C06.R3.poll-before-recursion', '%s->%s' % (short(f.name), short(nm)), ok,
                       'recursive call is dominated by a read of the stop flag in the same activation',
                       site=f.loc(n))

    n_loops = 0
    for fid in sorted(drivers):
        f = p.funcs[fid]
        c = f.cfg
        pts = set(n['i'] for n in flag_reads(p, f, flags))
        for n, cfid, nm in f.calls():
            if mp_cache.get(cfid) or cfid in scc_f and mp_cache.get(cfid):
                pts.add(n['i'])
        for src, dst in c.back_edges():
            n_loops += 1
            body = c.natural_loop(src, dst)
            # is there a cycle header -> ... -> src -> header avoiding all poll points?
            # search from header start to reaching src's end within the loop body
            bad = _cycle_avoiding(c, dst, src, body, pts)
            term = c.blocks[dst].get('term') or c.blocks[src].get('term')
            line = f.nodes[term]['l'] if term in f.nodes else f.line
            lp = f.nodes.get(c.blocks[dst].get('term', -1))
            if bad is not None and lp is not None and counting_for(f, lp):
                # bounded counting loop whose skipped iterations do constant work
                ctx.ob('C06.R3.bounded-loop', '%s:loop@%s' % (short(f.name), _loop_key(f, c, dst)), True,
                       'counting loop with invariant bound and unmodified induction variable; iterations that search poll via the callee',
                       site='%s:%d' % (f.rel, line))
                continue
            ctx.ob('C06.R3.poll-in-loop', '%s:loop@%s' % (short(f.name), _loop_key(f, c, dst)), bad is None,
                   'every cycle of this loop in a search-thread driver reads the stop flag or calls a function that always does',
                   site='%s:%d' % (f.rel, line), detail={'cycle_blocks': bad})
    ctx.floor('C06.R3.poll-in-loop', n_loops, 4, 'loops in drivers')

    # ---- R4 unwinding reaches the answer ----------------------------------------------
    n_nr = 0
    for fid in sorted(t_search):
        f = p.funcs[fid]
        for n, cfid, nm in f.calls():
            if short(nm) in NORETURN and not nm.startswith('engine::'):
                n_nr += 1
                ctx.ob('C06.R4.no-noreturn', '%s:%s' % (short(f.name), short(nm)), False,
                       'call to %s in code reachable from the search thread can skip the bestmove answer' % nm,
                       site=f.loc(n))
        for n in f.all_nodes():
            if n['k'] == 'CXXThrowExpr':
                n_nr += 1
                ctx.ob('C06.R4.no-noreturn', '%s:throw' % short(f.name), False,
                       'throw in code reachable from the search thread terminates the process (detached thread, no handler)',
                       site=f.loc(n))
    ctx.ob('C06.R4.no-noreturn', 'search-thread', n_nr == 0,
           'no exit/abort/terminate/throw in the %d functions reachable from the search thread' % len(t_search),
           site='call graph of ' + ', '.join(e.name for _, _, e in entries))

    # after observing the flag set, no further recursion in that activation
    for fid in sorted(scc_f):
        f = p.funcs[fid]
        c = f.cfg
        n_obs = 0
        for r in flag_reads(p, f, flags):
            pos = c.position(r)
            if pos is None:
                continue
            blk = c.blocks[pos[0]]
            # the read is (part of) a branch condition: follow its true edge
            cond = f.nodes.get(blk.get('cond', -1))
            if cond is None:
                continue
            cn, neg = norm_cond(cond)
            if not f.inside(r, cond):
                continue
            n_obs += 1
            k_true = 1 if neg else 0
            succ = dict(c.succ[pos[0]])
            if k_true not in succ:
                continue
            rec = set(n['i'] for n, cfid, nm in f.calls() if cfid in scc_f)
            # any recursive call reachable from the true edge?
            hit = _reach_any(c, succ[k_true], rec)
            ctx.ob('C06.R4.unwind', '%s:after-stop' % short(f.name), not hit,
                   'once the stop flag is observed set, this activation returns without searching further',
                   site=f.loc(r))
        ctx.floor('C06.R4.unwind.' + short(f.name), n_obs, 1, 'flag observations in branch conditions')

    # ---- R5 responsiveness -----------------------------------------------------------
    n_b = 0
    for h in ('isready', 'stop'):
        for fid in sorted(p.reachable_from([handlers[h]])):
            f = p.funcs[fid]
            ctx.analysed(f)
            for n, cfid, nm in f.calls():
                if nm.startswith('std::') and short(nm) in BLOCKING and 'SyncCout' not in f.id:
                    n_b += 1
                    ctx.ob('C06.R5.no-blocking', '%s:%s' % (short(f.name), short(nm)), False,
                           'blocking call %s reachable from %s_command' % (nm, h), site=f.loc(n))
    ctx.ob('C06.R5.no-blocking', 'isready,stop', n_b == 0,
           'no join/wait/sleep/lock reachable from isready_command or stop_command (other than the output mutex)',
           site=handlers['isready'].loc())
    # the go handler must not join (it would block the reader for the whole search)
    gj = [n for n, cfid, nm in handlers['go'].calls() if short(nm) == 'join']
    ctx.ob('C06.R5.no-join', 'go_command', not gj,
           'go_command does not join the search thread', site=handlers['go'].loc(gj[0]) if gj else handlers['go'].loc())

    # output lock pairing in every function of the repo that takes it
    n_locks = 0
    for f in p.repo_funcs('engine/'):
        locks, unlocks = [], []
        for n, cfid, nm in f.calls():
            if nm == 'operator<<' and 'SyncCout' in cfid:
                arg = kids(n)[-1]
                cv = const_of(strip_casts(arg))
                if cv == 0:
                    locks.append(n)
                elif cv == 1:
                    unlocks.append(n)
        if not locks:
            continue
        ctx.analysed(f)
        c = f.cfg
        heavy = set(n['i'] for n, cfid, nm in f.calls() if cfid in scc_f or cfid in drivers)
        for lk in locks:
            n_locks += 1
            pos = c.position(lk)
            path = c.path_avoiding(pos, set(u['i'] for u in unlocks), 'exit')
            ctx.ob('C06.R5.lock-released', '%s@lock%d' % (short(f.name), locks.index(lk)), path is None,
                   'IO_LOCK is followed by IO_UNLOCK on every path to the function exit',
                   site=f.loc(lk), detail={'path_blocks': path})
            if heavy:
                hp = c.path_avoiding(pos, set(u['i'] for u in unlocks), heavy)
                ctx.ob('C06.R5.no-search-under-lock', '%s@lock%d' % (short(f.name), locks.index(lk)), hp is None,
                       'no call into the search recursion while the output lock is held', site=f.loc(lk))
    ctx.floor('C06.R5.lock-released', n_locks, 15, 'IO_LOCK sites')

    # ---- R6 thread lifetime: the objects the search thread works on outlive it ---------------------------------
    r6_lifetime(ctx, p, entries, handlers, loop)

    ctx.assume('UCI protocol: only stop, isready and quit arrive while a search is running (quantifier of C06)')
    ctx.assume('field-based (object-insensitive) sharing: two accesses to the same field of any object are treated as potentially the same location')
    ctx.note('not decided: wall-clock bound between two polls (one node: move generation + evaluation), data-dependent')


def _joins(p, f, member, seen=None):
    """does f (or a callee) contain <member>.join() such that, when the handle is joinable, the join is executed on
    every path (accepted idiom: `if (m.joinable()) m.join();` not nested in another condition), and is a stop
    requested before it?  returns (joins, stop_before)"""
    seen = seen or set()
    if f.id in seen:
        return False, False
    seen.add(f.id)
    for n, cfid, nm in f.calls():
        if nm == 'std::thread::join' and member in canon(f, kids(kids(n)[0])[0] if kids(kids(n)[0]) else n, inline=False):
            gf = [(canon(f, c, inline=False).replace(' ', ''), t) for c, t in guard_facts(f, n)]
            only_joinable = all(('joinable()' in g and t) for g, t in gf)
            stops = [m for m, cf2, nm2 in f.calls() if _requests_stop(p, cf2, nm2)]
            stop_before = any(f.cfg.node_dominates(m, n) or _guarded_only_by_nonnull(f, m, n) for m in stops)
            return only_joinable, stop_before
    for n, cfid, nm in f.calls():
        g = p.funcs.get(cfid)
        if g is not None and g.body is not None and g.file.startswith(p.root) and not guard_facts(f, n):
            j, sb = _joins(p, g, member, seen)
            if j:
                return j, sb
    return False, False


def _requests_stop(p, fid, name, depth=0):
    """the callee is Search::stop, or an engine function all of whose paths (null-guard aside) call something that is"""
    if short(name) == 'stop' and 'Search' in name:
        return True
    g = p.funcs.get(fid)
    if g is None or g.body is None or not g.file.startswith(p.root) or depth > 3:
        return False
    for m, cf2, nm2 in g.calls():
        if _requests_stop(p, cf2, nm2, depth + 1):
            gf = guard_facts(g, m)
            if not gf or (len(gf) == 1 and gf[0][1]):
                return True
    return False


def _guarded_only_by_nonnull(f, stop_call, join_call):
    """`if (search) search->stop();` placed before the join statement"""
    gf = guard_facts(f, stop_call)
    if len(gf) != 1 or not gf[0][1]:
        return False
    cond = gf[0][0]
    return f.cfg.node_dominates(cond, join_call)


def r6_lifetime(ctx, p, entries, handlers, loop):
    n_t = 0
    for creator, node, entry in entries:
        n_t += 1
        # which object receives the thread?
        par = creator.parent(node)
        while par is not None and par['k'] in ('MaterializeTemporaryExpr', 'CXXBindTemporaryExpr', 'ExprWithCleanups', 'CXXFunctionalCastExpr',
                                              'ImplicitCastExpr', 'CXXConstructExpr'):
            par = creator.parent(par)
        target = None
        if par is not None and par['k'] == 'VarDecl':
            target = ('local', par['name'], par)
        elif par is not None and par['k'] == 'CXXOperatorCallExpr' and par.get('op') == '=':
            l = strip_casts(kids(par)[1])
            if l.get('ref', {}).get('k') == 'Field':
                target = ('member', l['ref']['n'], par)
            elif l.get('ref', {}).get('k') == 'Local':
                target = ('local', l['ref']['n'], par)
        captures_this = any(x['k'] == 'CXXThisExpr' for a in kids(node) for x in walk(a))
        det = [n for f in p.repo_funcs('engine/') for n, cfid, nm in f.calls() if nm == 'std::thread::detach']
        ctx.ob('C06.R6.not-detached', '%s@%d' % (short(creator.name), node.get('l', 0)), not det,
               'no thread working on engine objects is detached (a detached thread can outlive the objects it was given)',
               site=creator.loc(node))
        if target is None:
            raise AnalysisBroken('C06.R6: cannot tell where the thread created at %s is kept' % creator.loc(node))
        if target[0] == 'local':
            # a local handle must be joined before the function returns
            joins = [n for n, cfid, nm in creator.calls() if nm == 'std::thread::join' and target[1] in canon(creator, n, inline=False)]
            ok = bool(joins) and all(creator.cfg.node_postdominates(j, target[2]) for j in joins[:1])
            ctx.ob('C06.R6.joined', '%s:%s' % (short(creator.name), target[1]), ok,
                   'the local thread handle is joined on every path before it goes out of scope', site=creator.loc(node))
            continue
        member = short(target[1])
        owner = target[1].rsplit('::', 1)[0]
        # (a) before the handle is overwritten the old thread has been joined (move-assigning onto a joinable thread terminates)
        pre = [n for n, cfid, nm in creator.calls() if cfid in p.funcs and creator.cfg.node_dominates(n, target[2]) and
               _joins(p, p.funcs[cfid], member)[0]]
        pre_stop = any(_joins(p, p.funcs[cfid], member)[1] for n, cfid, nm in creator.calls()
                       if cfid in p.funcs and creator.cfg.node_dominates(n, target[2]) and _joins(p, p.funcs[cfid], member)[0])
        ctx.ob('C06.R6.join-before-restart', '%s:%s' % (short(creator.name), member), bool(pre) and pre_stop,
               'before a new search thread is stored in %s the previous one is told to stop and joined' % member, site=creator.loc(target[2]))
        # the objects the thread reads must not be replaced between the join and the start by anything but this handler: the
        # Search object is created after the join
        mk = [n for n, cfid, nm in creator.calls() if 'make_shared' in nm and 'Search' in (n.get('t') or '') + cfid]
        ctx.ob('C06.R6.fresh-search-after-join', short(creator.name), bool(mk) and bool(pre) and
               all(creator.cfg.node_dominates(pre[0], m) and creator.cfg.node_dominates(m, target[2]) for m in mk),
               'the Search object handed to the new thread is created after the old thread is gone and before the new one starts',
               site=creator.loc(mk[0]) if mk else creator.loc())
        # (b) the command loop's exit and the destructor stop and join
        exits = []
        lj = [n for n, cfid, nm in loop.calls() if cfid in p.funcs and _joins(p, p.funcs[cfid], member)[0]]
        wl = [n for n in loop.all_nodes() if n['k'] == 'WhileStmt']
        ok_loop = bool(lj) and bool(wl) and any(not loop.inside(j, wl[0]) and loop.cfg.node_postdominates(j, kids(wl[0])[0]) and
                                                _joins(p, p.funcs[j['callee']['fid']], member)[1] for j in lj)
        dtor = [f for f in p.funcs.values() if f.cls == owner and short(f.name).startswith('~') and f.body is not None]
        ok_d = len(dtor) == 1 and any(cfid in p.funcs and all(_joins(p, p.funcs[cfid], member)) for n, cfid, nm in dtor[0].calls())
        ctx.ob('C06.R6.join-before-destruction', owner, ok_d or ok_loop,
               'before the object that owns the thread is destroyed the search is told to stop and its thread is joined: in the destructor (%s) '
               'or where the command loop ends (%s)' % ('yes' if ok_d else 'no', 'yes' if ok_loop else 'no'),
               site=dtor[0].loc() if dtor else loop.loc())
        # (c) the entry function receives `this` of the owner: everything it reads lives in that object or is owned through it
        ctx.ob('C06.R6.argument', short(entry.name), captures_this,
               'the thread works on the owner object itself (passed as `this`)', site=creator.loc(node))
    ctx.floor('C06.R6.threads', n_t, 1, 'thread constructions')


def _loop_key(f, c, header):
    """stable key for a loop: ordinal of the loop header among loop headers by source order"""
    hs = sorted({d for s, d in c.back_edges()},
                key=lambda b: -b)  # clang numbers blocks in reverse source order
    return str(hs.index(header))


def _cycle_avoiding(c, header, latch, body, pts):
    """path header..latch inside `body` meeting no element in pts; returns block list or None"""
    def clean(b):
        return not any(e in pts for e in c.blocks[b]['el'])
    if not clean(header):
        return None
    seen = {header}
    st = [(header, [header])]
    while st:
        b, path = st.pop()
        if b == latch:
            return path
        for k, s in c.succ[b]:
            if s in body and s not in seen and clean(s):
                seen.add(s)
                st.append((s, path + [s]))
    return None


def _reach_any(c, start, ids):
    seen = {start}
    st = [start]
    while st:
        b = st.pop()
        if any(e in ids for e in c.blocks[b]['el']):
            return True
        for k, s in c.succ[b]:
            if s not in seen:
                seen.add(s)
                st.append(s)
    return False
