"""C15 — move classification predicates tell the truth.

R1 DECISION: move_is_capture / move_is_quiet are turned into truth tables
over five named atoms and compared with the specification for all 32 rows.
R2 field validity: a castling Move carries no from/to; in every function that
*decides* something from a move, from()/to() are only evaluated where the
move is known not to be a castling move. R3 the piece that drives the direct
check test is the promoted piece when there is one. R4 COVER of
move_gives_check: six kinds, discovered check on the updated occupancy,
en-passant victim removed, castling tests the rook's destination.
R5 the search consults the predicates on the position before the move is made."""
import itertools

from facts import AnalysisBroken
from prog import walk, kids, short, access_kind
from rules.common import strip_casts, const_of, guard_facts, norm_cond
from rules.effects import canon, single_def

LEVEL = 'other'
EXPLANATION = ('capture/quiet: full relative to the five atoms (castling code, promotion code, target == e.p. square, mover is a pawn, '
               'target occupied) — 32-row decision tables equal the specification. gives-check: partial — field validity, effective '
               'piece, case coverage and occupancy updates are decided; that the bitboard expressions equal "the king is attacked '
               'afterwards" for every position rests on C11 and is otherwise semantic.')
POS = 'engine::Position'

ATOMS = {
    '(castling(move)==NO_CASTLING)': ('c', True),      # canonical leaf -> (atom, leaf is the negation of the atom)
    '(promotion(move)==NO_PIECE_KIND)': ('p', True),
    '(to(move)==enpassant_square())': ('e1', False),
    '(enpassant_square()==to(move))': ('e1', False),
    '(make_piece_kind(piece_at(from(move)))==PAWN)': ('e2', False),
    '(get_piece_kind(piece_at(from(move)))==PAWN)': ('e2', False),
    '(piece_at(to(move))==NO_PIECE)': ('o', True),
}


def leaf_value(f, e, env):
    s = canon(f, e, inline=True).replace(' ', '')
    neg = False
    if '!=' in s and s.count('!=') == 1 and '==' not in s:
        s = s.replace('!=', '==')
        neg = True
    if s not in ATOMS:
        raise AnalysisBroken('DECISION: unrecognised atom %s in %s' % (s, f.name))
    a, inv = ATOMS[s]
    v = env[a]
    if inv:
        v = not v
    return (not v) if neg else v


def eval_bool(f, e, env):
    e = strip_casts(e)
    cv = const_of(e)
    if cv is not None and e['k'] in ('CXXBoolLiteralExpr', 'IntegerLiteral'):
        return bool(cv)
    if e['k'] == 'UnaryOperator' and e.get('op') == '!':
        return not eval_bool(f, kids(e)[0], env)
    if e['k'] == 'BinaryOperator' and e.get('op') == '&&':
        return eval_bool(f, kids(e)[0], env) and eval_bool(f, kids(e)[1], env)
    if e['k'] == 'BinaryOperator' and e.get('op') == '||':
        return eval_bool(f, kids(e)[0], env) or eval_bool(f, kids(e)[1], env)
    return leaf_value(f, e, env)


def decide(f, env):
    """follow the statement list of a predicate of the form  if (cond) return K; ...; return expr;"""
    def run(stmts):
        for s in stmts:
            if s['k'] == 'IfStmt':
                ch = s.get('ch') or []
                c = eval_bool(f, ch[0], env)
                br = ch[1] if c else (ch[2] if len(ch) > 2 else None)
                if br is not None:
                    r = run(kids(br) if br['k'] == 'CompoundStmt' else [br])
                    if r is not None:
                        return r
            elif s['k'] == 'ReturnStmt':
                return eval_bool(f, kids(s)[0], env)
            elif s['k'] in ('NullStmt',):
                continue
            elif s['k'] == 'DeclStmt' and all(d['k'] == 'VarDecl' and single_def(f, d['id']) is not None for d in kids(s)):
                continue      # single-definition locals are inlined into the atoms
            else:
                raise AnalysisBroken('DECISION: statement %s in %s' % (s['k'], f.name))
        return None
    r = run(kids(f.body))
    if r is None:
        raise AnalysisBroken('DECISION: %s falls off the end' % f.name)
    return r


def check(ctx):
    p = ctx.prog()
    # ---- R1 DECISION -------------------------------------------------------------------------------------
    cap = p.fn(POS + '::move_is_capture')
    qui = p.fn(POS + '::move_is_quiet')
    ctx.analysed(cap)
    ctx.analysed(qui)
    names = ['c', 'p', 'e1', 'e2', 'o']
    bad_c, bad_q = [], []
    from rules.norm import Norm, decision, cond_value, Unknown
    kdk = p.enum('engine::PieceKind')
    csk = p.enum('engine::Castling')

    def decide2(f, env, _depth=0):
        val = {'castling(move)': csk['NO_CASTLING'] if env['c'] else csk['KING_CASTLING'],
               'promotion(move)': kdk['NO_PIECE_KIND'] if env['p'] else kdk['QUEEN'],
               ('eq',) + tuple(sorted(['enpassant_square()', 'to(move)'])): env['e1'],
               'make_piece_kind(piece_at(from(move)))': kdk['PAWN'] if env['e2'] else kdk['KNIGHT'],
               'get_piece_kind(piece_at(from(move)))': kdk['PAWN'] if env['e2'] else kdk['KNIGHT'],
               'piece_at(to(move))': 0 if env['o'] else 4,
               'make_piece_kind(piece_at(to(move)))': kdk['NO_PIECE_KIND'] if env['o'] else kdk['ROOK'],
               'get_piece_kind(piece_at(to(move)))': kdk['NO_PIECE_KIND'] if env['o'] else kdk['ROOK']}
        # one predicate may be written in terms of the other: its value in this row is that function's own decision
        if _depth == 0:
            for g in (cap, qui):
                if g is not f and any(c2 == g.id for _n, c2, _nm in f.calls()):
                    val['%s(move)' % short(g.name)] = 1 if decide2(g, env, 1) else 0
        nm = Norm(f)
        nm.val = val
        try:
            r = decision(f, val, nm)
            if r is None:
                raise AnalysisBroken('DECISION: %s falls off the end' % f.name)
            return cond_value(nm, kids(r)[0], val)
        except Unknown as u:
            raise AnalysisBroken('DECISION: %s depends on `%s`, which is not one of the five atoms' % (f.name, u))
    for vals in itertools.product([False, True], repeat=5):
        env = dict(zip(names, vals))
        # the atoms of the table are stated as in ATOMS: c = "not castling", p = "no promotion", o = "target empty"
        ep = env['e1'] and env['e2']
        castling_, promo_, occ_ = not env['c'], not env['p'], not env['o']
        spec_c = (not castling_) and (occ_ or ep)
        spec_q = castling_ or ((not promo_) and (not ep) and (not occ_))
        if decide2(cap, env) != spec_c:
            bad_c.append(env)
        if decide2(qui, env) != spec_q:
            bad_q.append(env)
    ctx.ob('C15.R1.capture-table', 'move_is_capture', not bad_c,
           'move_is_capture == not castling and (target occupied or (pawn and target is the e.p. square)) on all 32 atom rows',
           site=cap.loc(), detail={'wrong_rows': bad_c[:4]})
    ctx.ob('C15.R1.quiet-table', 'move_is_quiet', not bad_q,
           'move_is_quiet == castling or (no promotion and not e.p. and target empty) on all 32 atom rows',
           site=qui.loc(), detail={'wrong_rows': bad_q[:4]})
    ctx.info['decision_rows'] = 64

    # ---- R2 field validity ---------------------------------------------------------------------------------
    deciders = [cap, qui, p.fn(POS + '::move_gives_check'), p.fn(POS + '::uci'), p.fn(POS + '::parse_san'),
                p.fn(POS + '::san_without_check'), p.fn(POS + '::san')]
    # lambdas defined in them
    for f in list(deciders):
        for n in f.all_nodes():
            if n.get('lambda') and n['lambda'] in p.funcs:
                deciders.append(p.funcs[n['lambda']])
    n_ft = 0
    for f in deciders:
        ctx.analysed(f)
        for n, cfid, nm in f.calls():
            if nm not in ('engine::from', 'engine::to'):
                continue
            n_ft += 1
            mv = canon(f, kids(n)[1], inline=False)
            ok, why = _not_castling_here(f, n, mv)
            if not ok and f.d.get('is_lambda'):
                ok, why = _lambda_context(p, f, n, mv)
            ctx.ob('C15.R2.field-validity', '%s:%s(%s)' % (short(f.name) if not f.d.get('is_lambda') else 'lambda@%d' % f.line, short(nm), mv), ok,
                   '%s(%s) is evaluated only where %s is known not to be a castling move (%s)' % (short(nm), mv, mv, why),
                   site=f.loc(n), sample=(n_ft <= 2))
    ctx.floor('C15.R2.field-validity', n_ft, 25, 'from()/to() uses in deciding functions')
    # book moves are never castling-coded before decode_move
    dm = p.fn('engine::PolyglotBook::decode_move')
    ins = []
    for f in p.repo_funcs('engine/polyglot'):
        for n, cfid, nm in f.calls():
            if nm.startswith('std::make_pair') and len(kids(n)) == 3:
                ins.append((f, n))
            elif short(nm) == 'emplace_back' and len(kids(n)) == 3 and '_hashmap' in canon(f, n, inline=False):
                ins.append((f, n))            # _hashmap[key].emplace_back(move, weight): the pair is built in place
    okb = bool(ins)
    for f, n in ins:
        a = strip_casts(kids(n)[1])
        d = single_def(f, a['ref']['id']) if a.get('ref', {}).get('k') == 'Local' else a
        dn = strip_casts(d).get('callee', {}).get('n') if d is not None else None
        g_ = p.funcs.get((strip_casts(d).get('callee') or {}).get('fid')) if d is not None else None
        if dn != 'engine::create_promotion' and g_ is not None and p.is_new_function(g_):
            # built by a helper the reference tree did not have: does every return of it come from create_promotion?
            rets_ = [r_ for r_ in g_.all_nodes() if r_['k'] == 'ReturnStmt' and kids(r_)]
            if rets_ and all(strip_casts(kids(r_)[0]).get('callee', {}).get('n') == 'engine::create_promotion' for r_ in rets_):
                continue
            raise AnalysisBroken('C15: the move stored in the book map is built by %s, a function the reference tree did not have, in a '
                                 'form the rule does not follow' % short(g_.name))
        okb = okb and d is not None and dn == 'engine::create_promotion'
    ctx.ob('C15.R2.book-moves-plain', 'PolyglotBook', okb,
           'every move stored in the book map is built by create_promotion (never castling-coded), so decode_move may read its from/to',
           site=dm.loc())

    # ---- R3 effective piece --------------------------------------------------------------------------------------
    gc = p.fn(POS + '::move_gives_check')
    sw = [n for n in gc.all_nodes() if n['k'] == 'SwitchStmt']
    if len(sw) != 1:
        raise AnalysisBroken('C15: move_gives_check does not decide the direct check by one switch over the piece kind (%d switches): '
                             'the rules about the effective piece and the per-kind attack patterns read that form only' % len(sw))
    ok3 = False
    if len(sw) == 1:
        op = strip_casts(kids(sw[0])[0])
        s = canon(gc, op).replace(' ', '')
        ok3 = 'promotion(move)' in s and 'piece_at(from(move))' in s and \
            s.startswith('((promotion(move)!=NO_PIECE_KIND)?promotion(move):') or \
            s.startswith('((promotion(move)==NO_PIECE_KIND)?make_piece_kind(piece_at(from(move))):promotion(move))')
    ctx.ob('C15.R3.effective-piece', 'move_gives_check', ok3,
           'the direct-check switch is driven by the promoted kind when the move promotes, else by the moved piece', site=gc.loc(sw[0]) if sw else gc.loc())

    # ---- R4 COVER -----------------------------------------------------------------------------------------------------
    pk = p.enum('engine::PieceKind')
    cases = set()
    if sw:
        for n in walk(sw[0]):
            if n['k'] == 'CaseStmt':
                cases.add(n.get('casev'))
    ctx.ob('C15.R4.kinds', 'move_gives_check', cases == {pk[k] for k in ('PAWN', 'KNIGHT', 'BISHOP', 'ROOK', 'QUEEN', 'KING')},
           'the direct-check switch has a case for each of the six piece kinds', site=gc.loc())
    # each case uses the matching attack primitive from the destination square towards the enemy king
    case_ok = True
    if sw:
        body = kids(sw[0])[-1]
        cur = None
        prim = {}
        for st in kids(body):
            x = st
            while x is not None and x['k'] == 'CaseStmt':
                cur = x.get('casev')
                sub = kids(x)
                x = sub[-1] if sub else None
            if x is not None and cur is not None:
                for y in walk(x):
                    c = y.get('callee')
                    if c and c['n'] in ('engine::slider_attack', 'engine::pawn_attacks'):
                        prim.setdefault(cur, set()).add((short(c['n']), short(c.get('targs', ''))))
                    if y.get('ref', {}).get('n') == 'engine::KNIGHT_MASK':
                        prim.setdefault(cur, set()).add(('KNIGHT_MASK', ''))
        want = {pk['PAWN']: {('pawn_attacks', '')}, pk['KNIGHT']: {('KNIGHT_MASK', '')},
                pk['BISHOP']: {('slider_attack', 'BISHOP')}, pk['ROOK']: {('slider_attack', 'ROOK')},
                pk['QUEEN']: {('slider_attack', 'QUEEN')}}
        case_ok = prim == want
    ctx.ob('C15.R4.case-primitives', 'move_gives_check', case_ok,
           'each kind tests its own attack pattern from the destination square (pawn: pawn_attacks of the mover\'s colour; '
           'knight: KNIGHT_MASK; sliders: slider_attack of that kind)', site=gc.loc(), detail={'found': str(prim) if sw else ''})
    # occupancy used for discovered checks: from removed, to added; e.p.: victim removed
    blk = [n for n in gc.all_nodes() if n['k'] == 'VarDecl' and n.get('name') == 'blockers' and not gc.d.get('x')]
    s_all = [canon(gc, n, inline=False).replace(' ', '') for n in gc.all_nodes()
             if n['k'] in ('BinaryOperator', 'CompoundAssignOperator') and n.get('op', '').endswith('=') and
             canon(gc, kids(n)[0], inline=False) == 'blockers' and n['op'] not in ('==', '!=')]
    if not blk:
        raise AnalysisBroken('C15: move_gives_check keeps no occupancy local the rules know (`blockers`): how the from/to squares and the '
                             'e.p. victim enter the discovered-check occupancy is read from its updates only')
    init = [canon(gc, kids(n)[0], inline=False).replace(' ', '') for n in blk if kids(n)]
    removed_from = any('^from_bb' in x for x in init + s_all)
    added_to = any(x in ('(blockers|=to_bb)',) or x.endswith('|to_bb)') for x in s_all)
    victim = [n for n in gc.all_nodes() if n['k'] == 'VarDecl' and n.get('name') == 'captured_bb']
    if not victim and any(canon(gc, n).replace(' ', '').startswith('make_square(rank(from(move)),file(to(move)))') for n in gc.all_nodes()
                          if n['k'] == 'CallExpr'):
        raise AnalysisBroken('C15: move_gives_check computes the e.p. victim square but not as the local the rule reads (`captured_bb`)')
    ok_v = len(victim) == 1 and canon(gc, kids(victim[0])[0]).replace(' ', '') == \
        'square_bb(make_square(rank(from(move)),file(to(move))))' and any('^captured_bb' in x for x in s_all)
    gv = False
    if victim:
        gf = dict((canon(gc, c).replace(' ', ''), t) for c, t in guard_facts(gc, gc.parent(victim[0])))
        gv = gf.get('(make_piece_kind(piece_at(from(move)))==PAWN)') is True and gf.get('(to(move)==enpassant_square())') is True
    ctx.ob('C15.R4.occupancy', 'move_gives_check', removed_from and added_to,
           'discovered checks are computed on the occupancy with the from-square vacated and the to-square occupied', site=gc.loc())
    ctx.ob('C15.R4.ep-victim', 'move_gives_check', ok_v and gv,
           'for an e.p. capture the captured pawn (rank of from, file of to) is also removed before the discovered-check test', site=gc.loc())
    # discovered checks: every `return true` taken on a slider test pairs the diagonal (line) slider look-up from the enemy king with
    # the mover's bishops/queens (rooks/queens); read through named conditions, helpers and lambdas
    import re as _re
    from rules.norm import Norm as _Nd
    nmd = _Nd(gc, inline=False, env={'__targs__': 1})
    disc_found = []
    disc_skipped = []
    pair = True
    for n in gc.all_nodes():
        if n['k'] != 'IfStmt':
            continue
        then = kids(n)[1]
        rt = then if then['k'] == 'ReturnStmt' else (kids(then)[0] if then['k'] == 'CompoundStmt' and len(kids(then)) == 1 else None)
        if rt is None or rt['k'] != 'ReturnStmt' or strip_casts(kids(rt)[0]).get('cv') != 1:
            continue
        for alt in nmd.disj(kids(n)[0]):
            for a_ in alt:
                if a_[0] != 'truthy' or 'slider_attack<' not in str(a_[1]) or 'pieces(' not in str(a_[1]):
                    continue
                m1 = _re.search(r'slider_attack<(\w+)>\(king_sq,', a_[1])
                m2 = _re.search(r'pieces\(color\(\),(\d+),%d\)' % kdk['QUEEN'], a_[1])
                if not m1 or not m2 or not a_[2]:
                    pair = False
                    continue
                extra = [b_ for b_ in alt if b_ is not a_]
                if extra:
                    # the look-up is made only under a further condition: decided per kind of the piece that leaves the square and
                    # promotion piece. A piece uncovers a line only of a kind it does not move along itself (else it would be giving
                    # check before the move); what leaves the square of a promotion is a pawn, whatever it becomes.
                    from rules.norm import Norm as _Nx, cond_value as _cvx, Unknown as _Ux
                    kdm = [x for x in gc.all_nodes() if x['k'] == 'VarDecl' and kids(x) and
                           _Nx(gc, env={'__targs__': 1}).s(kids(x)[0]) == 'make_piece_kind(piece_at(from(move)))']
                    nmx = _Nx(gc, env={'__targs__': 1})
                    line_kind = m1.group(1)
                    ax = [b_ for alt_ in nmx.disj(kids(n)[0]) for b_ in alt_ if b_[0] == 'truthy' and 'slider_attack<' in str(b_[1])]
                    if len(ax) != 1:
                        raise AnalysisBroken('C15: the discovered-check test at %s has more than one slider look-up' % gc.loc(n))
                    for k_ in range(kdk['PAWN'], kdk['KING'] + 1):
                        for pk_ in ([0, kdk['KNIGHT'], kdk['BISHOP'], kdk['ROOK'], kdk['QUEEN']] if k_ == kdk['PAWN'] else [0]):
                            val = {'make_piece_kind(piece_at(from(move)))': k_, 'promotion(move)': pk_, ax[0]: True}
                            nmx.val = val
                            try:
                                made = _cvx(nmx, kids(n)[0], val)
                            except _Ux as u_:
                                raise AnalysisBroken('C15: the discovered-check test at %s is made only when `%s` holds, which the rule '
                                                     'cannot evaluate per piece kind (%s)' % (gc.loc(n), ' && '.join(' '.join(map(str, b_)) for b_ in extra)[:160], u_))
                            along = (kdk['BISHOP'], kdk['QUEEN']) if line_kind == 'BISHOP' else (kdk['ROOK'], kdk['QUEEN'])
                            if k_ not in along and not made:
                                disc_skipped.append('%s leaving its square%s: the %s look-up from the enemy king is skipped' % (
                                    [q for q, v in kdk.items() if v == k_][0], '' if not pk_ else ' to promote to ' + [q for q, v in kdk.items() if v == pk_][0],
                                    'diagonal' if line_kind == 'BISHOP' else 'file/rank'))
                kname = {kdk['BISHOP']: 'BISHOP', kdk['ROOK']: 'ROOK'}.get(int(m2.group(1)))
                disc_found.append((m1.group(1), kname))
                pair = pair and m1.group(1) == kname and kname in ('BISHOP', 'ROOK')
    okd = len(disc_found) >= 4 and {k_ for k_, _ in disc_found} == {'BISHOP', 'ROOK'}
    ctx.ob('C15.R4.discovered', 'move_gives_check', okd and pair and not disc_skipped,
           'discovered checks look from the enemy king along diagonals for own bishops/queens and along lines for own rooks/queens, '
           'for every kind of piece that can uncover such a line%s' % ('' if not disc_skipped else ' — ' + '; '.join(disc_skipped[:3])), site=gc.loc())
    # castling arm, per colour and wing on normal forms: the rook on its destination square attacks the enemy king on the occupancy
    # with king and rook moved
    from rules.norm import Norm as _Nm, decision as _dec, Unknown as _Unk
    sqe = p.enum('engine::Square')
    pce = p.enum('engine::Piece')
    okc = True
    why_c = ''
    for c_ in (0, 1):
        for wing, code in (('K', csk['KING_CASTLING']), ('Q', csk['QUEEN_CASTLING'])):
            val = {'color()': c_, 'castling(move)': code}
            nmc = _Nm(gc, env={'__targs__': 1})
            nmc.val = val
            try:
                r = _dec(gc, val, nmc)
            except _Unk as u:
                raise AnalysisBroken('C15: move_gives_check branches on `%s` before the castling arm' % u)
            got = nmc.s(kids(r)[0]) if r is not None else None
            rk_ = '1' if c_ == 0 else '8'
            files = {'K': ('E', 'H', 'G', 'F'), 'Q': ('E', 'A', 'C', 'D')}[wing]
            rook_from, king_to, rook_to = [sqe['SQ_%s%s' % (f_, rk_)] for f_ in files[1:]]
            own_king = 'square_bb(piece_position(%d))' % pce['W_KING' if c_ == 0 else 'B_KING']
            enemy_king = 'square_bb(piece_position(%d))' % pce['B_KING' if c_ == 0 else 'W_KING']
            occ = '(' + '^'.join(sorted([str(1 << rook_from), str(1 << king_to), str(1 << rook_to), 'pieces()', own_king])) + ')'
            want = '(' + '&'.join(sorted(['slider_attack<ROOK>(%d,%s)' % (rook_to, occ), enemy_king])) + ')'
            if got != want:
                okc = False
                why_c = ' — %s %s-side: found %s, expected %s' % ('White' if c_ == 0 else 'Black', wing, got, want)
    ctx.ob('C15.R4.castling-arm', 'move_gives_check', okc,
           'a castling move gives check iff the rook on its destination (f/d file of the home rank) attacks the enemy king on the '
           'occupancy with king and rook relocated' + why_c, site=gc.loc())

    # ---- R5 consumers -----------------------------------------------------------------------------------------------
    for fn_name in ('engine::Search::search', 'engine::Search::quiescence_search'):
        f = p.fn(fn_name)
        ctx.analysed(f)
        dos = [n for n, cfid, nm in f.calls() if nm == POS + '::do_move']
        preds = [n for n, cfid, nm in f.calls() if nm in (POS + '::move_is_quiet', POS + '::move_gives_check', POS + '::move_is_capture')]
        ok = bool(dos) and bool(preds)
        for pr in preds:
            # predicate evaluated on the node's own position, before the move is made in this iteration
            same_obj = canon(f, kids(kids(pr)[0])[0], inline=False) == canon(f, kids(kids(dos[0])[0])[0], inline=False)
            before = f.cfg.path_avoiding(f.cfg.position(dos[0]), {x['i'] for x, c2, nm in f.calls() if nm == POS + '::undo_move'}, {pr['i']}) is None
            ok = ok and same_obj and before
        ctx.ob('C15.R5.consumers', short(fn_name), ok,
               'pruning decisions call the predicates on the node\'s position before do_move (never between do_move and undo_move)', site=f.loc())
    ctx.assume('legal positions: a bishop/queen of the mover on an open line with the enemy king would already give check, so the moving '
               'piece\'s own from-square cannot create a spurious discovered check')


def _base_var(e):
    for x in walk(e):
        r = x.get('ref')
        if r and r['k'] in ('Local', 'Parm'):
            return r['id']
    return None


def _lambda_context(p, lam, n, mv):
    """from()/to() inside a lambda: a captured move is judged where the lambda is created; the lambda's own
    parameter is judged by the list it is applied to (a list already filtered to non-castling moves)"""
    enc = None
    lnode = None
    for g in p.funcs.values():
        for x in g.all_nodes():
            if x.get('lambda') == lam.id:
                enc, lnode = g, x
    if enc is None:
        return False, 'enclosing function of the lambda not found'
    is_param = any(q['name'] == mv for q in lam.params)
    if not is_param:
        return _not_castling_here(enc, lnode, mv)
    # the lambda is the predicate of filter(list, pred): the list must come from a dominating filter whose
    # predicate rejects castling entries
    call = None
    for a in enc.ancestors(lnode):
        if a.get('callee', {}).get('n', '').startswith('engine::filter'):
            call = a
            break
    if call is None:
        return False, 'lambda parameter: not a filter predicate'
    lst = _base_var(kids(call)[1])
    for m, cfid, nm in enc.calls():
        if nm.startswith('engine::filter') and m is not call and enc.cfg.node_dominates(m, call):
            # result assigned to the same list variable
            par = enc.parent(m)
            while par is not None and par['k'] in ('ImplicitCastExpr', 'CXXConstructExpr', 'MaterializeTemporaryExpr', 'CXXBindTemporaryExpr'):
                par = enc.parent(par)
            tgt = ''
            if par is not None and par.get('op') == '=':
                tgt = _base_var(kids(par)[1] if par['k'] == 'CXXOperatorCallExpr' else kids(par)[0])
            if tgt != lst:
                continue
            pl = [x.get('lambda') for x in walk(m) if x.get('lambda')]
            if pl and pl[0] in p.funcs:
                g = p.funcs[pl[0]]
                # every `return true-ish` of that predicate is under castling(param) == NO_CASTLING
                pn = g.params[0]['name'] if g.params else ''
                rets = [r for r in g.all_nodes() if r['k'] == 'ReturnStmt' and const_of(strip_casts(kids(r)[0])) != 0]
                if rets and all(_not_castling_here(g, r, pn)[0] for r in rets):
                    return True, 'applied to a list already filtered to non-castling moves'
    return False, 'lambda parameter: the filtered list is not known to exclude castling moves'


def _not_castling_here(f, n, mv):
    """is the call node n guarded by facts implying castling(mv) == NO_CASTLING"""
    gf = [(canon(f, c, inline=False).replace(' ', ''), t) for c, t in guard_facts(f, n)]
    d = {}
    for s, t in gf:
        d[s] = t
    no = '(castling(%s)==NO_CASTLING)' % mv
    ne = '(castling(%s)!=NO_CASTLING)' % mv
    if d.get(no) is True or d.get(ne) is False:
        return True, 'guard castling == NO_CASTLING'
    k1 = ['(castling(%s)==KING_CASTLING)' % mv, '(castling(%s)&KING_CASTLING)' % mv]
    k2 = ['(castling(%s)==QUEEN_CASTLING)' % mv, '(castling(%s)&QUEEN_CASTLING)' % mv]
    if any(d.get(x) is False for x in k1) and any(d.get(x) is False for x in k2):
        return True, 'both castling wings excluded by early returns'
    # correlated local: value defined as  c == NO_CASTLING ? ...from(move)... : constant, with c = castling(mv)
    for a in f.ancestors(n):
        if a['k'] == 'ConditionalOperator':
            c = canon(f, kids(a)[0]).replace(' ', '')
            if c == no and f.inside(n, kids(a)[1]):
                return True, 'inside the NO_CASTLING arm of a conditional'
    return False, 'no guard found (facts: %s)' % sorted(k for k, t in gf)[:5]
