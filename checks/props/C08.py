"""C08 — mates are played and mate announcements are true.

Decided (necessary conditions): R1 the -VALUE_INFINITE sentinel of a
max-accumulation loop is never returned; R2 the number after "mate" is in
moves, not plies; R3 search and quiescence adjust mate distances alike; R4 the
no-legal-move test precedes the quiescence switch and the table probe;
R5 futility/null-move pruning are exempt for checks; R6 constant relations of
the mate encoding (compiled witness). Not decided: that an announced mate is
forced/minimal (a game-tree statement)."""
from facts import AnalysisBroken
from prog import walk, kids, short, access_kind
from rules.common import (strip_casts, const_of, guard_facts, thread_entries, sccs, expr_key,
                          norm_cond)
from rules.valstate import ValState
from rules.witness import compile_witness

LEVEL = 'other'
EXPLANATION = ('Partial: sentinel never returned (path-sensitive value analysis of the move loops), mate distance '
               'unit conversion present in the UCI formatter, sibling agreement of the mate-distance adjustment, '
               'ordering of the mate test before quiescence/table probe, pruning exemptions for checks, and '
               'compile-time relations of the score bands. Truth of a specific announcement is not decided.')


def check(ctx):
    p = ctx.prog()
    entries = thread_entries(p)
    t_search = p.reachable_from([entries[0][2]]) if entries else set()
    comps = sccs(p, t_search)
    scc_f = sorted(set().union(*comps)) if comps else []
    ctx.floor('C08.anchors.scc', len(scc_f), 2, 'recursive search functions')
    inf = p.val('engine::VALUE_INFINITE')
    sent = {inf, -inf}

    # ---- R1 sentinel never returned ----------------------------------------------
    n_acc = 0
    for fid in scc_f:
        f = p.funcs[fid]
        ctx.analysed(f)
        accs = {}
        for n in f.all_nodes():
            if n['k'] == 'VarDecl' and kids(n) and const_of(strip_casts(kids(n)[0])) in sent \
                    and 'Value' in n.get('t', ''):
                accs[n['id']] = n
        if not accs:
            continue
        for vid in accs:
            for x in f.all_nodes():
                r = x.get('ref')
                if r and r.get('id') == vid and access_kind(f, x) == 'addr':
                    raise AnalysisBroken('address of accumulator %s taken in %s' % (accs[vid]['name'], f.name))
        vs = ValState(f, sent, accs.keys())
        at, exits = vs.run()
        # sinks: `return acc`, or `Value ret = acc` feeding a return (EXIT_SEARCH macro)
        for n in f.all_nodes():
            tgt = None
            if n['k'] == 'ReturnStmt' and kids(n):
                tgt = strip_casts(kids(n)[0])
                pos_node = n
            elif n['k'] == 'VarDecl' and n.get('name') == 'ret' and kids(n):
                tgt = strip_casts(kids(n)[0])
                pos_node = f.parent(n)   # the DeclStmt is the CFG element
            if tgt is None:
                continue
            vid = vs.local_id(tgt)
            if vid not in accs:
                continue
            n_acc += 1
            states = at.get(pos_node['i'], frozenset())
            if not f.cfg.is_reachable(pos_node) or not states:
                continue
            bad = [s for s in states if (vs.get(s, vid) or 'S') == 'S']
            ctx.ob('C08.R1.sentinel-not-returned', '%s:%s' % (short(f.name), accs[vid]['name']), not bad,
                   'the value returned from %s cannot be the -VALUE_INFINITE initialiser of `%s` '
                   '(every path through the move loop either updates it, leaves, or skips only when it is already set)'
                   % (short(f.name), accs[vid]['name']),
                   site=f.loc(n), detail={'bad_states': [sorted(map(str, s)) for s in bad][:3]})
    ctx.floor('C08.R1.sentinel-not-returned', n_acc, 3, 'returns of sentinel-initialised accumulators')
    ctx.assume('A-LEN: end - begin of a generated move list is non-negative')
    ctx.assume('child search results and evaluations are never +-VALUE_INFINITE (what R1 establishes inductively, plus C14 bounds)')

    # ---- R2 unit discipline in the formatter ---------------------------------------------
    fmt = p.fn('engine::score2str')
    ctx.analysed(fmt)
    n_m = 0
    for n in fmt.all_nodes():
        if n['k'] == 'StringLiteral' and n.get('s', '').startswith('mate'):
            n_m += 1
            stmt = n
            for a in fmt.ancestors(n):
                if a['k'] == 'ReturnStmt':
                    stmt = a
                    break
            args = [kids(x)[-1] for x in walk(stmt) if x.get('callee', {}).get('n') == 'std::to_string']
            ok = bool(args) and all(_has_ply_to_move(p, a) for a in args)
            ctx.ob('C08.R2.mate-in-moves', 'score2str:%r' % n['s'], ok,
                   'the number printed after %r is converted from plies to moves ((d+1)/2 or equivalent); '
                   'VALUE_MATE -/+ score is a distance in plies' % n['s'], site=fmt.loc(n))
    ctx.floor('C08.R2.mate-in-moves', n_m, 2, '"mate" literals in score2str')

    # ---- R3 sibling agreement of the mate-distance adjustment --------------------------------
    shapes = {}
    for fid in scc_f:
        f = p.funcs[fid]
        adj = []
        for n in f.all_nodes():
            if n['k'] == 'IfStmt':
                c = strip_casts(kids(n)[0]) if kids(n) else None
                if c and c.get('callee', {}).get('n') == 'engine::is_mate':
                    adj.append(n)
        if len(adj) != 1:
            ctx.ob('C08.R3.mate-adjust', short(f.name), False,
                   '%s applies the mate-distance adjustment exactly once per searched move (found %d)'
                   % (short(f.name), len(adj)), site=f.loc())
            continue
        a = adj[0]
        var = strip_casts(kids(strip_casts(kids(a)[0]))[-1])
        body = [x for x in walk(kids(a)[1]) if x['k'] == 'CompoundAssignOperator' and x.get('op') == '+=']
        ok = False
        shape = None
        if len(body) == 1:
            lhs, rhs = kids(body[0])
            rhs = strip_casts(rhs)
            if expr_key(lhs) == expr_key(var) and rhs['k'] == 'ConditionalOperator':
                c, t, e = kids(rhs)
                c = strip_casts(c)
                if c['k'] == 'BinaryOperator' and c.get('op') == '>' and expr_key(kids(c)[0]) == expr_key(var) \
                        and const_of(strip_casts(kids(c)[1])) == 0:
                    shape = (const_of(strip_casts(t)), const_of(strip_casts(e)))
                    ok = shape == (-1, 1)
        shapes[fid] = shape
        # ordering: after undo_move, before the comparison with the accumulator
        undo = [n for n, cfid, nm in f.calls() if nm == 'engine::Position::undo_move']
        cmpn = [x for x in f.all_nodes() if x['k'] == 'BinaryOperator' and x.get('op') == '>'
                and expr_key(kids(x)[0]) == expr_key(var)
                and strip_casts(kids(x)[1]).get('ref', {}).get('n') == 'bestValue']
        ordered = bool(undo) and bool(cmpn) and all(f.cfg.node_dominates(u, a) for u in undo) \
            and all(f.cfg.node_dominates(a, c) for c in cmpn)
        ctx.ob('C08.R3.mate-adjust', short(f.name), ok and ordered,
               'child mate scores move one ply toward zero (win: -1, loss: +1) after undo_move and before the best-value comparison',
               site=f.loc(a), detail={'shape': shape})
        # empty list => lost_in(0) if in check else draw
        ok2 = False
        for n in f.all_nodes():
            if n['k'] == 'ConditionalOperator':
                c, t, e = kids(n)
                t, e = strip_casts(t), strip_casts(e)
                if t.get('callee', {}).get('n') == 'engine::lost_in' and const_of(strip_casts(kids(t)[-1])) == 0 \
                        and const_of(e) == p.val('engine::VALUE_DRAW'):
                    gf = guard_facts(f, n)
                    for cond, truth in gf:
                        cc = strip_casts(cond)
                        if cc['k'] == 'BinaryOperator' and cc.get('op') == '==' and truth and \
                                const_of(strip_casts(kids(cc)[1])) == 0:
                            ok2 = True
        ctx.ob('C08.R3.no-move-score', short(f.name), ok2,
               'with an empty move list %s returns lost_in(0) when in check and VALUE_DRAW otherwise' % short(f.name),
               site=f.loc())

    # ---- R4 ordering in search -----------------------------------------------------------
    s = p.fn('engine::Search::search')
    nomove = None
    for n in s.all_nodes():
        if n['k'] == 'ConditionalOperator':
            t = strip_casts(kids(n)[1])
            if t.get('callee', {}).get('n') == 'engine::lost_in':
                nomove = n
    q_calls = [n for n, cfid, nm in s.calls() if nm == 'engine::Search::quiescence_search']
    probes = [n for n, cfid, nm in s.calls() if short(nm) == 'probe']
    incheck = [n for n, cfid, nm in s.calls() if nm == 'engine::Position::is_in_check']
    if nomove is None or not q_calls or not probes or not incheck:
        raise AnalysisBroken('search(): mate test / quiescence call / probe / is_in_check anchors not found')
    # the no-move return "dominates" later code in the sense that later code is only reached on its false edge
    def after_nomove(x):
        for cond, truth in guard_facts(s, x):
            cc = strip_casts(cond)
            if cc['k'] == 'BinaryOperator' and cc.get('op') == '==' and not truth and \
                    const_of(strip_casts(kids(cc)[1])) == 0 and \
                    short(strip_casts(kids(cc)[0]).get('ref', {}).get('n', '')) == 'n_moves':
                return True
        return False
    ctx.ob('C08.R4.mate-before-quiescence', 'search', all(after_nomove(x) for x in q_calls),
           'the "no legal move" return is taken before search() can switch to quiescence (mate-in-one visible at depth 1)',
           site=s.loc(q_calls[0]))
    ctx.ob('C08.R4.mate-before-probe', 'search', all(after_nomove(x) for x in probes),
           'the "no legal move" return is taken before the transposition table is consulted', site=s.loc(probes[0]))
    ctx.ob('C08.R4.check-before-mate-test', 'search', all(s.cfg.node_dominates(i, nomove) for i in incheck[:1]),
           'is_in_check is computed before the mate/stalemate decision', site=s.loc(incheck[0]))

    # ---- R5 pruning exemptions ----------------------------------------------------------------
    conts = [n for n in s.all_nodes() if n['k'] == 'ContinueStmt']
    n_c = 0
    for cst in conts:
        n_c += 1
        gf = guard_facts(s, cst)
        gives = any(strip_casts(c).get('callee', {}).get('n') == 'engine::Position::move_gives_check' and not t
                    for c, t in gf)
        # the enabling flag must itself require !is_in_check
        flag_ok = False
        for c, t in gf:
            vid = strip_casts(c).get('ref', {}).get('id')
            if t and vid is not None:
                for d in s.all_nodes():
                    if d['k'] == 'VarDecl' and d.get('id') == vid and kids(d):
                        for x in walk(kids(d)[0]):
                            xx, neg = norm_cond(x)
                            if neg and short(xx.get('ref', {}).get('n', '')) == 'is_in_check':
                                flag_ok = True
        ctx.ob('C08.R5.futility-exempts-checks', 'search:continue', gives and flag_ok,
               'a move is skipped by futility pruning only if it does not give check and the side to move is not in check',
               site=s.loc(cst))
    ctx.floor('C08.R5.futility-exempts-checks', n_c, 1, 'pruning skips in search()')
    nulls = [n for n, cfid, nm in s.calls() if nm == 'engine::Position::do_null_move']
    for n in nulls:
        gf = guard_facts(s, n)
        ok = any(short(strip_casts(c).get('ref', {}).get('n', '')) == 'is_in_check' and not t for c, t in gf)
        ctx.ob('C08.R5.null-move-not-in-check', 'search:do_null_move', ok,
               'null-move pruning is only tried when the side to move is not in check', site=s.loc(n))

    # ---- R7 the draw cut-offs taken before the mate test rest on C07's predicates --------------------------------------
    from rules.common import SubCtx
    import props.C07 as c07
    sub = SubCtx(ctx)
    c07.check(sub)
    bad = [r for r in sub.results if not r[2] and (r[0].startswith('C07.R3') or r[0].startswith('C07.R4') or r[0].startswith('C07.R2'))]
    ctx.ob('C08.R7.draw-cut', 'is_draw/is_repeated', not bad,
           'search() and quiescence_search() return VALUE_DRAW on is_repeated()/is_draw() before looking for mate: a position wrongly '
           'called a material/50-move/repetition draw hides mates (C07.R2-R4)%s'
           % ('' if not bad else ' — refuted: ' + '; '.join('%s' % r[0] for r in bad)), site=bad[0][4] if bad else s.loc())

    # ---- R6 witness ------------------------------------------------------------------------------
    n_as, fails = compile_witness('C08.cc')
    for (fn_, line, msg) in fails:
        ctx.ob('C08.R6.witness', 'C08.cc:%d' % line, False, 'static_assert failed: ' + msg, site='%s:%d' % (fn_, line))
    for i in range(n_as - len(fails)):
        ctx.ob('C08.R6.witness', 'C08.cc#%d' % i, True, 'mate-encoding relation holds at compile time',
               site='witness/C08.cc', sample=(i < 2))
    ctx.floor('C08.R6.witness', n_as, 10, 'static_asserts')
    ctx.note('not decided: that a printed mate distance is forced or minimal (needs a game-tree solver)')


def _has_ply_to_move(p, e, depth=0):
    """does expression e halve a ply count: x/2, x>>1 (possibly (x+1)/2, x/2 + x%2) or call a helper that does"""
    for x in walk(e):
        if x['k'] == 'BinaryOperator' and x.get('op') == '/' and const_of(strip_casts(kids(x)[1])) == 2:
            return True
        if x['k'] == 'BinaryOperator' and x.get('op') == '>>' and const_of(strip_casts(kids(x)[1])) == 1:
            return True
        c = x.get('callee')
        if c and c['fid'] in p.funcs and c['n'].startswith('engine::') and depth < 2:
            g = p.funcs[c['fid']]
            for r in g.all_nodes():
                if r['k'] == 'ReturnStmt' and kids(r) and _has_ply_to_move(p, kids(r)[0], depth + 1):
                    return True
    return False
