"""C08 — mates are played and mate announcements are true.

Decided (necessary conditions): R1 the -VALUE_INFINITE sentinel of a
max-accumulation loop is never returned; R2 the number after "mate" is in
moves, not plies; R3 search and quiescence adjust mate distances alike; R4 the
no-legal-move test precedes the quiescence switch and the table probe;
R5 futility/null-move pruning are exempt for checks; R6 constant relations of
the mate encoding (compiled witness). Not decided: that an announced mate is
forced/minimal (a game-tree statement)."""
import re
from facts import AnalysisBroken
from prog import walk, kids, short, access_kind
from rules.common import (strip_casts, const_of, guard_facts, thread_entries, sccs, expr_key,
                          norm_cond)
from rules.valstate import ValState
from rules.witness import compile_witness

LEVEL = 'other'
EXPLANATION = ('Partial: sentinel never returned (path-sensitive value analysis of the move loops), mate distance '
               'unit conversion present in the UCI formatter, sibling agreement of the mate-distance adjustment, '
               'ordering of the mate test before quiescence/table probe, pruning exemptions for checks, and '
               'compile-time relations of the score bands. Truth of a specific announcement is not decided.')


def check(ctx):
    p = ctx.prog()
    entries = thread_entries(p)
    t_search = p.reachable_from([entries[0][2]]) if entries else set()
    comps = sccs(p, t_search)
    scc_f = sorted(set().union(*comps)) if comps else []
    ctx.floor('C08.anchors.scc', len(scc_f), 2, 'recursive search functions')
    inf = p.val('engine::VALUE_INFINITE')
    sent = {inf, -inf}

    # ---- R1 sentinel never returned ----------------------------------------------
    n_acc = 0
    for fid in scc_f:
        f = p.funcs[fid]
        ctx.analysed(f)
        accs = {}
        for n in f.all_nodes():
            if n['k'] == 'VarDecl' and kids(n) and const_of(strip_casts(kids(n)[0])) in sent \
                    and 'Value' in n.get('t', ''):
                accs[n['id']] = n
        if not accs:
            continue
        for vid in accs:
            for x in f.all_nodes():
                r = x.get('ref')
                if r and r.get('id') == vid and access_kind(f, x) == 'addr':
                    raise AnalysisBroken('address of accumulator %s taken in %s' % (accs[vid]['name'], f.name))
        vs = ValState(f, sent, accs.keys())
        at, exits = vs.run()
        # sinks: `return acc`, or `Value ret = acc` feeding a return (EXIT_SEARCH macro)
        for n in f.all_nodes():
            tgt = None
            if n['k'] == 'ReturnStmt' and kids(n):
                tgt = strip_casts(kids(n)[0])
                pos_node = n
            elif n['k'] == 'VarDecl' and n.get('name') == 'ret' and kids(n):
                tgt = strip_casts(kids(n)[0])
                pos_node = f.parent(n)   # the DeclStmt is the CFG element
            if tgt is None:
                continue
            vid = vs.local_id(tgt)
            if vid not in accs:
                continue
            n_acc += 1
            states = at.get(pos_node['i'], frozenset())
            if not f.cfg.is_reachable(pos_node) or not states:
                continue
            bad = [s for s in states if (vs.get(s, vid) or 'S') == 'S']
            ctx.ob('C08.R1.sentinel-not-returned', '%s:%s' % (short(f.name), accs[vid]['name']), not bad,
                   'the value returned from %s cannot be the -VALUE_INFINITE initialiser of `%s` '
                   '(every path through the move loop either updates it, leaves, or skips only when it is already set)'
                   % (short(f.name), accs[vid]['name']),
                   site=f.loc(n), detail={'bad_states': [sorted(map(str, s)) for s in bad][:3]})
    ctx.floor('C08.R1.sentinel-not-returned', n_acc, 3, 'returns of sentinel-initialised accumulators')
    ctx.assume('A-LEN: end - begin of a generated move list is non-negative')
    ctx.assume('child search results and evaluations are never +-VALUE_INFINITE (what R1 establishes inductively, plus C14 bounds)')

    # ---- R2 unit discipline in the formatter ---------------------------------------------
    # For a won (lost) mate score the formatter must answer "mate " ("mate -") followed by ceil(plies/2) with
    # plies = VALUE_MATE - score (VALUE_MATE + score); decided per case on normal forms, so nesting of ifs, named locals and
    # conditional expressions do not matter.
    from rules.norm import Norm
    from rules.common import all_guards
    fmt = p.fn('engine::score2str')
    ctx.analysed(fmt)
    vmate = p.val('engine::VALUE_MATE')
    lo_win = vmate - p.val('engine::MAX_DEPTH')
    n_m = 0
    for case, assume, lit, sign in (('won', {('ge', 'score', lo_win): True, ('le', 'score', -lo_win): False}, 'mate ', -1),
                                    ('lost', {('ge', 'score', lo_win): False, ('le', 'score', -lo_win): True}, 'mate -', 1)):
        nm = Norm(fmt, assume=assume)
        feas = []
        for r in [x for x in fmt.all_nodes() if x['k'] == 'ReturnStmt']:
            vals = [(nm.cval(c), t) for c, t in all_guards(fmt, r)]
            if any(v is None for v, t in vals):
                raise AnalysisBroken('score2str: a return is governed by a condition the rule cannot decide for a %s mate score' % case)
            if all(bool(v) == t for v, t in vals):
                feas.append(r)
        ok = len(feas) == 1
        why = '%d returns are possible' % len(feas)
        if ok:
            n_m += 1
            e = kids(feas[0])[0]
            lits = _chosen_literals(nm, e)
            args = [kids(x)[-1] for x in walk(e) if x.get('callee', {}).get('n') == 'std::to_string']
            args += _to_string_args_of_locals(fmt, nm, e)
            ok = lits == [lit] and len(args) == 1
            why = 'prints %s then %d number(s)' % (lits, len(args))
            if ok:
                ok, why = _half_plies(nm, args[0], sign, vmate)
        ctx.ob('C08.R2.mate-in-moves', 'score2str:%s' % case, ok,
               'a %s mate score is printed as %r followed by the distance in moves, (plies+1)/2 with plies = VALUE_MATE %s score — %s'
               % (case, lit, '-' if sign < 0 else '+', why), site=fmt.loc(feas[0]) if feas else fmt.loc())
    ctx.floor('C08.R2.mate-in-moves', n_m, 2, 'mate cases of score2str')

    # ---- R3 sibling agreement of the mate-distance adjustment --------------------------------
    # Semantic form: between undo_move and the comparison with the accumulator, the child result x becomes
    #   x          when x is not a mate score,   x-1  for a won mate score,   x+1  for a lost one
    # decided by executing the (straight-line / if / small pure helper) statements in between on sample values.
    from rules.norm import SymLin, Unknown
    mate = p.val('engine::VALUE_MATE')
    maxd = p.val('engine::MAX_DEPTH')
    cases = [({'mate': False, 'pos': None}, 0, 'a score outside the mate range'), ({'mate': True, 'pos': True}, -1, 'a won mate score'),
             ({'mate': True, 'pos': False}, 1, 'a lost mate score')]
    shapes = {}
    for fid in scc_f:
        f = p.funcs[fid]
        undo = [n for n, cfid, nm in f.calls() if nm == 'engine::Position::undo_move']
        cmpn = [x for x in f.all_nodes() if x['k'] == 'BinaryOperator' and x.get('op') == '>'
                and strip_casts(kids(x)[1]).get('ref', {}).get('n') == 'bestValue'
                and strip_casts(kids(x)[0]).get('ref', {}).get('k') == 'Local']
        ok = False
        why = 'anchors not found'
        site = f.loc()
        if len(undo) >= 1 and len(cmpn) == 1:
            var = strip_casts(kids(cmpn[0])[0])['ref']['n']
            # the statements of the loop body between the last undo_move and the comparison
            stmt_c = cmpn[0]
            while f.parent(stmt_c) is not None and f.parent(stmt_c)['k'] != 'CompoundStmt':
                stmt_c = f.parent(stmt_c)
            block = f.parent(stmt_c)
            u = [x for x in undo if f.inside(x, block)]
            if block is not None and u:
                stmt_u = u[-1]
                while f.parent(stmt_u) is not block:
                    stmt_u = f.parent(stmt_u)
                sib = kids(block)
                lo, hi = sib.index(stmt_u), sib.index(stmt_c)
                between = sib[lo + 1:hi]
                site = f.loc(between[0]) if between else f.loc(stmt_c)
                bad = []
                try:
                    for facts, want, what in cases:
                        binds = {var: ('x', 0)}
                        SymLin(p, facts, mate - maxd).run(f, between, binds, track={var})
                        if binds[var] != ('x', want):
                            bad.append((what, binds[var], want))
                    ok = not bad and lo < hi
                    why = 'decided symbolically for the three cases' if ok else \
                        '%s x becomes %s, must become x%+d' % (bad[0][0], 'x%+d' % bad[0][1][1] if bad[0][1][0] == 'x' else bad[0][1][1], bad[0][2])
                except Unknown as e:
                    raise AnalysisBroken('%s: the code between undo_move and the best-value comparison depends on `%s`, which the rule cannot evaluate' % (f.name, e))
        shapes[fid] = ok
        ctx.ob('C08.R3.mate-adjust', short(f.name), ok,
               'after undo_move and before the best-value comparison child mate scores move one ply toward zero (win: -1, loss: +1) and '
               'other scores are unchanged — %s' % why, site=site)
        # empty list => lost_in(0) if in check else draw
        ok2 = False
        for n in f.all_nodes():
            if n['k'] == 'ConditionalOperator':
                c, t, e = kids(n)
                t, e = strip_casts(t), strip_casts(e)
                if t.get('callee', {}).get('n') == 'engine::lost_in' and const_of(strip_casts(kids(t)[-1])) == 0 \
                        and const_of(e) == p.val('engine::VALUE_DRAW'):
                    gf = guard_facts(f, n)
                    for cond, truth in gf:
                        cc = strip_casts(cond)
                        if cc['k'] == 'BinaryOperator' and cc.get('op') == '==' and truth and \
                                const_of(strip_casts(kids(cc)[1])) == 0:
                            ok2 = True
                        # ... or the list's two ends coincide
                        if cc['k'] == 'BinaryOperator' and cc.get('op') == '==' and truth and \
                                sorted((strip_casts(x).get('ref') or {}).get('n', '?') for x in kids(cc)) == ['begin', 'end']:
                            ok2 = True
        ctx.ob('C08.R3.no-move-score', short(f.name), ok2,
               'with an empty move list %s returns lost_in(0) when in check and VALUE_DRAW otherwise' % short(f.name),
               site=f.loc())

    # ---- R4 ordering in search -----------------------------------------------------------
    s = p.fn('engine::Search::search')
    nomove = None
    for n in s.all_nodes():
        if n['k'] == 'ConditionalOperator':
            t = strip_casts(kids(n)[1])
            if t.get('callee', {}).get('n') == 'engine::lost_in':
                nomove = n
    q_calls = [n for n, cfid, nm in s.calls() if nm == 'engine::Search::quiescence_search']
    probes = [n for n, cfid, nm in s.calls() if short(nm) == 'probe']
    incheck = [n for n, cfid, nm in s.calls() if nm == 'engine::Position::is_in_check']
    if nomove is None or not q_calls or not probes or not incheck:
        raise AnalysisBroken('search(): mate test / quiescence call / probe / is_in_check anchors not found')
    # the no-move return "dominates" later code in the sense that later code is only reached on its false edge
    # the test that guards the no-move return, as a normalised atom: whatever spells "the list is empty" there
    from rules.norm import Norm as _N4, Unknown as _U4
    n4 = _N4(s)
    nm_if = next((a for a in s.ancestors(nomove) if a['k'] == 'IfStmt'), None)
    if nm_if is None:
        raise AnalysisBroken('C08: the no-legal-move return of search() is not the arm of an if')
    try:
        empty_atom = n4.atom(kids(nm_if)[0])
        empty_neg = n4.atom(kids(nm_if)[0], False)
    except _U4:
        raise AnalysisBroken('C08: the test of the no-legal-move return of search() is not a single comparison')

    def after_nomove(x):
        if s.cfg.node_dominates(nm_if, x) is False and not s.cfg.node_dominates(kids(nm_if)[0], x):
            return False
        for cond, truth in guard_facts(s, x):
            try:
                if n4.atom(cond, truth) == empty_neg or (truth is False and n4.atom(cond) == empty_atom):
                    return True
            except _U4:
                continue
        return False
    ctx.ob('C08.R4.mate-before-quiescence', 'search', all(after_nomove(x) for x in q_calls),
           'the "no legal move" return is taken before search() can switch to quiescence (mate-in-one visible at depth 1)',
           site=s.loc(q_calls[0]))
    ctx.ob('C08.R4.mate-before-probe', 'search', all(after_nomove(x) for x in probes),
           'the "no legal move" return is taken before the transposition table is consulted', site=s.loc(probes[0]))
    ctx.ob('C08.R4.check-before-mate-test', 'search', all(s.cfg.node_dominates(i, nomove) for i in incheck[:1]),
           'is_in_check is computed before the mate/stalemate decision', site=s.loc(incheck[0]))

    # ---- R5 pruning exemptions ----------------------------------------------------------------
    conts = [n for n in s.all_nodes() if n['k'] == 'ContinueStmt']
    n_c = 0
    for cst in conts:
        n_c += 1
        gf = guard_facts(s, cst)
        gives = any(strip_casts(c).get('callee', {}).get('n') == 'engine::Position::move_gives_check' and not t
                    for c, t in gf)
        # the enabling flag must itself require !is_in_check
        flag_ok = False
        for c, t in gf:
            vid = strip_casts(c).get('ref', {}).get('id')
            if t and vid is not None:
                for d in s.all_nodes():
                    if d['k'] == 'VarDecl' and d.get('id') == vid and kids(d):
                        for x in walk(kids(d)[0]):
                            xx, neg = norm_cond(x)
                            if neg and short(xx.get('ref', {}).get('n', '')) == 'is_in_check':
                                flag_ok = True
        # ... and only a quiet move: a capture or a promotion can be the one move that parries a mate threat while the material
        # count says the side is lost anyway, so skipping it lets the node return a mate score that is not forced
        from rules.norm import Norm as _Nq, Unknown as _Uq
        nq = _Nq(s)
        quiet = None
        for c, t in gf:
            try:
                at = nq.atom(c, t)
            except _Uq:
                continue
            if isinstance(at, tuple) and at[0] == 'truthy' and isinstance(at[1], str) and 'move_is_quiet(' in at[1]:
                quiet = bool(at[2])
        if quiet is None:
            # the same read off the syntax: the guard is the predicate itself or a never-reassigned local holding it
            from rules.effects import single_def as _sdq
            for c, t in gf:
                c0 = strip_casts(c)
                if (c0.get('ref') or {}).get('k') == 'Local':
                    d0 = _sdq(s, c0['ref']['id'])
                    c0 = strip_casts(d0) if d0 is not None else c0
                if (c0.get('callee') or {}).get('n') == 'engine::Position::move_is_quiet':
                    quiet = bool(t)
        if quiet is None and gives and flag_ok:
            kinds = [nq.s(c) for c, t in gf if any(w in nq.s(c) for w in ('move_is_capture(', 'promotion(', 'captured'))]
            if kinds:
                raise AnalysisBroken('C08: a move is skipped by pruning at %s under `%s`; whether that leaves only quiet moves to be skipped '
                                     'is not something the rule evaluates' % (s.loc(cst), kinds[0][:100]))
        ctx.ob('C08.R5.futility-skips-quiet-only', 'search:continue@%d' % cst.get('l', 0), quiet is True or not (gives and flag_ok),
               'pruning skips a move only if it is quiet (no capture, no promotion): the defence against a mate threat that pruning must '
               'not hide can be a capture', site=s.loc(cst))
        ctx.ob('C08.R5.futility-exempts-checks', 'search:continue', gives and flag_ok,
               'a move is skipped by futility pruning only if it does not give check and the side to move is not in check',
               site=s.loc(cst))
    ctx.floor('C08.R5.futility-exempts-checks', n_c, 1, 'pruning skips in search()')
    nulls = [n for n, cfid, nm in s.calls() if nm == 'engine::Position::do_null_move']
    for n in nulls:
        gf = guard_facts(s, n)
        ok = any(short(strip_casts(c).get('ref', {}).get('n', '')) == 'is_in_check' and not t for c, t in gf)
        ctx.ob('C08.R5.null-move-not-in-check', 'search:do_null_move', ok,
               'null-move pruning is only tried when the side to move is not in check', site=s.loc(n))

    # the value of the search made after a pass (null move) is not the value of a legal line: it may be compared with the
    # window, never returned, stored or stored in the table (a mate score from it would announce a mate that needs the pass)
    from rules.effects import reaching_def
    unulls = [n for n, cfid, nm in s.calls() if nm == 'engine::Position::undo_null_move']
    scc_names = {s.name, 'engine::Search::quiescence_search'}
    for n in nulls:
        tainted = []
        for x in s.all_nodes():
            if x.get('callee', {}).get('n') in scc_names and s.cfg.node_dominates(n, x) and \
                    any(s.cfg.node_dominates(x, u) for u in unulls):
                tainted.append(x)
        ctx.floor('C08.R5.null-move-value', len(tainted), 1, 'searches made after the pass')
        for x in tainted:
            # where does the call's value go?  an initialiser / assignment of a local
            par = s.parent(x)
            while par is not None and par['k'] in ('UnaryOperator', 'ImplicitCastExpr', 'ParenExpr', 'ExprWithCleanups', 'CXXOperatorCallExpr') \
                    and (par['k'] != 'CXXOperatorCallExpr' or par.get('op') == '-'):
                par = s.parent(par)
            vid = None
            defnode = None
            if par is not None and par['k'] == 'VarDecl':
                vid, defnode = par['id'], kids(par)[0]
            elif par is not None and par['k'] == 'BinaryOperator' and par.get('op') == '=':
                t = strip_casts(kids(par)[0])
                if t.get('ref', {}).get('k') == 'Local':
                    vid, defnode = t['ref']['id'], kids(par)[1]
            if vid is None:
                ok = par is not None and par['k'] == 'BinaryOperator' and par.get('op') in ('<', '<=', '>', '>=')
                ctx.ob('C08.R5.null-move-value', 'search:%d' % x.get('l', 0), ok,
                       'the value of the search after a pass is only compared with the window', site=s.loc(x))
                continue
            bad = []
            for u in s.all_nodes():
                r = u.get('ref') or {}
                if r.get('k') != 'Local' or r.get('id') != vid or access_kind(s, u) != 'read':
                    continue
                d = reaching_def(s, u)
                if d is not None and d is not defnode:
                    continue            # another definition (e.g. the verification search without a pass) reaches this use
                if d is None and not s.cfg.node_dominates(x, u):
                    continue
                pu = s.parent(u)
                while pu is not None and pu['k'] in ('ImplicitCastExpr', 'ParenExpr'):
                    pu = s.parent(pu)
                if not (pu is not None and pu['k'] == 'BinaryOperator' and pu.get('op') in ('<', '<=', '>', '>=')):
                    bad.append(u)
            ctx.ob('C08.R5.null-move-value', 'search:%d' % x.get('l', 0), not bad,
                   'the value of the search after a pass is only compared with the window; it is neither returned nor stored%s'
                   % ('' if not bad else ' — used at line(s) %s' % sorted({b.get('l') for b in bad})), site=s.loc(bad[0]) if bad else s.loc(x))

    # ---- R7 the draw cut-offs taken before the mate test rest on C07's predicates --------------------------------------
    from rules.common import SubCtx
    import props.C07 as c07
    sub = SubCtx(ctx)
    c07.check(sub)
    badc = [r for r in sub.results if not r[2] and (r[0].startswith('C07.R6') or r[0].startswith('C07.R5'))]
    ctx.ob('C08.R7.check-test', 'is_in_check', not badc,
           'a node without legal moves is scored as mate or as stalemate by Position::is_in_check (C07.R5/R6)%s'
           % ('' if not badc else ' — refuted: ' + '; '.join('%s %s at %s' % (r[0], r[1], r[4]) for r in badc[:3])),
           site=badc[0][4] if badc else s.loc())
    bad = [r for r in sub.results if not r[2] and (r[0].startswith('C07.R3') or r[0].startswith('C07.R4') or r[0].startswith('C07.R2'))]
    ctx.ob('C08.R7.draw-cut', 'is_draw/is_repeated', not bad,
           'search() and quiescence_search() return VALUE_DRAW on is_repeated()/is_draw() before looking for mate: a position wrongly '
           'called a material/50-move/repetition draw hides mates (C07.R2-R4)%s'
           % ('' if not bad else ' — refuted: ' + '; '.join('%s' % r[0] for r in bad)), site=bad[0][4] if bad else s.loc())

    # ---- R7b what the nodes decide before they look at moves: decided for every valuation of the leading conditions -----
    _entry_table(ctx, p)

    # ---- R8 the line kept is the line of the best move ----------------------------------------------------------------------
    _best_line(ctx, p)

    # ---- R9 mate scores are counted from the node that holds them, so the table stores and returns them untouched ---------------
    _table_scores(ctx, p)

    # ---- R6 witness ------------------------------------------------------------------------------
    n_as, fails = compile_witness('C08.cc')
    for (fn_, line, msg) in fails:
        ctx.ob('C08.R6.witness', 'C08.cc:%d' % line, False, 'static_assert failed: ' + msg, site='%s:%d' % (fn_, line))
    for i in range(n_as - len(fails)):
        ctx.ob('C08.R6.witness', 'C08.cc#%d' % i, True, 'mate-encoding relation holds at compile time',
               site='witness/C08.cc', sample=(i < 2))
    ctx.floor('C08.R6.witness', n_as, 10, 'static_asserts')
    ctx.note('not decided: that a printed mate distance is forced or minimal (needs a game-tree solver)')


def _table_scores(ctx, p):
    """R3 establishes the convention: a mate score counts plies from the node it is returned by (lost_in(0) at the mated node,
    one ply added per level on the way up). Such a score is valid for the position whatever path reached it, so a score goes into
    the transposition table and comes out of it unchanged: arithmetic with the ply of the storing or the probing node (the
    adjustment engines with root-relative mate scores need) would shift announced mate distances."""
    from rules.norm import Norm
    n_r = n_w = 0
    for name in ('engine::Search::search', 'engine::Search::quiescence_search'):
        f = p.fn(name)
        nm = Norm(f, inline=False)
        for n in f.all_nodes():
            r = n.get('ref') or {}
            if not (r.get('k') == 'Field' and r.get('n') == 'engine::tt::TTEntry::score' and access_kind(f, n) == 'read'):
                continue
            n_r += 1
            cur, par = n, f.parent(n)
            partners = []
            while par is not None and par['k'] not in ('CompoundStmt', 'IfStmt', 'DeclStmt', 'ReturnStmt', 'SwitchStmt', 'CaseStmt', 'WhileStmt', 'ForStmt'):
                k = par['k']
                if k in ('BinaryOperator', 'CompoundAssignOperator') and par.get('op') in ('+', '-', '*', '/', '+=', '-=', '<<', '>>', '%'):
                    partners.append(par)
                elif k in ('CallExpr', 'CXXMemberCallExpr', 'CXXOperatorCallExpr') and any(c is cur for c in kids(par)[1:]):
                    cn_ = (par.get('callee') or {}).get('n', '')
                    if not (cn_.startswith('std::max') or cn_.startswith('std::min') or cn_.startswith('std::abs') or
                            par.get('mac') or cn_.startswith('engine::is_mate') or par.get('op') in ('==', '!=', '<', '>', '<=', '>=', '=')):
                        partners.append(par)
                if k == 'VarDecl':
                    break
                cur, par = par, f.parent(par)
            with_ply = [x for x in partners if 'ply' in nm.s(x).lower()]
            if partners and not with_ply:
                raise AnalysisBroken('C08: the table score read at %s goes through `%s`, which the rule does not know' % (f.loc(n), nm.s(partners[0])[:120]))
            ctx.ob('C08.R9.table-score-untouched', '%s:read@%d' % (short(f.name), n.get('l', 0)), not with_ply,
                   'a score taken from the transposition table is used as stored (node-relative mate distance)%s'
                   % ('' if not with_ply else ' — combined with the ply: ' + nm.s(with_ply[0])[:120]), site=f.loc(n), sample=(n_r <= 2))
        for n in f.all_nodes():
            if n['k'] in ('CXXConstructExpr', 'CXXTemporaryObjectExpr') and 'TTEntry' in (n.get('t') or '') and len(kids(n)) >= 4:
                n_w += 1
                a0 = kids(n)[0]
                txt = nm.s(a0)
                calls = [x for x in walk(a0) if x['k'] in ('CallExpr',) and (x.get('callee') or {}).get('n', '').startswith('engine::')]
                ar = [x for x in walk(a0) if x['k'] == 'BinaryOperator' and x.get('op') in ('+', '-')]
                bad = 'ply' in txt.lower()
                if not bad and (calls or ar):
                    raise AnalysisBroken('C08: the score stored at %s is `%s`, which the rule does not know' % (f.loc(n), txt[:120]))
                ctx.ob('C08.R9.table-score-untouched', '%s:store@%d' % (short(f.name), n.get('l', 0)), not bad,
                       'the score stored in the transposition table is the node\'s own value (node-relative mate distance)%s'
                       % ('' if not bad else ' — adjusted by the ply: ' + txt[:120]), site=f.loc(n), sample=(n_w <= 2))
    ctx.floor('C08.R9.table-score-untouched', n_r + n_w, 6, 'table score reads and stores in the search')


def _best_line(ctx, p):
    """search()/quiescence_search(): a move's line is spliced into the node's PV exactly when its value exceeds a running
    maximum that is then raised to that value (so the PV head is a move of maximal value: a mate in one at the root is the
    head), and nothing overwrites the PV afterwards unless no move was ever spliced (the fallback `best_move == NO_MOVE`)."""
    from rules.norm import Norm
    n_spl = 0
    for name in ('engine::Search::search', 'engine::Search::quiescence_search'):
        f = p.fn(name)
        pinfo = [q for q in f.params if q['name'] == 'info']
        if not pinfo:
            raise AnalysisBroken('C08: %s has no frame parameter' % short(f.name))
        nm = Norm(f, keep=('info',))
        own = lambda call, i=1: strip_casts(kids(call)[i]).get('ref', {}).get('id') == pinfo[0]['id']
        splices = [n for n, cfid, cn in f.calls() if cn == 'engine::add_new_move_to_pv_list' and own(n)]
        over = [n for n, cfid, cn in f.calls() if cn in ('engine::set_new_pv_list', 'engine::clear_pv_list') and own(n)]
        if not splices:
            raise AnalysisBroken('C08: %s no longer splices a child PV into its own frame' % short(f.name))
        markers = None              # locals set to the spliced move next to every splice
        for sp in splices:
            n_spl += 1
            mv = strip_casts(kids(sp)[2])
            mid = (mv.get('ref') or {}).get('id')
            blk = f.parent(sp)
            while blk is not None and blk['k'] != 'CompoundStmt':
                blk = f.parent(blk)
            sib = kids(blk) if blk is not None else []
            here = set()
            raised = []
            for st in sib:
                st0 = st
                if st0 is None:
                    continue
                if st0['k'] == 'BinaryOperator' and st0.get('op') == '=':
                    l, r = [strip_casts(x) for x in kids(st0)]
                    if (r.get('ref') or {}).get('id') == mid and mid is not None and (l.get('ref') or {}).get('k') == 'Local':
                        here.add(l['ref']['id'])
                    raised.append((nm.s(l), nm.s(r)))
            markers = here if markers is None else (markers & here)
            # the guard: value > running maximum, and the maximum is raised to the value under that guard
            gf = guard_facts(f, sp)
            strict, weak = [], []
            for c_, t_ in gf:
                c0 = strip_casts(c_)
                if c0['k'] == 'BinaryOperator' and c0.get('op') in ('>', '<', '>=', '<='):
                    a_, b_ = nm.s(kids(c0)[0]), nm.s(kids(c0)[1])
                    op = c0['op']
                    if not t_:
                        op = {'>': '<=', '<': '>=', '>=': '<', '<=': '>'}[op]
                    if op == '>':
                        strict.append((a_, b_))
                    elif op == '<':
                        strict.append((b_, a_))
                    weak.append((a_, b_) if op in ('>', '>=') else (b_, a_))
            ups = []
            for big, small in strict:
                # is `small = big` assigned under the same guard (in this block or an enclosing one up to the comparison)
                for a in [blk] + [x for x in f.ancestors(blk) if x['k'] == 'CompoundStmt']:
                    for st in kids(a):
                        if st is not None and st['k'] == 'BinaryOperator' and st.get('op') == '=' and \
                                nm.s(kids(st)[0]) == small and nm.s(kids(st)[1]) == big:
                            ups.append((small, big))
            capped = [(b2, s2) for b2, s2 in weak if any(s2 == big for small, big in ups)]
            ctx.ob('C08.R8.splice-is-argmax', '%s:%d' % (short(f.name), sp.get('l', 0)), bool(ups) and not capped,
                   'a move\'s line becomes the PV only when its value exceeds a running maximum that is raised to it under the same guard '
                   'and is not required to stay below anything (strict comparisons holding at the splice: %s; maxima raised: %s; '
                   'upper bounds on the value: %s)' % (strict, sorted(set(ups)), capped), site=f.loc(sp))
        # overwrites after a splice
        c = f.cfg
        for ov in over:
            reach = any(c.path_avoiding(c.position(sp), set(), target={ov['i']}) is not None for sp in splices)
            if not reach:
                continue
            ok = False
            for c_, t_ in guard_facts(f, ov):
                c0 = strip_casts(c_)
                if c0['k'] == 'BinaryOperator' and c0.get('op') in ('==', '!='):
                    a_, b_ = [strip_casts(x) for x in kids(c0)]
                    for x, y in ((a_, b_), (b_, a_)):
                        if (x.get('ref') or {}).get('id') in (markers or set()) and const_of(y) == 0 and (c0['op'] == '==') == t_:
                            # and the marker starts as NO_MOVE and is otherwise only set next to a splice
                            ok = True
            ctx.ob('C08.R8.pv-not-overwritten', '%s:%d' % (short(f.name), ov.get('l', 0)), ok,
                   'a PV write that can follow a splice happens only when no move was spliced (a local set to the move next to every '
                   'splice is still NO_MOVE there)', site=f.loc(ov))
    ctx.floor('C08.R8.splice-is-argmax', n_spl, 2, 'PV splices')


class _StopVal(dict):
    """a valuation in which every way of reading the stop flag (conversion, load(), load(order)) has the flag's value"""

    @staticmethod
    def _k(k):
        return 'stop_search' if isinstance(k, str) and re.fullmatch(r'\(?stop_search(\.operator bool\(\)|\.load\([^()]*\))?\)?', k) else k

    def __contains__(self, k):
        return dict.__contains__(self, self._k(k))

    def __getitem__(self, k):
        return dict.__getitem__(self, self._k(k))

    def get(self, k, d=None):
        return dict.get(self, self._k(k), d)


def _entry_table(ctx, p):
    """search()/quiescence_search(): the statements up to the last draw test, evaluated for every valuation of their
    conditions. Only a non-root node of a drawn (material, 50 moves, repetition) game may return VALUE_DRAW before any move
    is tried; every other node goes on to its moves (returning the draw value for a node that is not drawn hides every mate
    below it; cutting the root leaves the answer without a move)."""
    import itertools
    from rules.norm import Norm, cond_value, Unknown
    DRAWS = ('engine::Position::is_draw', 'engine::Position::is_repeated')
    vdraw = p.val('engine::VALUE_DRAW')
    for name in ('engine::Search::search', 'engine::Search::quiescence_search'):
        f = p.fn(name)
        top = [st for st in kids(f.body) if st is not None]
        mention = [i for i, st in enumerate(top) if st['k'] == 'IfStmt' and
                   any((x.get('callee') or {}).get('n') in DRAWS for x in walk(kids(st)[0]))]
        gen = [i for i, st in enumerate(top) if any((x.get('callee') or {}).get('n') == 'engine::generate_moves' for x in walk(st))]
        if not mention or not gen or mention[-1] > gen[0]:
            raise AnalysisBroken('C08: %s: no draw test ahead of move generation among the top-level statements' % short(f.name))
        prefix = top[:mention[-1] + 1]
        nm = Norm(f)
        isq = 'quiescence' in name
        keys = ['check_limits()', 'stop_search.operator bool()', 'stop_search', 'position.is_draw()', 'position.is_repeated()',
                'info._ply', 'depth']

        def outcome(val):
            nv = nm
            for st in prefix:
                k = st['k']
                if k == 'IfStmt':
                    ks = kids(st)
                    br = ks[1] if cond_value(nv, ks[0], val) else (ks[2] if len(ks) > 2 else None)
                    if br is None:
                        continue
                    rets = [x for x in walk(br) if x['k'] == 'ReturnStmt']
                    inner = [x for x in walk(br) if x['k'] in ('IfStmt', 'ForStmt', 'WhileStmt', 'SwitchStmt')]
                    if rets and inner:
                        raise Unknown('a nested decision in the statement at line %s' % st.get('l'))
                    if rets:
                        v = kids(rets[0])[0] if kids(rets[0]) else None
                        r = strip_casts(v) if v is not None else None
                        if r is not None and (r.get('ref') or {}).get('k') == 'Local':
                            from rules.effects import single_def
                            d0 = single_def(f, r['ref']['id'])
                            v = d0 if d0 is not None else v
                        return 'DRAW' if v is not None and nv.cval(v) == vdraw else 'ret'
                elif k in ('ForStmt', 'WhileStmt', 'DoStmt', 'SwitchStmt', 'CXXForRangeStmt', 'ReturnStmt', 'GotoStmt'):
                    if k == 'ReturnStmt' or any(x['k'] == 'ReturnStmt' for x in walk(st)):
                        raise Unknown('statement %s at line %s' % (k, st.get('l')))
            return 'through'

        bad, n = [], 0
        for stop, lim, draw, rep, root, d0 in itertools.product((0, 1), repeat=6):
            val = _StopVal({'check_limits()': lim, 'stop_search': stop, 'position.is_draw()': draw,
                            'position.is_repeated()': rep, 'info._ply': 0 if root else 3, 'depth': 0 if d0 else 3})
            try:
                got = outcome(val)
            except Unknown as e:
                raise AnalysisBroken('C08: %s: the statements before the move loop depend on `%s`, which the entry table cannot evaluate' % (short(f.name), e))
            n += 1
            if stop or lim:
                want = ('ret', 'DRAW')
            elif isq:
                want = ('ret', 'DRAW') if d0 else (('through', 'DRAW') if draw or rep else ('through',))
            else:
                want = ('through', 'DRAW') if (not root and (draw or rep)) else ('through',)
            if got not in want:
                bad.append('stop=%d limits=%d draw=%d repeated=%d root=%d depth0=%d: %s, must be %s' % (stop, lim, draw, rep, root, d0, got, '/'.join(want)))
        ctx.ob('C08.R7.entry-table', short(f.name), not bad,
               'before any move is tried %s returns the draw value only for a %sdrawn node (is_draw / is_repeated) and otherwise goes on to '
               'its moves; not deciding a drawn node here is allowed, mates found below it are still forced '
               '(%d valuations of the leading conditions)%s' % (short(f.name), '' if isq else 'non-root ', n,
                                                                 '' if not bad else ' — ' + '; '.join(bad[:3])),
               site=f.loc(top[mention[0]]))


def _chosen_literals(nm, e):
    """string literals that end up in the value of e, with conditional expressions decided by the normaliser"""
    out = []

    def go(x):
        x = nm.strip(x)
        if x is None:
            return
        if x['k'] == 'StringLiteral':
            out.append(x.get('s', ''))
            return
        if x['k'] == 'ConditionalOperator':
            c, a, b = kids(x)
            cv = nm.cval(c)
            if cv is None:
                go(a)
                go(b)
            else:
                go(a if cv else b)
            return
        if (x.get('ref') or {}).get('k') == 'Local':
            d = nm.resolve(x)
            if d is not x:
                go(d)
            return
        if x.get('callee', {}).get('n') == 'std::to_string':
            return
        for c in kids(x):
            go(c)
    go(e)
    return out


def _to_string_args_of_locals(f, nm, e):
    """to_string(...) calls hidden behind string locals used in e"""
    out = []
    for x in walk(e):
        r = x.get('ref') or {}
        if r.get('k') == 'Local' and 'string' in (x.get('t') or ''):
            d = nm.resolve(x)
            if d is not x:
                out += [kids(y)[-1] for y in walk(d) if y.get('callee', {}).get('n') == 'std::to_string']
    return out


def _half_plies(nm, arg, sign, vmate):
    """arg == (VALUE_MATE + sign*score + 1) / 2  (also >> 1, or n/2 + n%2 with n the ply count)"""
    m = nm.resolve(arg)
    ks = kids(m)
    want = ({'score': sign}, vmate + 1)
    if m['k'] == 'BinaryOperator' and (m.get('op'), nm.cval(ks[1])) in (('/', 2), ('>>', 1)):
        lin = nm.linear(ks[0])
        if lin == want:
            return True, 'numerator %s' % (lin,)
        return False, 'the halved quantity is %s, not plies + 1 = %s' % (lin, want)
    if m['k'] == 'BinaryOperator' and m.get('op') == '+':
        a, b = [nm.resolve(x) for x in ks]
        for x, y in ((a, b), (b, a)):
            if x['k'] == 'BinaryOperator' and (x.get('op'), nm.cval(kids(x)[1])) == ('/', 2) and \
                    y['k'] == 'BinaryOperator' and (y.get('op'), nm.cval(kids(y)[1])) == ('%', 2):
                l1, l2 = nm.linear(kids(x)[0]), nm.linear(kids(y)[0])
                if l1 == l2 == ({'score': sign}, vmate):
                    return True, 'n/2 + n%2'
    lin = nm.linear(m)
    return False, 'the printed number is %s: a distance in plies, not halved' % (str(lin) if lin else nm.s(m))


