"""C13 — static evaluation is colour-symmetric.

Decided with the MIRROR relational type system (rules/mirror.py): the two
instantiations / the two values of strongSide are typed side by side and every
expression is classified as equal (I), mirrored (M), negated (N) or unstable
(U) between a position and its mirror image. Obligations:

R1  every specialised endgame evaluator (strongSideScore, applies) returns I,
    with no frame violation inside; EndgameBase::score returns I;
R2  the general evaluator PositionScorer::score returns I (this types setup<>,
    score_pieces*, score_pawns*, score_king*, helpers in bitboard.h and
    position_bitboards.h, both instantiations);
R3  every table consulted with an absolute index is symmetric or covariant (by value);
R4  the endgame dispatcher: both colours registered for every type next to each
    other, the first applicable evaluator wins, and for every type the WHITE and
    BLACK applicability conditions exclude each other;
R5  piece-list elements picked by a constant index are used symmetrically and the
    list length is fixed by the applicability condition.
"""
import re

from facts import AnalysisBroken
from prog import walk, kids, short
from rules import mirror
from rules.mirror import Mirror, T, I
from rules.atoms import conj, cn, norm_atom, _unbool, flatten
from rules.common import strip_casts, const_of

LEVEL = 'proof'
EXPLANATION = ('Relational typing of the evaluator under the colour swap: scores are shown equal for a position and its mirror image '
               'provided the geometry tables are mirror-covariant (C11) and piece lists are treated as unordered sets.')

EXCEPTIONS = {
    ('kKPsK', 'pawnFile'): 'file of an arbitrary pawn: consulted only behind `pawns == pawns & fileA/H_bb`, where every pawn has that file',
    ('kKBPsK', 'pawnFile'): 'file of an arbitrary pawn: consulted only behind `pawns == pawns & fileA/H_bb`, where every pawn has that file',
    ('kKBPsKB', 'furthestPawnSq'): 'ties for the most advanced rank exist only when pawns stand on two files, and then every use of the file '
                                   'is behind rank(furthest) > rank(furthest2), which is false for both colours',
    ('kKBPsKB', 'file2'): 'the last file different from file1: read only behind fileCount == 2, where that file is unique',
}


def check(ctx):
    p = ctx.prog()
    mir = Mirror(p, ctx)
    mir.exceptions = dict(EXCEPTIONS)
    # ---- R0 the colours are processed one after the other: what one colour's pass reads of the other's state is complete ------------
    # (MIRROR types each function against its opposite-colour twin as if both saw finished tables; that premise is this rule)
    from props.C14 import r6 as _members
    _members(ctx, p, rule='C13.R0.members-built-first')
    # ... and nothing the evaluation reaches keeps state between evaluations (a remembered evaluator, a static scratch value): the
    # two colours would be scored depending on what was scored before (C14.R0)
    from rules.common import SubCtx as _SC14
    from props.C14 import r0 as _r0
    sub14 = _SC14(ctx)
    _r0(sub14, p)
    bad14 = [r for r in sub14.results if not r[2] and r[0] == 'C14.R0.no-hidden-state']
    ctx.ob('C13.R0.no-hidden-state', 'PositionScorer::score', not bad14,
           'nothing reachable from the evaluation writes a variable that outlives it (C14.R0)%s'
           % ('' if not bad14 else ' — ' + '; '.join('%s at %s' % (r[1], r[4]) for r in bad14[:3])), site=bad14[0][4] if bad14 else 'engine/score.cpp')

    # ---- R1 endgame evaluators ----------------------------------------------------------------------------------------
    evals = [f for f in p.funcs.values() if f.name.endswith('::strongSideScore') and f.ctargs and f.body is not None]
    appl = [f for f in p.funcs.values() if f.name.endswith('::applies') and f.ctargs and f.body is not None]
    ctx.floor('C13.R1.evaluators', len(evals), 17, 'endgame evaluators')
    types = sorted({f.ctargs for f in evals})
    for f in sorted(evals + appl, key=lambda f: (f.ctargs, f.name)):
        before = len(mir.viol)
        rt, _ = mir.summary(f, [I] * len(f.params))
        mine = mir.viol[before:]
        ok = rt.m == 'I' and not mine
        what = '%s<%s> gives the same result for a position and its mirror image' % (short(f.name), short(f.ctargs))
        det = {'returns': repr(rt), 'violations': ['%s: %s' % (g.loc(n), m) for g, n, r, m in mine]}
        site = mine[0][0].loc(mine[0][1]) if mine else f.loc()
        ctx.ob('C13.R1.frame', '%s<%s>' % (short(f.name), short(f.ctargs)), ok,
               what + ('' if ok else ' — ' + ('; '.join(det['violations']) or 'returns ' + mir_describe(rt))), site=site, detail=det)
    base = p.fn('engine::endgame::EndgameBase::score')
    before = len(mir.viol)
    rt, _ = mir.summary(base, [I])
    ctx.ob('C13.R1.perspective', 'EndgameBase::score', rt.m == 'I' and len(mir.viol) == before,
           'the strong side\'s score is negated exactly when the weak side is to move', site=base.loc(),
           detail={'violations': ['%s: %s' % (g.loc(n), m) for g, n, r, m in mir.viol[before:]]})
    for key in EXCEPTIONS:
        ctx.ob('C13.R1.exception-live', '%s.%s' % key, key in mir.exceptions_used,
               'listed exception is still needed (%s)' % EXCEPTIONS[key], site='engine/endgame.cpp')

    # ---- R2 general evaluator --------------------------------------------------------------------------------------------
    sc = p.fn('engine::PositionScorer::score')
    before = len(mir.viol)
    rt, _ = mir.summary(sc, [I])
    mine = mir.viol[before:]
    by_fn = {}
    for g, n, r, m in mine:
        by_fn.setdefault(g.id, []).append((g, n, r, m))
    reached = sorted(x for x in mir.nfun if 'PositionScorer' in x or 'engine::get_outposts' in x or 'relative_' in x or
                     'passed_pawn_bb' in x or 'squares_left_behind' in x)
    ctx.floor('C13.R2.functions', len(reached), 15, 'general-evaluator function instantiations typed')
    for fid in reached:
        v = by_fn.pop(fid, [])
        ctx.ob('C13.R2.generic', fid.split('(')[0], not v,
               'typed side by side with its opposite-colour twin: no frame violation' + ('' if not v else ' — ' + '; '.join('%s: %s' % (g.loc(n), m) for g, n, r, m in v)),
               site=v[0][0].loc(v[0][1]) if v else p.funcs[fid].loc(), sample=False,
               detail={'violations': ['%s: %s' % (g.loc(n), m) for g, n, r, m in v]})
    for fid, v in by_fn.items():
        ctx.ob('C13.R2.generic', fid.split('(')[0], False, '; '.join('%s: %s' % (g.loc(n), m) for g, n, r, m in v), site=v[0][0].loc(v[0][1]))
    ctx.ob('C13.R2.result', 'PositionScorer::score', rt.m == 'I',
           'the general evaluation (white minus black, sign by side to move) is equal for a position and its mirror image (type %r)' % rt, site=sc.loc())

    # ---- R3 tables -----------------------------------------------------------------------------------------------------------
    for (name, ms, ics), res in sorted(mir.tables.items()):
        if 'M' not in ms:
            continue
        ctx.ob('C13.R3.table', '%s[%s]' % (short(name), ','.join(ics)), res is not None,
               'indexed by an absolute %s: %s' % ('/'.join(c for m, c in zip(ms, ics) if m == 'M'),
                                                 'symmetric' if res and res[0] == 'I' else 'mirror-covariant' if res else 'NEITHER symmetric nor covariant'),
               site=p.var(name)['file'].replace(p.root + '/', '') + ':%d' % p.var(name)['line'])
    ctx.floor('C13.R3.tables', sum(1 for k in mir.tables if 'M' in k[1]), 8, 'tables consulted with an absolute index')
    for a in sorted(mir.assumed):
        ctx.assume(a)

    # ---- R4 dispatcher ---------------------------------------------------------------------------------------------------------
    add = [f for f in p.funcs.values() if f.name == 'engine::endgame::add' and f.body is not None]
    ctx.floor('C13.R4.add', len(add), 17, 'add<> instantiations')
    for f in add:
        news = [n for n in f.all_nodes() if n['k'] == 'CXXNewExpr']
        cols = []
        for n in news:
            c = [x for x in walk(n) if x['k'] == 'CXXConstructExpr']
            cols.append(const_of(strip_casts(kids(c[0])[0])) if c and kids(c[0]) else None)
        if not news:
            # std::make_unique<...>(colour) inside `for (Color c : {WHITE, BLACK})`, or called twice with constants
            from rules.common import range_for_consts
            mk = [n for n, cfid, nm in f.calls() if nm.startswith('std::make_unique')]
            for n in mk:
                a0 = strip_casts(kids(n)[1]) if len(kids(n)) > 1 else None
                cv = const_of(a0) if a0 is not None else None
                if cv is not None:
                    cols.append(cv)
                    continue
                loop = next((a for a in f.ancestors(n) if a['k'] == 'CXXForRangeStmt'), None)
                rf = range_for_consts(loop) if loop is not None else None
                if rf is not None and a0 is not None and (a0.get('ref') or {}).get('id') == rf[0]['id']:
                    cols.extend(rf[1])
                else:
                    raise AnalysisBroken('C13: add<%s> registers its evaluators in a form the rule does not know' % short(f.targs))
            if not mk:
                raise AnalysisBroken('C13: add<%s> registers its evaluators in a form the rule does not know' % short(f.targs))
        ctx.ob('C13.R4.both-colours', 'add<%s>' % short(f.targs), cols == [0, 1],
               'the evaluator is registered for WHITE and for BLACK as strong side, next to each other (%s)' % cols, site=f.loc(), sample=False)
    init = p.fn('engine::endgame::init')
    regd = [short(p.funcs[c].targs) for n, c, nm in init.calls() if nm == 'engine::endgame::add' and c in p.funcs]
    ctx.ob('C13.R4.registered', 'endgame::init', sorted(regd) == sorted(short(t) for t in types) and len(regd) == len(set(regd)),
           'every evaluator type is registered exactly once (%d)' % len(regd), site=init.loc())
    disp = p.fn('engine::endgame::score')
    loops = [n for n in disp.all_nodes() if n['k'] == 'CXXForRangeStmt']
    if not loops:
        raise AnalysisBroken('C13: endgame::score does not walk its evaluators in a range-for (std::find_if or an index loop?); the rule '
                             'reads "first that applies" from that loop only')
    okd = len(loops) == 1
    if okd:
        rets = [n for n in walk(loops[0]) if n['k'] == 'ReturnStmt']
        okd = len(rets) == 1 and 'score' in cn(disp, kids(rets[0])[0]) and \
            any('applies' in cn(disp, c) and t for c, t in __import__('rules.common', fromlist=['guard_facts']).guard_facts(disp, rets[0]))
    ctx.ob('C13.R4.first-applicable', 'endgame::score', okd, 'the first registered evaluator that applies scores the position', site=disp.loc())
    excl_rule(ctx, p, types, appl)

    # ---- R5 piece-list elements -----------------------------------------------------------------------------------------------
    list_rule(ctx, p, evals, appl)
    ctx.info['mirror'] = {'expressions_typed': mir.nexpr, 'function_instances': len(mir.nfun)}
    ctx.note('piece lists are treated as unordered sets: iteration results must be order independent (checked), elements picked by a constant '
             'index must be used symmetrically (R5)')


def mir_describe(t):
    return {'I': 'equal', 'M': 'an absolute (mirrored) value', 'N': 'a value that changes sign', 'U': 'an order/choice dependent value',
            'L': 'an unbalanced sum over named colours'}.get(t.m, t.m)


def count_atoms(f, p):
    """constraints on piece counts implied by an applies() body: {(S, KIND): (lo, hi)} with S in strong/weak; KIND 'NONPAWN' for no_nonpawns;
    'ONLYKING' marker for the weak side"""
    rets = [n for n in f.all_nodes() if n['k'] == 'ReturnStmt']
    if len(rets) != 1:
        return None
    out = {}
    for a in flatten(kids(rets[0])[0], '&&'):
        s = cn(f, a, inline=True).replace('this.', '')
        m = re.fullmatch(r'\(position\.number_of_pieces\(make_piece\((strongSide|weakSide),(\w+)\)\)(==|>=|>|<=|<)(\d+)\)', s)
        if m:
            side, kind, op, c = m.group(1), m.group(2), m.group(3), int(m.group(4))
            out[(side, kind)] = rng(op, c)
            continue
        m = re.fullmatch(r'\(position\.no_nonpawns\((strongSide|weakSide)\)(==|>=|>|<=|<)(\d+)\)', s)
        if m:
            out[(m.group(1), 'NONPAWN')] = rng(m.group(2), int(m.group(3)))
            continue
        if s in ('(position.pieces(weakSide)==position.pieces(weakSide,KING))', '(popcount(position.pieces(weakSide))==1)'):
            for kd in ('PAWN', 'KNIGHT', 'BISHOP', 'ROOK', 'QUEEN', 'NONPAWN'):
                out[('weakSide', kd)] = (0, 0)
            out[('weakSide', 'ONLYKING')] = (1, 1)
            continue
        m = re.fullmatch(r'\(\(position\.number_of_pieces\(make_piece\((strongSide|weakSide),KNIGHT\)\)\+position\.number_of_pieces\(make_piece\(\1,BISHOP\)\)\)(==)(\d+)\)', s)
        if m:
            out[(m.group(1), 'MINORS')] = rng(m.group(2), int(m.group(3)))
            continue
        out[('?', s)] = None
    return out


def rng(op, c):
    INF = 99
    return {'==': (c, c), '>=': (c, INF), '>': (c + 1, INF), '<=': (0, c), '<': (0, c - 1)}[op]


def excl_rule(ctx, p, types, appl):
    """for every type, applies() cannot hold for strong=WHITE and strong=BLACK on the same position"""
    generic = {}
    for f in appl:
        generic[f.ctargs] = f
    pe = p.enum('engine::Piece')
    for t in types:
        f = generic.get(t)
        if f is None:
            raise AnalysisBroken('C13: no applies() for %s' % t)
        rets = [n for n in f.all_nodes() if n['k'] == 'ReturnStmt']
        s = cn(f, kids(rets[0])[0], inline=True).replace('this.', '') if len(rets) == 1 else ''
        if 'get_pcv()' in s and 'pcv[strongSide]' in s.replace('this.', ''):
            name = [x['ref']['n'] for x in f.all_nodes() if x.get('ref', {}).get('k') in ('StaticMember', 'Global') and x['ref']['n'].endswith('::pcv')]
            v = p.val(name[0])
            ok = v[0] != v[1]
            ctx.ob('C13.R4.exclusive', short(t), ok, 'applicability is equality with a per-colour material signature and the two signatures differ',
                   site=f.loc(), sample=False)
            continue
        c = count_atoms(f, p)
        ok = False
        why = 'unrecognised applicability condition'
        if c is not None and not any(k[0] == '?' for k in c):
            for (side, kind), r in c.items():
                if side == 'strongSide' and ('weakSide', kind) in c:
                    r2 = c[('weakSide', kind)]
                    if r[1] < r2[0] or r2[1] < r[0]:
                        ok = True
                        why = 'the %s counts demanded of the strong side %s and of the weak side %s cannot both hold with roles swapped' % (kind, r, r2)
                        break
            if not ok and ('weakSide', 'ONLYKING') in c and not any(k[0] == 'strongSide' for k in c):
                ok = True
                why = 'both colours qualify only with two bare kings, a position drawn by material (excluded by the property)'
        elif c is not None:
            raise AnalysisBroken('C13: applicability condition of %s not understood: %s' % (t, [k[1] for k in c if k[0] == '?']))
        ctx.ob('C13.R4.exclusive', short(t), ok, why, site=f.loc(), sample=False)


def ccanon(f, n, swap=None):
    """canonical string with commutative operators sorted and sums flattened; swap=(a, b) exchanges two sub-expressions"""
    n = _unbool(n)
    k = n['k']
    if k in ('BinaryOperator', 'CXXOperatorCallExpr') and n.get('op') in ('+', '*', '==', '!=', '&', '|', '&&', '||'):
        op = n['op']
        ks = kids(n) if k == 'BinaryOperator' else kids(n)[1:]
        parts = []

        def fl(x):
            x = _unbool(x)
            if x['k'] in ('BinaryOperator', 'CXXOperatorCallExpr') and x.get('op') == op and op in ('+', '*', '&', '|', '&&', '||'):
                for y in (kids(x) if x['k'] == 'BinaryOperator' else kids(x)[1:]):
                    fl(y)
            else:
                parts.append(ccanon(f, x, swap))
        for x in ks:
            fl(x)
        return '(' + op.join(sorted(parts)) + ')'
    s = cn(f, n, inline=True).replace('this.', '')
    if swap and s in swap:
        return swap[1] if s == swap[0] else swap[0]
    if kids(n) and not n.get('ref'):
        for x in kids(n):
            cx = cn(f, x, inline=True).replace('this.', '')
            cc = ccanon(f, x, swap)
            if cx != cc and cx in s:
                s = s.replace(cx, cc)
    elif n.get('ref', {}).get('k') == 'Local':
        from rules.effects import single_def
        d = single_def(f, n['ref']['id'])
        if d is not None:
            return ccanon(f, d, swap)
    return s


def list_rule(ctx, p, evals, appl):
    applies = {f.ctargs: f for f in appl}
    nsites = 0
    for f in evals:
        uses = {}
        for n, cfid, nm in f.calls():
            if nm != 'engine::Position::piece_position':
                continue
            a = kids(n)[1:]
            piece = cn(f, a[0], inline=True).replace('this.', '')
            idx = const_of(strip_casts(a[1])) if len(a) > 1 else 0
            if idx is None:
                continue
            if 'KING' in piece or piece in ('strongKing', 'weakKing'):
                continue
            uses.setdefault(piece, set()).add(idx)
        for piece, idxs in sorted(uses.items()):
            nsites += 1
            need = max(idxs) + 1
            m = re.fullmatch(r'make_piece\((strongSide|weakSide),(\w+)\)', piece)
            cnt = None
            if m:
                cnt = list_length(p, f, applies.get(f.ctargs), m.group(1), m.group(2))
            ok = cnt == (need, need)
            sym = True
            if ok and need > 1:
                # swapping the elements must not change any returned expression or condition
                a_, b_ = 'position.piece_position(%s,0)' % piece, 'position.piece_position(%s,1)' % piece
                for r in [x for x in f.all_nodes() if x['k'] in ('ReturnStmt', 'IfStmt')]:
                    e = kids(r)[0]
                    if ccanon(f, e) != ccanon(f, e, (a_, b_)):
                        sym = False
            ctx.ob('C13.R5.list-element', '%s<%s>:%s' % (short(f.name), short(f.ctargs), piece), ok and sym,
                   'elements %s of the %s list are picked by constant index: the list has exactly %d element(s) (%s)%s'
                   % (sorted(idxs), piece, need, 'established by applies/guard' if ok else 'NOT established: %s' % (cnt,),
                      '' if need == 1 else (' and they are used symmetrically' if sym else ' but they are NOT used symmetrically')),
                   site=f.loc(), sample=False)
    ctx.floor('C13.R5.sites', nsites, 8, 'constant-index piece-list uses')


def list_length(p, f, app, side, kind):
    """(lo, hi) of number_of_pieces(make_piece(side, kind)) established by the pcv signature, applies() atoms or a guard in f"""
    if app is not None:
        rets = [n for n in app.all_nodes() if n['k'] == 'ReturnStmt']
        s = cn(app, kids(rets[0])[0], inline=True).replace('this.', '') if len(rets) == 1 else ''
        if 'get_pcv()' in s:
            name = [x['ref']['n'] for x in app.all_nodes() if x.get('ref', {}).get('k') in ('StaticMember', 'Global') and x['ref']['n'].endswith('::pcv')]
            v = p.val(name[0])[0]       # signature with WHITE strong
            pe = p.enum('engine::Piece')
            piece = pe[('W_' if side == 'strongSide' else 'B_') + kind]
            c = (v >> (4 * piece)) & 0xF
            return (c, c)
        c = count_atoms(app, p)
        if c and (side, kind) in c:
            r = c[(side, kind)]
            if r[0] == r[1]:
                return r
    # a guard inside the evaluator: if (!(n(S,K) == c && ...)) return ...;
    for n in f.all_nodes():
        if n['k'] == 'IfStmt':
            s = cn(f, kids(n)[0], inline=True).replace('this.', '')
            m = re.search(r'position\.number_of_pieces\(make_piece\(%s,%s\)\)==(\d+)' % (side, kind), s)
            if m and s.startswith('!(') and any(x['k'] == 'ReturnStmt' for x in walk(kids(n)[1])):
                return (int(m.group(1)), int(m.group(1)))
    return None
