"""C18 — opening-book keys follow the Polyglot specification.

Partial. The published 781 constants are not available on this machine, so
their values are tied to a reference digest frozen after the pinned tree passed
the nine published test vectors, plus the handful of values that are quoted
widely enough to be stated here (first eight, row starts, castling, e.p., turn).
R1 decides that the evaluated tables, put into the specification's order through
the engine's Piece numbering, still are those values (any edit of a constant,
a swapped row, a shifted square order changes keys). R2 decides the structure of
PolyglotBook::hash(): XOR-only accumulation, every piece of every list entry,
each special constant governed by exactly the condition the format states."""
import hashlib

import re

from facts import AnalysisBroken
from prog import walk, kids, short
from rules.atoms import cn, conj, facts_atoms, norm_atom, _unbool
from rules.common import strip_casts, const_of, guard_facts, counting_for, for_init_const

LEVEL = 'other'
EXPLANATION = ('Partial: table values against a frozen reference digest and quoted anchors; structure of hash() against the format '
               'description (piece loop, castling, en passant with adjacent capturer of the side to move, turn). '
               'The 781 values themselves cannot be compared with the publication offline.')
REF_SHA256 = '9aee840377ba74c9a7fe8e254958ad312aa15766257d18823f866b070cbcc9e8'
# index in the published Random64 array -> value (widely quoted entries)
ANCHORS = {
    0: 0x9D39247E33776D41, 1: 0x2AF7398005AAA5C7, 2: 0x44DB015024623547, 3: 0x9C15F73E62A76AE2,
    4: 0x75834465489C0C89, 5: 0x3290AC3A203001BF, 6: 0x0FBBAD1F61042279, 7: 0xE83A908FF2FB60CA,
    64: 0x5355F900C2A82DC7,
    768: 0x31D71DCE64B2C310, 769: 0xF165B587DF898190, 770: 0xA57E6339DD2CF3A0, 771: 0x1EF6E6DBB1961EC9,
    772: 0x70CC73D90BC26E24, 773: 0xE21A6B35DF0C3AD7, 774: 0x003A93D8B2806962, 775: 0x1C99DED33CB890A1,
    776: 0xCF3145DE0ADD4289, 777: 0xD0E4427A5514FB72, 778: 0x77C621CC9FB3A483, 779: 0x67A34DAC4356550B,
    780: 0xF8D626AAAF278509,
}
KINDS = ['PAWN', 'KNIGHT', 'BISHOP', 'ROOK', 'QUEEN', 'KING']
E = 'engine::'


def check(ctx):
    p = ctx.prog()
    h = p.fn(E + 'PolyglotBook::hash')
    ctx.analysed(h)
    pe = p.enum(E + 'Piece')
    sq = p.enum(E + 'Square')
    ce = p.enum(E + 'Castling')

    # the specification's key depends on piece placement, castling flags, the e.p. file when a pawn of the side to move stands
    # next to the pushed pawn, and the side to move: nothing about attacks or legality. hash() must not reach the move
    # generator, the attack tables' users in position.cpp (is_in_check, move_gives_check, ...) or the search.
    reach = p.reachable_from([h.id])
    deep = sorted({short(p.funcs[x].name) for x in reach if p.funcs[x].file.startswith(p.root) and
                   (p.funcs[x].file.endswith(('movegen.cpp', 'movegen.h', 'search.cpp', 'move_bitboards.cpp', 'score.cpp', 'endgame.cpp')) or
                    short(p.funcs[x].name) in ('is_in_check', 'is_checkmate', 'is_stalemate', 'move_gives_check', 'do_move', 'undo_move'))})
    ctx.ob('C18.R2.placement-only', 'hash', not deep,
           'the key is computed from piece placement, rights, e.p. square and side only; hash() reaches no legality/attack code%s'
           % ('' if not deep else ' — it reaches ' + ', '.join(deep[:6])), site=h.loc())

    # ---- which globals does hash() use, and how ------------------------------------------------------------------------------
    xors = [n for n in h.all_nodes() if n['k'] == 'CompoundAssignOperator' and cn(h, kids(n)[0]) == 'key']
    other = [n for n in h.all_nodes() if n['k'] in ('BinaryOperator', 'CompoundAssignOperator') and n.get('op', '').endswith('=') and
             n.get('op') not in ('==', '!=', '<=', '>=') and cn(h, kids(n)[0]) == 'key' and n.get('op') != '^=']
    kd = [n for n in h.all_nodes() if n['k'] == 'VarDecl' and n.get('name') == 'key']
    rets = [n for n in h.all_nodes() if n['k'] == 'ReturnStmt']
    # what the key is made of besides the pieces is decided per valuation by special_terms() below
    ctx.floor('C18.R2.xors', len(xors), 3, 'key ^= sites')

    def is_sq_order():
        # a1 = 0, b1 = 1, ..., h8 = 63 (row-major from White's side), as in the specification's 8*row + file
        return sq.get('SQ_A1') == 0 and sq.get('SQ_B1') == 1 and sq.get('SQ_A2') == 8 and sq.get('SQ_H8') == 63
    ctx.ob('C18.R1.square-order', 'Square', is_sq_order(), 'squares are numbered 8*row + file from a1, the order of the published table', site='engine/types.h')

    # piece term
    piece_x = [n for n in xors if _unbool(kids(n)[1])['k'] == 'ArraySubscriptExpr' and 'PIECE' in cn(h, kids(n)[1])]
    okp = False
    shape_a = False
    tbl = None
    if len(piece_x) == 1:
        n = piece_x[0]
        e = _unbool(kids(n)[1])
        inner = _unbool(kids(e)[0])
        tbl = _unbool(kids(inner)[0]).get('ref', {}).get('n') if inner['k'] == 'ArraySubscriptExpr' else None
        pidx = cn(h, kids(inner)[1]) if inner['k'] == 'ArraySubscriptExpr' else None
        sidx = cn(h, kids(e)[1])
        loops = [a for a in h.ancestors(n) if a['k'] == 'ForStmt']
        if len(loops) == 2 and pidx:
            shape_a = True
            inner_l, outer_l = loops[0], loops[1]
            oi = outer_l['ch']
            v = [x for x in walk(oi[0]) if x['k'] == 'VarDecl'] if oi[0] else []
            lo = const_of(strip_casts(kids(v[0])[0])) if len(v) == 1 and kids(v[0]) else None
            cond = oi[2]
            hi = None
            if cond is not None and cond['k'] == 'BinaryOperator' and cn(h, kids(cond)[0]) == pidx:
                c = const_of(strip_casts(kids(cond)[1]))
                hi = c if cond['op'] == '<=' else c - 1 if cond['op'] == '<' else None
            inc = oi[3]
            inc_ok = inc is not None and inc.get('op') == '++' and cn(h, kids(inc)[-1]) == pidx
            cf = counting_for(h, inner_l)
            bound = cn(h, inner_l['ch'][2]) if inner_l['ch'][2] else ''
            ii = [x for x in walk(inner_l['ch'][0]) if x['k'] == 'VarDecl'] if inner_l['ch'][0] else []
            iv = ii[0]['name'] if len(ii) == 1 else None
            size_ok = False
            if cf and iv:
                bnode = kids(inner_l['ch'][2])[1]
                bs = cn(h, bnode, inline=True)
                size_ok = for_init_const(inner_l) == 0 and cf[2] == '<' and bs == 'position.number_of_pieces(%s)' % pidx
            okp = lo == min(v_ for k_, v_ in pe.items() if k_ != 'NO_PIECE') and hi == max(pe.values()) and inc_ok and size_ok and \
                sidx == 'position.piece_position(%s,%s)' % (pidx, iv) and not guard_atoms_other(h, n, {pidx, iv})
    if not okp and len(piece_x) == 1 and not shape_a:
        # other spelling: one loop over the 64 squares, XOR of TABLE[piece on the square][square] (the NO_PIECE row is empty, R1)
        from rules.norm import Norm
        n = piece_x[0]
        nmh = Norm(h)
        e = _unbool(kids(n)[1])
        loops = [a for a in h.ancestors(n) if a['k'] == 'ForStmt']
        if len(loops) == 1:
            cf = counting_for(h, loops[0])
            lo = for_init_const(loops[0])
            if cf:
                iv = next(x['name'] for x in h.all_nodes() if x['k'] == 'VarDecl' and x.get('id') == cf[0])
                hi = nmh.cval(cf[1])
                hi = hi if cf[2] == '<=' else (hi - 1 if hi is not None and cf[2] in ('<', '!=') else None)
                sidx = nmh.s(kids(e)[1])
                inner = _unbool(kids(e)[0])
                pidx = nmh.s(kids(inner)[1]) if inner['k'] == 'ArraySubscriptExpr' else None
                tbl = _unbool(kids(inner)[0]).get('ref', {}).get('n') if inner['k'] == 'ArraySubscriptExpr' else None
                g = nmh.facts(guard_facts(h, n))
                g = frozenset(a for a in (g or []) if a[1] != iv and a[0] not in ('<', '<='))
                okp = lo == 0 and hi == 63 and sidx == iv and pidx == 'position.piece_at(%s)' % iv and \
                    g in (frozenset(), frozenset({('in', 'position.piece_at(%s)' % iv, frozenset(range(1, 13)))}))
        if not okp:
            raise AnalysisBroken('C18: the piece term of hash() is written in a form the rule does not know')
    ctx.ob('C18.R2.piece-term', 'hash', okp,
           'every entry of every piece list (all twelve pieces) contributes TABLE[piece][square of that entry], unconditionally', site=h.loc())

    # ---- R1 table values ---------------------------------------------------------------------------------------------------------
    specials = {}
    for n in xors:
        if n in piece_x:
            continue
        e = _unbool(kids(n)[1])
        specials[n['i']] = (n, e)
    if tbl is None:
        raise AnalysisBroken('C18: piece table not identified')
    v = p.val(tbl)
    dims = p.var(tbl)['dims']
    if dims != [len(pe), 64]:
        ctx.ob('C18.R1.table-shape', short(tbl), False, 'piece table has shape [pieces][64] (%s)' % dims, site='engine/polyglot.cpp')
        return
    seq = []
    for kp in range(12):
        name = ('W_' if kp % 2 else 'B_') + KINDS[kp // 2]
        seq += v[pe[name]]
    # castling / e.p. / turn constants: identified through their use below
    use = special_terms(ctx, p, h, ce)
    if use is None:
        return
    seq += [use['W_OO'], use['W_OOO'], use['B_OO'], use['B_OOO']] + list(use['EP']) + [use['TURN']]
    digest = hashlib.sha256(b''.join(int(x).to_bytes(8, 'big') for x in seq)).hexdigest()
    ctx.ob('C18.R1.count', 'constants', len(seq) == 781 and len(set(seq)) == 781 and all(x == 0 for x in v[pe['NO_PIECE']]),
           '781 constants, pairwise distinct; the NO_PIECE row is empty', site='engine/polyglot.cpp')
    bad = sorted(i for i, val in ANCHORS.items() if i < len(seq) and seq[i] != val)
    ctx.ob('C18.R1.anchors', 'constants', not bad,
           'the widely quoted entries of the published array (indices %s) are where the specification puts them%s'
           % (sorted(ANCHORS), '' if not bad else ' — differing at %s' % bad), site='engine/polyglot.cpp')
    ctx.ob('C18.R1.reference-digest', 'constants', digest == REF_SHA256,
           'the 781 values in specification order (black pawn, white pawn, ..., white king; a1..h8; castling KQkq; e.p. a..h; turn) '
           'hash to the frozen reference (%s)' % digest[:16], site='engine/polyglot.cpp')
    ctx.note('reference digest frozen on the tree that passes the nine published vectors of PolyglotTest.hashTest; the publication itself is not available offline')


def guard_atoms_other(h, n, allowed_vars):
    """guards on a node other than loop bounds over the allowed variables"""
    out = []
    for a in facts_atoms(h, guard_facts(h, n)):
        s = str(a)
        if any(v and v in s for v in allowed_vars):
            continue
        out.append(a)
    return out


def special_terms(ctx, p, h, ce):
    """the XOR terms other than the piece terms, by evaluation: for every combination of side to move, castling rights and e.p.
    situation the constants XORed into the key (effects of hash() under that valuation, constants evaluated by clang) are exactly:
    one constant per right held, the constant of the e.p. file when the e.p. square is set and a pawn of the side to move
    stands on a square it could capture from, and the turn constant when White is to move. The capturer test is compared by
    value (which squares are looked at), so spelling it from the e.p. square's side or from the pawns' side is the same."""
    from rules.cases import effects_under
    from rules.norm import Norm, SYNONYMS
    M64 = (1 << 64) - 1

    def shift(bb, d):
        # engine geometry: NORTH = +8, EAST = +1, with file wrap masked
        fa, fh = 0x0101010101010101, 0x8080808080808080
        if d == 7:
            return ((bb & ~fa) << 7) & M64
        if d == 9:
            return ((bb & ~fh) << 9) & M64
        if d == -7:
            return (bb & ~fh) >> 7
        if d == -9:
            return (bb & ~fa) >> 9
        raise ValueError(d)

    def capture_from(side, ep):
        b = 1 << ep
        # squares from which a pawn of `side` attacks ep: the squares a pawn of the OTHER colour on ep would attack
        return (shift(b, -7) | shift(b, -9)) if side == 0 else (shift(b, 7) | shift(b, 9))

    def run(side, rights, ep, attacker):
        nm = Norm(h, keep=('key',), env={'__targs__': True})
        nm.synonyms = SYNONYMS
        val = {'position.color()': side, 'position.castling_rights()': rights, 'position.enpassant_square()': ep}
        if ep != 64:
            mask = capture_from(side, ep)
            own = 'position.pieces(%d,1)' % side
            dirs = ('NORTHEAST', 'NORTHWEST') if side == 0 else ('SOUTHEAST', 'SOUTHWEST')
            for key in ('(%d&%s)' % (mask, own), '(%s&%d)' % (own, mask),
                        '(%d&(%s))' % (1 << ep, '|'.join(sorted('shift<%s>(%s)' % (d, own) for d in dirs))),
                        '((%s)&%d)' % ('|'.join(sorted('shift<%s>(%s)' % (d, own) for d in dirs)), 1 << ep)):
                val[('truthy', key, True)] = attacker
                val[key] = 1 if attacker else 0
        try:
            eff = effects_under(h, kids(h.body), val, keep=('key',), loops='mark', nm=nm)
        except AnalysisBroken as e:
            m = re.search(r'depends on `\((\d+)&position\.pieces\((\d),(\d)\)\)`', str(e))
            if m and ep != 64:
                return ('wrong-capturers', int(m.group(1)), int(m.group(2)), int(m.group(3)))
            if ep == 64 and 'depends on' in str(e) and ('square_bb(64)' in str(e) or 'pieces(' in str(e)):
                return ('ep-branch-without-square', 0, 0, 0)
            raise
        terms = []
        for e in eff:
            m = re.fullmatch(r'\(key\^=(\d+)\)', e)
            m2 = re.fullmatch(r'\(key\^=(\w+)(?:\[(\d+)\])?\)', e)
            if m:
                terms.append(int(m.group(1)))
            elif m2 and (E + m2.group(1)) in p.vars:
                v_ = p.val(E + m2.group(1))
                terms.append(int(v_[int(m2.group(2))] if m2.group(2) is not None else v_))
            elif e.startswith('(key'):
                raise AnalysisBroken('C18: the key is changed by `%s`' % e[:120])
        kd = [n for n in h.all_nodes() if n['k'] == 'VarDecl' and n.get('name') == 'key' and kids(n)]
        if len(kd) != 1:
            raise AnalysisBroken('C18: the key variable of hash() was not found')
        nm2 = Norm(h)
        nm2.val = val
        init = nm2.s(kids(kd[0])[0])
        if not init.isdigit():
            raise AnalysisBroken('C18: the key starts from `%s`' % init[:120])
        if int(init):
            terms.append(int(init))
        return sorted(terms)
    rets = [n for n in h.all_nodes() if n['k'] == 'ReturnStmt']
    if len(rets) != 1 or cn(h, kids(rets[0])[0]) != 'key':
        raise AnalysisBroken('C18: hash() does not return its accumulated key')
    names = ['W_OO', 'W_OOO', 'B_OO', 'B_OOO']
    use = {}
    for nme in names:
        t = run(1, ce[nme], 64, False)
        if isinstance(t, tuple) or len(t) != 1:
            if not isinstance(t, tuple) and not t and len([n_ for n_ in h.all_nodes() if n_['k'] in ('ForStmt', 'CXXForRangeStmt', 'WhileStmt') and
                                                           not [a_ for a_ in h.ancestors(n_) if a_['k'] in ('ForStmt', 'CXXForRangeStmt', 'WhileStmt')]]) > 1:
                raise AnalysisBroken('C18: the castling terms are not XORed in straight-line code (a loop over a table?)')
            ctx.ob('C18.R2.specials', 'hash', False, 'with only the right %s held and Black to move exactly one constant is XORed (found %s)' % (nme, t), site=h.loc())
            return None
        use[nme] = t[0]
    t = run(0, 0, 64, False)
    if isinstance(t, tuple) or len(t) != 1:
        ctx.ob('C18.R2.specials', 'hash', False, 'with White to move and nothing else exactly the turn constant is XORed (found %s)' % (t,), site=h.loc())
        return None
    use['TURN'] = t[0]
    eps = []
    for fl in range(8):
        t = run(1, 0, 16 + fl, True)
        if isinstance(t, tuple):
            ctx.ob('C18.R2.enpassant', 'hash', False,
                   'the pawns that could capture on square %d are looked for on the squares %#x of colour %d (they stand on %#x, colour 1)'
                   % (16 + fl, t[1], t[2], capture_from(1, 16 + fl)), site=h.loc())
            return None
        if len(t) != 1:
            ctx.ob('C18.R2.enpassant', 'hash', False, 'with an e.p. square on file %d and a capturer exactly one constant is XORed (found %s)' % (fl, t), site=h.loc())
            return None
        eps.append(t[0])
    use['EP'] = eps
    bad = None
    n_rows = 0
    for side in (0, 1):
        for rights in range(16):
            for ep, att in [(64, False)] + [(e_, a_) for e_ in ((40, 44, 47) if side == 0 else (16, 20, 23)) for a_ in (False, True)]:
                n_rows += 1
                t = run(side, rights, ep, att)
                want = sorted([use[n_] for n_ in names if rights & ce[n_]] + ([use['TURN']] if side == 0 else []) +
                              ([eps[ep % 8]] if ep != 64 and att else []))
                if t != want and bad is None:
                    if isinstance(t, tuple) and t[0] == 'ep-branch-without-square':
                        bad = 'side %d, no e.p. square: the e.p. term is still considered' % side
                    elif isinstance(t, tuple):
                        bad = 'side %d, e.p. square %d: capturers are looked for on squares %#x of colour %d, they stand on %#x of colour %d' % (
                            side, ep, t[1], t[2], capture_from(side, ep), side)
                    else:
                        bad = 'side %d, rights %d, e.p. %s%s: XORs %d constants, expected %d' % (
                            side, rights, ep if ep != 64 else 'none', ' with a capturer' if att else '', len(t), len(want))
    ctx.ob('C18.R2.specials', 'hash', bad is None,
           'over %d combinations of side, castling rights and e.p. situation the key receives one constant per right held, the e.p. '
           'file constant exactly when a pawn of the side to move stands where it could capture, and the turn constant for White%s'
           % (n_rows, '' if bad is None else ' — ' + bad), site=h.loc())
    return use if bad is None else None


def classify_specials(ctx, p, h, specials, ce):
    """each remaining `key ^= X` with its governing condition"""
    use = {}
    seen = []
    ok_all = True
    for i, (n, e) in sorted(specials.items()):
        if [a for a in h.ancestors(n) if a['k'] in ('ForStmt', 'WhileStmt', 'DoStmt')]:
            ctx.ob('C18.R2.special-once', 'hash:%d' % n.get('l', 0), False, 'a special constant is XORed inside a loop', site=h.loc(n))
            ok_all = False
            continue
        g = _inline_atoms(h, guard_facts(h, n))
        val = e.get('cv')
        if e['k'] == 'ArraySubscriptExpr':
            name = _unbool(kids(e)[0]).get('ref', {}).get('n')
            idx = cn(h, kids(e)[1])
            tv = p.val(name)
            pawn_kind = p.enum(E + 'PieceKind')['PAWN']
            want = frozenset({('in', 'position.enpassant_square()', frozenset(range(64))),
                              ('truthy', '(pawn_attacks(square_bb(position.enpassant_square()),!(position.color()))&position.pieces(position.color(),%d))' % pawn_kind, True)})
            g2 = frozenset(_inline_atoms(h, guard_facts(h, n)))
            ok = idx == 'file(position.enpassant_square())' and g2 == want and len(tv) == 8
            if not ok and idx == 'file(position.enpassant_square())':
                # another spelling of the capturer test: raw shifts must keep the board edges (no wrap-around), else unrecognised
                wraps = unmasked_shifts(h, [c for c, t in guard_facts(h, n)], p)
                if wraps:
                    ctx.ob('C18.R2.enpassant-edges', 'hash', False,
                           'the capturer squares are computed with a shift that wraps around the board edge (%s): an e.p. square on the a- or '
                           'h-file finds a "capturer" on the opposite edge' % ', '.join(wraps), site=h.loc(n))
                elif g2 != want and ('in', 'position.enpassant_square()', frozenset(range(64))) in g2 and len(g2) == 2 and \
                        not any('pawn_attacks' in str(a) for a in g2):
                    raise AnalysisBroken('C18: the capturer test of the e.p. term is written in a form the rule does not know: %s' % sorted(map(str, g2)))
            ctx.ob('C18.R2.enpassant', 'hash', ok,
                   'the e.p. constant of the e.p. file is XORed exactly when an e.p. square is set and a pawn of the side to move attacks it',
                   site=h.loc(n), detail={'guards': sorted(map(str, g2)), 'index': idx})
            use['EP'] = tv
            ok_all = ok_all and ok
            continue
        if val is None:
            raise AnalysisBroken('C18: XOR operand at line %s has no constant value' % n.get('l'))
        if len(g) != 1:
            ctx.ob('C18.R2.special-guard', 'hash:%d' % n.get('l', 0), False, 'a special constant must be governed by exactly one condition (%s)' % sorted(map(str, g)), site=h.loc(n))
            ok_all = False
            continue
        a = next(iter(g))
        import re as _re
        mc = _re.fullmatch(r'\((\d+)&position\.castling_rights\(\)\)', a[1]) if a[0] == 'truthy' and isinstance(a[1], str) else None
        if mc and a[2] is True:
            rn = {ce['W_OO']: 'W_OO', ce['W_OOO']: 'W_OOO', ce['B_OO']: 'B_OO', ce['B_OOO']: 'B_OOO'}.get(int(mc.group(1)))
            if rn is None or rn in use:
                ctx.ob('C18.R2.castling', 'hash:%d' % n.get('l', 0), False, 'castling term governed by the mask %s' % mc.group(1), site=h.loc(n))
                ok_all = False
                continue
            use[rn] = val
        elif a == ('in', 'position.color()', frozenset({0})):
            use['TURN'] = val
        else:
            ctx.ob('C18.R2.special-guard', 'hash:%d' % n.get('l', 0), False, 'unrecognised governing condition %s' % (a,), site=h.loc(n))
            ok_all = False
    need = {'W_OO', 'W_OOO', 'B_OO', 'B_OOO', 'EP', 'TURN'}
    ctx.ob('C18.R2.specials', 'hash', need <= set(use) and ok_all and len(specials) == 6,
           'exactly six special terms: four castling rights (each its own constant, XORed once when the right is held), the e.p. file, '
           'and the turn constant when White is to move (found %s)' % sorted(use), site=h.loc())
    if not need <= set(use):
        return None
    return use


def unmasked_shifts(h, conds, p):
    """raw bitboard shifts by 1/7/9 (following single-definition locals) whose operand is not masked against the edge they would cross"""
    from rules.effects import single_def
    fa, fh = p.val(E + 'fileA_bb'), p.val(E + 'fileH_bb')
    M = (1 << 64) - 1
    need = {('<<', 1): fh, ('<<', 9): fh, ('>>', 7): fh, ('>>', 1): fa, ('>>', 9): fa, ('<<', 7): fa}
    out = []
    seen = set()

    def visit(n):
        n = _unbool(n)
        if n is None or n['i'] in seen:
            return
        seen.add(n['i'])
        r = n.get('ref')
        if r and r['k'] == 'Local':
            d = single_def(h, r['id'])
            if d is not None:
                visit(d)
            return
        if n['k'] == 'BinaryOperator' and n.get('op') in ('<<', '>>'):
            amt = const_of(_unbool(kids(n)[1]))
            key = (n['op'], amt)
            if key in need:
                a = _unbool(kids(n)[0])
                masked = False
                if a['k'] == 'BinaryOperator' and a.get('op') == '&':
                    for side in kids(a):
                        cv = _unbool(side).get('cv')
                        if cv is not None and (cv & need[key]) == 0:
                            masked = True
                if not masked:
                    out.append('%s %d at line %d' % (n['op'], amt, n.get('l', 0)))
        for c in kids(n):
            visit(c)
    for c in conds:
        visit(c)
    return out


def _inline_atoms(h, facts):
    """atoms of guard facts in normal form (locals and new helpers read through)"""
    from rules.norm import Norm
    r = Norm(h).facts(facts)
    return r if r is not None else frozenset({('false',)})
