"""C09 — search limits are honoured.

Decided: R1 every definition of the depth limit is clamped to MAX_DEPTH;
R2 the iteration counter is reset, incremented exactly once per iteration,
printed unmodified and tested against the limit on every cycle; R3 the root
list is exactly the searchmoves list when one is given and the root node
iterates only that list; R4 every recursive call has a decreasing measure
behind a cut. Not decided: wall-clock adherence to movetime."""
import re

from facts import AnalysisBroken
from prog import walk, kids, short, access_kind
from rules.common import (strip_casts, strip_conv, const_of, guard_facts, written_value, expr_key,
                          thread_entries, sccs, in_loop)

LEVEL = 'other'
EXPLANATION = ('Partial: clamp of the depth limit, discipline of the iteration counter, root-list construction '
               'and use, and termination measures of the recursion are decided from the code shape; '
               'time adherence (polling granularity) is not.')


def check(ctx):
    p = ctx.prog()
    maxd = p.val('engine::MAX_DEPTH')
    ctor = [f for f in p.fns('engine::Search::Search')]
    if len(ctor) != 1:
        raise AnalysisBroken('Search constructor not found')
    ctor = ctor[0]
    it = p.fn('engine::Search::iter_search')
    s = p.fn('engine::Search::search')
    q = p.fn('engine::Search::quiescence_search')
    for f in (ctor, it, s, q):
        ctx.analysed(f)

    # ---- R1 clamp ---------------------------------------------------------------------
    n_def = 0
    for f, n, k in p.field_accesses('engine::Search', '_search_depth'):
        if k == 'read':
            continue
        n_def += 1
        if k == 'ctorinit':
            v = strip_conv(n)
        elif k == 'write':
            v = strip_casts(written_value(f, n))
        else:
            v = None
        ok, why = _bounded_by(v, maxd, f)
        if not ok and v is not None:
            from props.C10 import _from_new_code
            if _from_new_code(p, f, v) or p.is_new_function(f):
                raise AnalysisBroken('C09: the depth limit is defined at %s from `%s`, computed by code the reference tree did not have; '
                                     'whether it is clamped there is not followed' % (f.loc(n), Norm_s(f, v)))
        ctx.ob('C09.R1.depth-clamped', '%s:%s' % (short(f.name), why), ok,
               'definition of Search::_search_depth is a constant <= MAX_DEPTH or std::min(..., MAX_DEPTH) (%s)' % why,
               site=f.loc(n))
    ctx.floor('C09.R1.depth-clamped', n_def, 5, 'definitions of _search_depth')
    # which limit wins, and what the searcher is left with: per combination of limits, the last values the constructor gives to
    # the depth and time budgets
    from rules.cases import effects_under
    ctor = [f for f in p.fns('engine::Search::Search') if f.body is not None]
    if len(ctor) != 1:
        raise AnalysisBroken('C09: the Search constructor was not found')
    ctor = ctor[0]
    ctx.analysed(ctor)
    bad = None
    n_rows = 0
    for inf in (0, 1):
        for d in (0, 5, 100):
            for mt in (0, 300):
                for tl in (0, 5000):
                    for sm in (0, 2):
                        n_rows += 1
                        val = {'limits.infinite': inf, 'limits.depth': d, 'limits.movetime': mt,
                               'limits.timeleft[position.color()]': tl, 'limits.timeleft[_position.color()]': tl,
                               'limits.searchmovesnum': sm, '_max_nodes_searched': 0, 'limits.nodes': 0}
                        eff = effects_under(ctor, kids(ctor.body), val)
                        last = {}
                        for e in eff:
                            m_ = re.fullmatch(r'\((_search_depth|_search_time)=(.*)\)', e)
                            if m_:
                                last[m_.group(1)] = m_.group(2)
                        dep, tim = last.get('_search_depth'), last.get('_search_time')
                        why = None
                        if dep is None or tim is None:
                            why = 'the %s budget is left unset' % ('depth' if dep is None else 'time')
                        else:
                            dm = re.fullmatch(r'min\((\d+),(\d+)\)', dep)
                            dv = min(int(dm.group(1)), int(dm.group(2))) if dm else (int(dep) if dep.isdigit() else None)
                            if dv is None or dv > maxd:
                                why = 'the depth budget is %s' % dep
                            elif not inf and d and dv > d:
                                why = 'go depth %d leaves a depth budget of %s' % (d, dep)
                            elif not inf and not d and mt and tim != str(mt):
                                why = 'go movetime %d leaves a time budget of %s' % (mt, tim)
                            elif not inf and not d and not mt and tl and not re.fullmatch(r'(TimeManager::)?calculateTime\(limits,_?position\.color\(\),_?position\.ply_count\(\)\)', tim):
                                why = 'a clock limit leaves a time budget of %s' % tim
                        roots = [e for e in eff if re.match(r'_root_moves\.(insert|assign)\(|\(_root_moves=', e)]
                        if why is None and sm and (len(roots) != 1 or 'limits.searchmoves' not in roots[0] or 'generate_moves' in roots[0]):
                            why = 'with searchmoves the root list is filled by %s' % roots
                        if why is None and not sm and (len(roots) != 1 or 'generate_moves(' not in roots[0] or 'limits.searchmoves' in roots[0]):
                            why = 'without searchmoves the root list is filled by %s' % roots
                        if why and bad is None:
                            bad = 'infinite=%d depth=%d movetime=%d clock=%d searchmoves=%d: %s' % (inf, d, mt, tl, sm, why)
    ctx.ob('C09.R1.limits-table', 'Search::Search', bad is None,
           'over %d combinations of limits: both budgets are always set, the depth budget never exceeds MAX_DEPTH nor a given depth, '
           'a movetime or clock limit (when no depth is given) becomes the time budget, and the root list is the searchmoves list when '
           'one is given%s' % (n_rows, '' if bad is None else ' — ' + bad), site=ctor.loc())

    # ---- R2 iteration counter ---------------------------------------------------------------
    c = it.cfg
    writes = [(n, k) for f, n, k in p.field_accesses('engine::Search', '_current_depth')
              if f is it and k in ('write', 'rmw')]
    others = [(f, n) for f, n, k in p.field_accesses('engine::Search', '_current_depth')
              if f is not it and k in ('write', 'rmw', 'addr')]
    ctx.ob('C09.R2.counter-writers', '_current_depth', not others,
           '_current_depth is written only by iter_search (and the constructor initialiser)',
           site=others[0][0].loc(others[0][1]) if others else it.loc())
    resets = [n for n, k in writes if k == 'write' and const_of(strip_casts(written_value(it, n))) == 0]
    incs = [n for n, k in writes if k == 'rmw']
    loops = c.back_edges()
    outer = None
    for src, dst in loops:
        body = c.natural_loop(src, dst)
        if all(c.position(i)[0] in body for i in incs) and (outer is None or len(body) > len(outer[2])):
            outer = (src, dst, body)
    ok = len(resets) == 1 and len(incs) == 1 and outer is not None
    if ok:
        inc = incs[0]
        par = it.parent(inc)
        ok = par is not None and par.get('op') == '++'
        # reset before the loop, increment inside it, on every cycle, not in an inner loop
        ok = ok and not in_loop(it, resets[0]) and c.position(resets[0])[0] not in outer[2]
        ok = ok and c.node_dominates(resets[0], inc)
        from props.C06 import _cycle_avoiding
        ok = ok and _cycle_avoiding(c, outer[1], outer[0], outer[2], {par['i'], inc['i']}) is None
        inner = [(s_, d_) for s_, d_ in loops if (s_, d_) != (outer[0], outer[1])
                 and c.position(inc)[0] in c.natural_loop(s_, d_)]
        ok = ok and not inner
    ctx.ob('C09.R2.counter-discipline', 'iter_search', ok,
           '_current_depth is reset to 0 before the loop and incremented exactly once on every iteration '
           '(so reported depths are 1,2,3,... without gaps)', site=it.loc(incs[0]) if incs else it.loc())
    # every other statement of an iteration comes after the increment
    calls_s = [n for n, cfid, nm in it.calls() if nm == 'engine::Search::search']
    ok = bool(incs) and bool(calls_s) and all(c.node_dominates(incs[0], x) for x in calls_s)
    ctx.ob('C09.R2.increment-first', 'iter_search', ok,
           'the increment dominates the search of that iteration', site=it.loc(calls_s[0]) if calls_s else it.loc())
    # printed depth is the counter itself
    prints = [n for n, cfid, nm in it.calls() if nm == 'engine::Search::print_info']
    okp = bool(prints)
    def is_counter(a):
        """the counter itself, or a never-reassigned local holding the value of its pre-increment in this cycle"""
        a = strip_casts(a)
        if a.get('ref', {}).get('n') == 'engine::Search::_current_depth':
            return True
        if a.get('ref', {}).get('k') == 'Local':
            from rules.effects import single_def as _sd9
            d0 = _sd9(it, a['ref']['id'])
            d0 = strip_casts(d0) if d0 is not None else None
            if d0 is not None and d0['k'] == 'UnaryOperator' and d0.get('op') == '++' and not d0.get('post') and \
                    strip_casts(kids(d0)[0]).get('ref', {}).get('n') == 'engine::Search::_current_depth':
                return True
        return False
    for pr in prints:
        a = strip_casts(kids(pr)[2])    # callee, result, depth
        okp = okp and is_counter(a)
    ctx.ob('C09.R2.printed-depth', 'iter_search', okp,
           'the depth reported in `info depth` is the iteration counter itself', site=it.loc(prints[0]) if prints else it.loc())
    # exit test on every cycle
    tests = []
    for n in it.all_nodes():
        if n['k'] == 'BinaryOperator' and n.get('op') in ('>=', '>', '=='):
            a, b = [strip_casts(x) for x in kids(n)]
            if is_counter(a) and \
                    b.get('ref', {}).get('n') == 'engine::Search::_search_depth' and n['op'] in ('>=', '=='):
                tests.append(n)
    ok = False
    if tests and outer is not None:
        from props.C06 import _cycle_avoiding
        ok = _cycle_avoiding(c, outer[1], outer[0], outer[2], set(t['i'] for t in tests)) is None
        # and its true edge leaves the loop
        for t in tests:
            pos = c.position(t)
            succ = dict(c.succ[pos[0]])
            ok = ok and (0 in succ) and (succ[0] not in outer[2] or _leads_out(c, succ[0], outer[2]))
    if not ok:
        for t in tests:
            if any(a['k'] == 'VarDecl' for a in it.ancestors(t)):
                raise AnalysisBroken('C09: the test of the iteration counter against the depth limit at %s is stored in a variable before '
                                     'it is acted on, in a way the branch-edge rule cannot follow' % it.loc(t))
    ctx.ob('C09.R2.limit-test-every-cycle', 'iter_search', ok,
           'every cycle of the deepening loop passes the test _current_depth >= _search_depth, whose true edge leaves the loop',
           site=it.loc(tests[0]) if tests else it.loc())

    # ---- R3 searchmoves ---------------------------------------------------------------------
    # how the root list is filled (from searchmoves when given, else from the generator) is part of C09.R1.limits-table
    # who else writes _root_moves
    bad = []
    for f, n, k in p.field_accesses('engine::Search', '_root_moves'):
        if k in ('write', 'rmw', 'addr', 'call') and f is not ctor:
            # begin()/end() non-const calls in search() are reads of iterators (permuted by order_moves only)
            par = f.parent(n)
            nm = short(f.parent(par).get('callee', {}).get('n', '')) if par and f.parent(par) else ''
            if nm in ('begin', 'end', 'size', 'empty'):
                continue
            bad.append((f, n))
    ctx.ob('C09.R3.root-writers', '_root_moves', not bad,
           'the root list is written only by the constructor', site=bad[0][0].loc(bad[0][1]) if bad else ctor.loc())
    # the root search call runs at ply 0: the base frame is given ply -1 before it, the call receives the next frame, and a node's
    # ply is its parent's plus one (so that `ply == 0` identifies the root in search())
    from rules.norm import Norm as _Nr
    nit = _Nr(it, inline=False, keep=('info',))
    rootcalls = [n for n, cfid, nm in it.calls() if nm == 'engine::Search::search']
    base_set = [n for n in it.all_nodes() if n['k'] == 'BinaryOperator' and n.get('op') == '=' and
                re.fullmatch(r'\(?\*?\(?(\w+)\)?\)?(\.|->)_ply', nit.s(kids(n)[0])) and _Nr(it).cval(kids(n)[1]) == -1]
    bases = {re.fullmatch(r'\(?\*?\(?(\w+)\)?\)?(\.|->)_ply', nit.s(kids(n)[0])).group(1) for n in base_set}
    frame_ok = bool(rootcalls) and len(bases) == 1 and all(nit.s(kids(c_)[-1]) == '(%s+1)' % next(iter(bases)) for c_ in rootcalls)
    base_ok = len(base_set) >= 1 and all(any(it.cfg.node_dominates(b_, c_) for b_ in base_set) for c_ in rootcalls)
    ns = _Nr(s, inline=False, keep=('info',))
    ply_def = [n for n in s.all_nodes() if n['k'] == 'BinaryOperator' and n.get('op') == '=' and ns.s(kids(n)[0]) in ('info._ply',)]
    rec_ok = len(ply_def) == 1 and ns.s(kids(ply_def[0])[1]) in ('((info-1)._ply+1)', '(1+(info-1)._ply)')
    ctx.ob('C09.R3.root-ply', 'iter_search/search', frame_ok and base_ok and rec_ok,
           'the base frame gets ply -1 before the root search call, which receives the next frame; a node\'s ply is its parent\'s plus '
           'one: the root search runs at ply 0 (base set: %d, frame: %s, recurrence: %s)'
           % (len(base_set), [nit.s(kids(c_)[-1]) for c_ in rootcalls], [ns.s(kids(x)[1]) for x in ply_def]), site=it.loc())
    # root node iterates the root list: every definition of the node's move range, by the case it is made in
    from rules.common import all_guards

    def is_root_test(c_):
        """(is a test of ply == 0, polarity) for a condition node"""
        c_ = strip_casts(c_)
        neg = False
        while c_['k'] == 'UnaryOperator' and c_.get('op') == '!':
            neg = not neg
            c_ = strip_casts(kids(c_)[0])
        r_ = c_.get('ref') or {}
        if r_.get('k') == 'Local':
            for d in s.all_nodes():
                if d['k'] == 'VarDecl' and d.get('id') == r_['id'] and kids(d):
                    c_ = strip_casts(kids(d)[0])
        if c_['k'] == 'BinaryOperator' and c_.get('op') in ('==', '!=') and \
                short(strip_casts(kids(c_)[0]).get('ref', {}).get('n', '')) == '_ply' and const_of(strip_casts(kids(c_)[1])) == 0:
            return True, (c_['op'] == '==') != neg
        return False, None

    def mentions_root(e_):
        return any(x.get('ref', {}).get('n') == 'engine::Search::_root_moves' for x in walk(e_)) or \
            any((x.get('ref') or {}).get('k') == 'Local' and (x.get('ref') or {}).get('n') == 'begin' and False for x in walk(e_))
    defs = []
    for n in s.all_nodes():
        if n['k'] == 'VarDecl' and n.get('name') in ('begin', 'end') and kids(n):
            defs.append((n['name'], kids(n)[0], n))
        if n['k'] == 'BinaryOperator' and n.get('op') == '=' and (strip_casts(kids(n)[0]).get('ref') or {}).get('n') in ('begin', 'end') and \
                (strip_casts(kids(n)[0]).get('ref') or {}).get('k') == 'Local':
            defs.append((strip_casts(kids(n)[0])['ref']['n'], kids(n)[1], n))
    ok = bool(defs)
    seen_root = {'begin': False, 'end': False}
    for name_, e_, site_ in defs:
        e0 = strip_casts(e_)
        arms_ = []
        if e0['k'] == 'ConditionalOperator' and is_root_test(kids(e0)[0])[0]:
            pol = is_root_test(kids(e0)[0])[1]
            arms_ = [(kids(e0)[1], pol), (kids(e0)[2], not pol)]
        else:
            root = None
            for c_, t_ in all_guards(s, site_):
                isr, pol = is_root_test(c_)
                if isr:
                    root = (pol == t_)
            arms_ = [(e_, root)]
        for ex_, root in arms_:
            uses = mentions_root(ex_) or (name_ == 'end' and root and any((x.get('ref') or {}).get('n') == 'begin' for x in walk(ex_)) and
                                          any((x.get('callee') or {}).get('n', '').endswith('::size') and mentions_root(x) for x in walk(ex_)))
            if root is True:
                seen_root[name_] = True
                ok = ok and uses
            else:
                ok = ok and not mentions_root(ex_)
    ok = ok and all(seen_root.values())
    ctx.ob('C09.R3.root-iterates-root-list', 'search', ok,
           'at ply 0 the node iterates Search::_root_moves (and only there)', site=s.loc())

    # the root PV head (hence bestmove) is an element of the root list: nothing else can be written into a PV (C05.R3/R4)
    from rules.common import SubCtx
    import props.C05 as c05
    sub = SubCtx(ctx)
    c05.check(sub)
    bad = [r for r in sub.results if not r[2] and (r[0].startswith('C05.R3') or r[0].startswith('C05.R4'))]
    ctx.ob('C09.R3.answer-from-root-list', 'bestmove', not bad,
           'the move answered is the head of the root PV, which can only hold root-list moves: table moves are used only after a '
           'membership test in the node\'s list and PV writers take moves from that list (C05.R3, C05.R4)%s'
           % ('' if not bad else ' — refuted: ' + '; '.join('%s at %s' % (r[0], r[4]) for r in bad)), site=bad[0][4] if bad else s.loc())

    # ---- R4 termination measures ---------------------------------------------------------------
    n_rec = 0
    for f in (s, q):
        pinfo = [x for x in f.params if x['name'] == 'info']
        pdepth = [x for x in f.params if x['name'] == 'depth']
        if not pinfo or not pdepth:
            raise AnalysisBroken('%s: parameters depth/info not found' % f.name)
        for n, cfid, nm in f.calls():
            if nm not in (s.name, q.name):
                continue
            n_rec += 1
            args = kids(n)[1:]
            # member call: [MemberExpr, position, depth, alpha, beta, info]
            a_depth = strip_casts(args[1])
            a_info = strip_casts(args[4])
            gf = guard_facts(f, n)
            info_plus = a_info['k'] == 'BinaryOperator' and a_info.get('op') == '+' and \
                strip_casts(kids(a_info)[0]).get('ref', {}).get('id') == pinfo[0]['id'] and \
                const_of(strip_casts(kids(a_info)[1])) == 1
            info_same = a_info.get('ref', {}).get('id') == pinfo[0]['id']
            if f is s and nm == s.name and info_plus:
                # ply grows: must be behind the ply cut
                cut = any(_is_ply_cut(cc, maxd) and not t for cc, t in gf)
                ctx.ob('C09.R4.measure', 'search->search@ply+1', cut,
                       'recursive search at ply+1 is only reached when info->_ply < MAX_DEPTH (cut to quiescence dominates)',
                       site=f.loc(n))
            elif f is s and nm == s.name and info_same:
                dec = _depth_minus(a_depth, pdepth[0]['id'])
                big = any(_depth_gt(cc, pdepth[0]['id']) is not None and t and _depth_gt(cc, pdepth[0]['id']) >= (dec or 0)
                          for cc, t in gf)
                ctx.ob('C09.R4.measure', 'search->search@same-ply', bool(dec) and dec > 0 and big,
                       'same-ply re-search (internal iterative deepening) strictly reduces depth under a depth > k guard',
                       site=f.loc(n))
            elif f is s and nm == q.name:
                ok = info_same and const_of(a_depth) is not None and const_of(a_depth) < maxd
                ctx.ob('C09.R4.measure', 'search->quiescence', ok,
                       'quiescence is entered with a constant depth budget below MAX_DEPTH', site=f.loc(n))
            elif f is q and nm == q.name:
                dec = _depth_minus(a_depth, pdepth[0]['id'])
                cut = any(_is_depth_le0(cc, pdepth[0]['id']) and not t for cc, t in gf)
                ctx.ob('C09.R4.measure', 'quiescence->quiescence', info_plus and dec == 1 and cut,
                       'quiescence recursion passes depth-1 and is only reached when depth > 0', site=f.loc(n))
            else:
                ctx.ob('C09.R4.measure', '%s->%s' % (short(f.name), short(nm)), False,
                       'recursive call outside the understood measure idioms', site=f.loc(n))
    ctx.floor('C09.R4.measure', n_rec, 8, 'recursive call sites')
    _limits_poll(ctx, p)
    # the parameter words of `go` fill the limit they name (one turn of the token loop per word)
    from rules.ucitab import go_words, fills
    gf_, gw = go_words(p)
    ctx.analysed(gf_)
    for w_, fld in (('depth', 'depth'), ('nodes', 'nodes'), ('movetime', 'movetime')):
        ctx.ob('C09.R6.go-words', w_, w_ in gw and fills(gw[w_], fld),
               '`go %s N` reads N into limits.%s and nothing else (one turn of the token loop does %s)' % (w_, fld, gw.get(w_)),
               site=gf_.loc())
    sm = gw.get('searchmoves') or []
    from rules.norm import Norm as _Ng
    fills_sm = [n for n in gf_.all_nodes() if n['k'] in ('BinaryOperator', 'CXXOperatorCallExpr') and n.get('op') == '=' and
                'searchmoves' in _Ng(gf_).s(kids(n)[0] if n['k'] == 'BinaryOperator' else kids(n)[1]) and
                any((x.get('callee') or {}).get('n') == 'engine::Position::parse_uci' for x in walk(n))]
    pushes = [n for n, cfid, cn in gf_.calls() if short(cn) in ('push_back', 'emplace_back') and
              any((x.get('callee') or {}).get('n') == 'engine::Position::parse_uci' for x in walk(n))]
    from rules.ucitab import relevant, searchmoves_loop
    sm = relevant(sm)
    _f, _loop, stops = searchmoves_loop(p)
    ctx.ob('C09.R6.go-words', 'searchmoves', len(sm) == 1 and sm[0].startswith('loop') and bool(fills_sm or pushes) and not stops,
           '`go searchmoves m1 .. mk` walks the words that follow and stores parse_uci of every move word in limits.searchmoves '
           '(one turn of the token loop does %s)%s' % (sm, '' if not stops else ' — the loop stops at the move word(s) %s, so the moves '
                                                       'from there on are not in the list' % stops), site=gf_.loc(_loop))
    inf = relevant(gw.get('infinite') or [])
    ctx.ob('C09.R6.go-words', 'infinite', len(inf) == 1 and re.fullmatch(r'\(\w+\.infinite=1\)', inf[0]) is not None,
           '`go infinite` sets limits.infinite and nothing else (%s)' % inf, site=gf_.loc())
    # a clock limit ends the search only if the budget computed from it is a bounded number of milliseconds (C20.R1: non-negative,
    # at most the cap, no wrap-around in the arithmetic)
    from rules.common import SubCtx as _SC20
    import props.C20 as c20
    sub20 = _SC20(ctx)
    c20.check(sub20)
    bad20 = [r for r in sub20.results if not r[2] and r[0].startswith('C20.R1')]
    ctx.ob('C09.R7.clock-budget-bounded', 'calculateTime', not bad20,
           'the time budget derived from a clock is within [0, 70%% of the clock], so the polled time test ends the search (C20.R1)%s'
           % ('' if not bad20 else ' — refuted: ' + '; '.join('%s %s at %s' % (r[0], r[1], r[4]) for r in bad20[:3])),
           site=bad20[0][4] if bad20 else 'engine/time_manager.cpp')
    ctx.note('not decided: wall-clock adherence to movetime/clock limits (limits are polled every 4096/40960 node visits)')


def _limits_poll(ctx, p):
    """check_limits(): (a) the calls that return before the budgets are looked at are counted down: each such return sits behind
    a decrement of a counter and a test that the counter is still above a constant, and nobody else writes the counter, so the
    budgets are looked at after finitely many visits; (b) once looked at, an exceeded node or time budget makes it return true."""
    import itertools
    from rules.norm import Norm, cond_value, Unknown
    f = p.fn('engine::Search::check_limits')
    ctx.analysed(f)
    LIMITS = ('_max_nodes_searched', '_search_time')
    top = [st for st in kids(f.body) if st is not None]

    def mentions_limit(st):
        return any(short((x.get('ref') or {}).get('n', '')) in LIMITS for x in walk(st))
    first = [i for i, st in enumerate(top) if mentions_limit(st)]
    if not first:
        raise AnalysisBroken('C09: check_limits no longer reads _max_nodes_searched/_search_time in a top-level statement')
    prefix, suffix = top[:first[0]], top[first[0]:]
    nm = Norm(f)
    # (a) the skipped calls are counted down
    dec = set()
    n_skip = 0
    bad = None
    for st in prefix:
        k = st['k']
        e = strip_casts(st)
        if k in ('UnaryOperator',) and st.get('op') in ('--',):
            dec.add(nm.s(kids(st)[0]))
        elif k == 'CompoundAssignOperator' and st.get('op') == '-=' and (nm.cval(kids(st)[1]) or 0) > 0:
            dec.add(nm.s(kids(st)[0]))
        elif k == 'BinaryOperator' and st.get('op') == '=' and nm.cval(kids(st)[1]) is not None:
            continue
        elif k == 'IfStmt':
            rets = [x for x in walk(st) if x['k'] == 'ReturnStmt']
            if not rets:
                if any(x['k'] in ('ForStmt', 'WhileStmt', 'DoStmt') for x in walk(st)):
                    raise AnalysisBroken('C09: check_limits: a loop ahead of the budget tests')
                continue
            n_skip += 1
            try:
                at = nm.atom(kids(st)[0])
            except Unknown as e_:
                raise AnalysisBroken('C09: check_limits: the early-return test `%s` is not a comparison of a counter with a constant' % nm.s(kids(st)[0]))
            if len(kids(st)) > 2 or not (isinstance(at, tuple) and at[0] == 'ge' and at[1] in dec):
                bad = bad or 'the early return at line %s is taken while `%s`, which is not "a counter decremented on this call is still above a constant"' % (st.get('l'), nm.s(kids(st)[0]))
        elif k in ('DeclStmt', 'NullStmt'):
            continue
        else:
            raise AnalysisBroken('C09: check_limits: statement of kind %s ahead of the budget tests' % k)
    others = []
    for cname in dec:
        for g, n, kk in p.field_accesses('engine::Search', cname):
            if kk in ('write', 'rmw', 'addr') and g is not f:
                others.append('%s:%s' % (short(g.name), n.get('l')))
    ctx.ob('C09.R5.poll-countdown', 'check_limits', bad is None and not others,
           'every call that returns before looking at the budgets has decremented a counter that only check_limits writes and found it '
           'still above a constant: the budgets are looked at after finitely many node visits (%d early return(s), counters %s)%s'
           % (n_skip, sorted(dec), '' if bad is None and not others else ' — ' + (bad or 'the counter is also written by ' + ', '.join(others))),
           site=f.loc())
    # (b) the budget tests
    def leaves(c_):
        c0 = nm.resolve(c_)
        if c0['k'] == 'BinaryOperator' and c0.get('op') in ('&&', '||'):
            return leaves(kids(c0)[0]) + leaves(kids(c0)[1])
        if c0['k'] == 'UnaryOperator' and c0.get('op') == '!':
            return leaves(kids(c0)[0])
        return [c0]
    conds = [l_ for st in suffix if st['k'] == 'IfStmt' for l_ in leaves(kids(st)[0])]
    rel = {}
    for c_ in conds:
        try:
            at = nm.atom(c_)
        except Unknown as e_:
            raise AnalysisBroken('C09: check_limits: budget test `%s` not understood' % nm.s(c_))
        if not (isinstance(at, tuple) and at[0] in ('<', '<=') and len(at) == 3):
            raise AnalysisBroken('C09: check_limits: budget test `%s` is not a comparison of a measure with its budget' % nm.s(c_))
        for lim in LIMITS:
            for x, y in ((at[1], at[2]), (at[2], at[1])):
                if lim in x and lim not in y:
                    rel[lim] = (x, y)
    if set(rel) != set(LIMITS):
        raise AnalysisBroken('C09: check_limits: the comparisons with both budgets were not found (%s)' % sorted(rel))

    flagged = []

    def run(stmts, val):
        for st in stmts:
            k = st['k']
            if k == 'ReturnStmt':
                return st
            if k in ('BinaryOperator', 'CXXOperatorCallExpr', 'CXXMemberCallExpr', 'ExprWithCleanups') and \
                    any(short((x.get('ref') or {}).get('n', '')) == 'stop_search' and access_kind(f, x) in ('write', 'call') for x in walk(st)):
                # stop_search = true / stop_search.store(true): every node visit tests the flag before asking check_limits
                vals = [nm.cval(x) for x in walk(st) if x['k'] in ('CXXBoolLiteralExpr', 'IntegerLiteral')]
                if vals and all(v == 1 for v in vals):
                    flagged.append(st)
            if k == 'CompoundStmt':
                r = run(kids(st), val)
                if r is not None:
                    return r
            elif k == 'IfStmt':
                ks = kids(st)
                br = ks[1] if cond_value(nm, ks[0], val) else (ks[2] if len(ks) > 2 else None)
                if br is not None:
                    r = run([br], val)
                    if r is not None:
                        return r
            elif k in ('ForStmt', 'WhileStmt', 'DoStmt', 'SwitchStmt', 'CXXForRangeStmt', 'GotoStmt'):
                raise Unknown('statement %s' % k)
        return None
    bad2 = []
    n = 0
    for a, b in itertools.product((4, 5, 6), repeat=2):
        val = {rel[LIMITS[0]][0]: 5, rel[LIMITS[0]][1]: a, rel[LIMITS[1]][0]: 5, rel[LIMITS[1]][1]: b}
        del flagged[:]
        try:
            r = run(suffix, val)
        except Unknown as e_:
            raise AnalysisBroken('C09: check_limits: the budget tests depend on `%s`' % e_)
        got = nm.cval(kids(r)[0]) if r is not None and kids(r) else None
        n += 1
        if (a > 5 or b > 5) and got != 1 and not flagged:
            bad2.append('nodes %s budget, time %s budget: returns %s' % ('<=>'[a - 4], '<=>'[b - 4], got))
    ctx.ob('C09.R5.budget-tests', 'check_limits', not bad2,
           'when the budgets are looked at, a node count or an elapsed time above its budget makes check_limits return true or raise '
           'the stop flag that every node visit tests first '
           '(%d orderings)%s' % (n, '' if not bad2 else ' — ' + '; '.join(bad2[:3])), site=f.loc(suffix[0]))
    # and every node visit asks: search() and quiescence_search() call it on every activation before any recursion (C06.R4)


def Norm_s(f, v):
    from rules.norm import Norm
    return Norm(f, inline=False).s(v)[:80]


def _bounded_by(v, maxd, f=None, depth=0):
    if v is None:
        return False, 'unknown'
    v = strip_casts(v)
    cv = const_of(v)
    if cv is not None:
        return cv <= maxd, 'const %d' % cv
    if f is not None and (v.get('ref') or {}).get('k') == 'Local' and depth < 4:
        from rules.effects import single_def as _sdb
        d0 = _sdb(f, v['ref']['id'])
        if d0 is not None:
            return _bounded_by(d0, maxd, f, depth + 1)
    if v.get('callee', {}).get('n') == 'std::min':
        for a in kids(v)[1:]:
            ca = const_of(strip_casts(a))
            if ca is not None and ca <= maxd:
                return True, 'min(..,%d)' % ca
        return False, 'min-without-constant'
    if v.get('callee', {}).get('n') == 'std::clamp':
        ca = const_of(strip_casts(kids(v)[-1]))
        return (ca is not None and ca <= maxd), 'clamp'
    if v['k'] == 'ConditionalOperator' and f is not None:
        # hand-written clamp:  x > M ? M : x   and its variants
        from rules.norm import Norm
        nm = Norm(f, inline=False)
        c, a, b = kids(v)
        oks = []
        for br, truth in ((a, True), (b, False)):
            cb = nm.cval(br)
            if cb is not None:
                oks.append(cb <= maxd)
                continue
            at = nm.atom(c, truth)
            oks.append(at[0] == 'le' and at[1] == nm.s(br) and at[2] <= maxd)
        if all(oks):
            return True, 'conditional clamp'
        arms = [_bounded_by(br, maxd, f, depth + 1) for br in (a, b)]
        if all(x[0] for x in arms):
            return True, 'both arms bounded (%s / %s)' % (arms[0][1], arms[1][1])
        return False, 'unclamped:ConditionalOperator'
    r = v.get('ref', {})
    return False, 'unclamped:' + short(r.get('n', v['k']))


def _leads_out(c, b, body):
    seen = {b}
    st = [b]
    while st:
        x = st.pop()
        if x not in body:
            return True
        ss = c.succ[x]
        if len(ss) != 1:
            return False
        for k, s in ss:
            if s not in seen:
                seen.add(s)
                st.append(s)
    return False


def _is_ply_cut(cc, maxd):
    cc = strip_casts(cc)
    if cc['k'] == 'BinaryOperator' and cc.get('op') in ('>=', '>'):
        a, b = [strip_casts(x) for x in kids(cc)]
        if short(a.get('ref', {}).get('n', '')) == '_ply' and const_of(b) is not None:
            lim = const_of(b) if cc['op'] == '>=' else const_of(b) + 1
            return lim <= maxd
    return False


def _depth_minus(e, did):
    e = strip_casts(e)
    if e['k'] == 'BinaryOperator' and e.get('op') == '-':
        a, b = [strip_casts(x) for x in kids(e)]
        if a.get('ref', {}).get('id') == did and const_of(b) is not None:
            return const_of(b)
    return None


def _depth_gt(cc, did):
    cc = strip_casts(cc)
    if cc['k'] == 'BinaryOperator' and cc.get('op') in ('>', '>='):
        a, b = [strip_casts(x) for x in kids(cc)]
        if a.get('ref', {}).get('id') == did and const_of(b) is not None:
            return const_of(b) + (1 if cc['op'] == '>' else 0)
    return None


def _is_depth_le0(cc, did):
    cc = strip_casts(cc)
    if cc['k'] == 'BinaryOperator' and cc.get('op') in ('<=', '<', '=='):
        a, b = [strip_casts(x) for x in kids(cc)]
        if a.get('ref', {}).get('id') == did and const_of(b) is not None:
            return (cc['op'] == '<=' and const_of(b) >= 0) or (cc['op'] == '<' and const_of(b) >= 1) or \
                (cc['op'] == '==' and const_of(b) == 0)
    return False
