"""C14 — static evaluation is a pure, bounded function of the position.

R1 EFFECT  the pawn cache key covers the cached computation: everything reachable from
           score_pawns_for_side<> reads the position through pawn-only accessors and reads
           no evaluator member; probe/insert use the same key; both branches return the same quantity.
R2 CACHE   HashMap: a cleared or never-written slot cannot be reported as found (clear stores an
           entry that probe rejects; insert never stores that marker; clear covers all slots). Whether ucinewgame
           clears anything is irrelevant once the caches are transparent and is not demanded.
R3 BOUND   interval bound of all 17 endgame evaluators strictly inside the non-mate range.
R4 BOUND   interval bound of the general evaluator (coarse, additive loop rule) strictly inside
           the non-mate range and different from VALUE_NONE.
R5 DEFUSE  scratch members are written for both colours before anything reads them in the same
           score() call; statistics members are read only by print_stats.
"""
import re

from facts import AnalysisBroken
from prog import walk, kids, short
from rules.atoms import cn, conj, facts_atoms, norm_atom, _unbool
from rules.bound import Bound, hull
from rules.common import strip_casts, const_of, guard_facts, counting_for, for_init_const, all_guards
from rules.effects import single_def

LEVEL = 'other'
EXPLANATION = ('Partial: cache transparency is decided structurally (key covers the computation; cleared slots cannot hit; scratch state '
               'is rewritten before use); boundedness by coarse interval evaluation under legal-material assumptions. '
               'Key collisions between different pawn structures are probabilistic and not decided.')
PS = 'engine::PositionScorer::'
SCRATCH = ('_attacked_by_bb', '_attacked_by_piece', '_outposts_bb', '_blockers_for_king', '_snipers_for_king')
STATS = ('_side_scores', '_piece_scores', '_square_scores')


def r0(ctx, p):
    """R0 no hidden state: nothing the evaluation can reach writes a namespace-scope variable, a static data member or a
    function-local static (such a variable would carry information from one evaluation into the next); the member caches of
    the scorer object are the subject of R1/R2/R5.  R0b: the key handed to a cache is not narrowed on the way in."""
    from prog import access_kind
    roots = [p.fn(PS + 'score')]
    reach = p.reachable_from([f.id for f in roots])
    n_f = 0
    for fid in sorted(reach):
        f = p.funcs.get(fid)
        if f is None or f.body is None or not f.file.startswith(p.root):
            continue
        n_f += 1
        ctx.analysed(f)
        for n in f.all_nodes():
            r = n.get('ref') or {}
            if r.get('k') in ('Global', 'StaticMember', 'StaticLocal') and access_kind(f, n) in ('write', 'rmw', 'addr', 'call'):
                ctx.ob('C14.R0.no-hidden-state', '%s:%s' % (short(f.name), short(r['n'])), False,
                       'code reachable from PositionScorer::score changes %s, a variable that outlives the evaluation: the next '
                       'evaluation can depend on it' % r['n'], site=f.loc(n))
    ctx.floor('C14.R0.functions', n_f, 60, 'functions reachable from PositionScorer::score')
    ctx.ob('C14.R0.no-hidden-state', 'PositionScorer::score', True,
           'no function reachable from the evaluation (%d) writes a namespace-scope, static-member or function-static variable' % n_f,
           site=roots[0].loc())
    # keys: probe/insert receive the key at full width
    n_k = 0
    for fid in sorted(reach):
        f = p.funcs.get(fid)
        if f is None or f.body is None or not f.name.startswith('engine::'):
            continue
        for n, cfid, nm in f.calls():
            if 'HashMap<' not in nm and 'HashMap::' not in nm.replace('<', '::<'):
                continue
            if short(nm) not in ('probe', 'insert'):
                continue
            n_k += 1
            a = kids(n)[1]
            w_to = _bits(a.get('ct') or a.get('t'))
            inner = a
            narrowed = None
            while inner is not None and inner['k'] in ('ImplicitCastExpr', 'CStyleCastExpr', 'CXXStaticCastExpr', 'CXXFunctionalCastExpr', 'ParenExpr') and kids(inner):
                inner = kids(inner)[-1]
                w = _bits(inner.get('ct') or inner.get('t'))
                if w is not None and w_to is not None and w > w_to:
                    narrowed = (w, w_to)
            ctx.ob('C14.R0.key-width', '%s:%s' % (short(f.name), short(nm)), narrowed is None and w_to is not None,
                   'the key reaches %s at the width it was computed with%s' % (short(nm), '' if narrowed is None else
                                                                              ' — narrowed from %d to %d bits: different pawn structures '
                                                                              'share a stored key' % narrowed),
                   site=f.loc(n))
    ctx.floor('C14.R0.key-width', n_k, 2, 'cache probe/insert calls')


def _bits(t):
    t = (t or '').replace('const ', '').strip()
    return {'uint64_t': 64, 'unsigned long': 64, 'unsigned long long': 64, 'long': 64, 'int64_t': 64, 'size_t': 64, 'std::size_t': 64,
            'engine::HashKey': 64, 'HashKey': 64, 'uint32_t': 32, 'unsigned int': 32, 'int': 32, 'int32_t': 32,
            'uint16_t': 16, 'unsigned short': 16, 'short': 16, 'uint8_t': 8, 'unsigned char': 8}.get(t)


def check(ctx):
    p = ctx.prog()
    r0(ctx, p)
    r1(ctx, p)
    r2(ctx, p)
    eg = r3(ctx, p)
    r4(ctx, p, eg)
    # (the former R5 — idiom rules about setup<side> writing each scratch member before its readers — is subsumed by R6, which
    #  walks the evaluation in execution order and does not depend on how the filling is spelled)
    r6(ctx, p)
    ctx.note('not decided: collisions of the 64-bit pawn key between different pawn structures (probabilistic)')


def r6(ctx, p, rule='C14.R6.members-built-first', which=('a', 'b')):
    """R6 the scorer's own members (attack maps, pin sets, phase weight) are set before they are used in every evaluation:
    the first event on each member slot is an unconditional plain write and no slot is changed after it was read"""
    from rules.evalseq import member_events, check_slots
    root = p.fn(PS + 'score')
    members, events = member_events(p, root, 'engine::PositionScorer')
    bad = [b for b in check_slots(events) if b[0] in which]
    slots = sorted({e[1] for e in events if e[0] != 'X'})
    ctx.floor(rule, len(slots), 20, 'member slots touched by an evaluation')
    seen = set()
    for kind, slot, site, why in bad:
        key = (kind, slot)
        if key in seen:
            continue
        seen.add(key)
        ctx.ob(rule, '%s%s' % (slot[0], ''.join('[%s]' % i for i in slot[1])), False,
               ('a value left by an earlier evaluation can be used: ' if kind == 'a' else
                'a member is used while it is still being built (the colours are processed one after the other): ') + why, site=site)
    ctx.ob(rule, 'PositionScorer::score', not bad,
           'walking one evaluation in execution order (%d accesses to %d member slots): every slot is first set by an unconditional '
           'plain assignment, and no slot is written after it was read' % (len(events), len(slots)), site=root.loc())


# ---------------------------------------------------------------------------------------------------------------------------
def r1(ctx, p):
    roots = [f for f in p.fns(PS + 'score_pawns_for_side') if f.body is not None]
    ctx.floor('C14.R1.roots', len(roots), 2, 'score_pawns_for_side instantiations')
    pe = p.enum('engine::Piece')
    pk = p.enum('engine::PieceKind')
    pawns = {pe['W_PAWN'], pe['B_PAWN']}
    reach = p.reachable_from([f.id for f in roots])
    n_acc = 0
    for fid in sorted(reach):
        f = p.funcs.get(fid)
        if f is None or f.body is None or not f.file.startswith(p.root):
            continue
        ctx.analysed(f)
        for n, cfid, nm in f.calls():
            if not nm.startswith('engine::Position::'):
                continue
            n_acc += 1
            a = kids(n)[1:]
            sn = short(nm)
            ok = False
            if sn == 'pieces':
                ok = len(a) >= 1 and const_of(strip_casts(a[-1])) == pk['PAWN'] and 'PieceKind' in (strip_casts(a[-1]).get('t') or '') and len(a) <= 2
            elif sn in ('number_of_pieces', 'piece_position'):
                ok = const_of(strip_casts(a[0])) in pawns
            ctx.ob('C14.R1.pawn-only-access', '%s:%d' % (short(f.name), n.get('l', 0)), ok,
                   'the cached pawn term reads the position only through pawn accessors (%s)' % cn(f, n), site=f.loc(n), sample=False)
        for x in f.all_nodes():
            r = x.get('ref') or {}
            if r.get('k') == 'Field' and r['n'].startswith(PS) and short(r['n']) not in STATS:
                ctx.ob('C14.R1.no-evaluator-state', '%s:%s' % (short(f.name), short(r['n'])), False,
                       'the cached pawn term reads evaluator member %s, which depends on more than the pawns' % short(r['n']), site=f.loc(x))
            if r.get('k') == 'Field' and r['n'].startswith(PS) and short(r['n']) in STATS:
                from prog import access_kind
                ak = access_kind(f, x)
                ctx.ob('C14.R1.stats-write-only', '%s:%s:%d' % (short(f.name), short(r['n']), x.get('l', 0)), ak == 'write',
                       'statistics member %s is only written here (%s)' % (short(r['n']), ak), site=f.loc(x), sample=False)
    ctx.floor('C14.R1.accessors', n_acc, 6, 'position accessors under the cached computation')
    sp = p.fn(PS + 'score_pawns')
    ctx.analysed(sp)
    key = [n for n in sp.all_nodes() if n['k'] == 'VarDecl' and n.get('name') == 'key']
    probe = [n for n, c, nm in sp.calls() if nm.endswith('::probe')]
    ins = [n for n, c, nm in sp.calls() if nm.endswith('::insert')]
    ok = len(key) == 1 and cn(sp, kids(key[0])[0]) == 'position.pawn_hash()' and len(probe) == 1 and len(ins) == 1 and \
        cn(sp, kids(probe[0])[1]) == 'key' and cn(sp, kids(ins[0])[1]) == 'key' and not [1 for x in sp.all_nodes()
                                                                                           if x['k'] in ('BinaryOperator', 'CompoundAssignOperator') and x.get('op', '').endswith('=') and
                                                                                           x.get('op') not in ('==', '!=', '<=', '>=') and cn(sp, kids(x)[0]) == 'key']
    ctx.ob('C14.R1.same-key', 'score_pawns', ok, 'lookup and store use the position\'s pawn key, unchanged in between', site=sp.loc())
    # per case of the lookup: a hit returns the slot's value; a miss computes white minus black, stores it under the key and returns it
    from rules.norm import Norm, decision, Unknown
    okr = False
    try:
        res = {}
        for hit in (True, False):
            nmc = Norm(sp, assume={('truthy', 'found', True): hit})
            r = decision(sp, {('truthy', 'found', True): hit}, nmc)
            res[hit] = (nmc.s(kids(r)[0]) if r is not None else None, nmc, r)
        hit_s, miss_s = res[True][0], res[False][0]
        stored = None
        if len(ins) == 1:
            nmm = res[False][1]
            feasible = all(nmm.cval(c) is not None and bool(nmm.cval(c)) == t for c, t in all_guards(sp, ins[0]))
            reached_on_hit = all(res[True][1].cval(c) is not None and bool(res[True][1].cval(c)) == t for c, t in all_guards(sp, ins[0]))
            if feasible and not reached_on_hit:
                stored = nmm.s(kids(ins[0])[2])
        terms = sorted(p.funcs[c].targs for n, c, nm in sp.calls() if nm == PS + 'score_pawns_for_side' and c in p.funcs)
        okr = hit_s is not None and hit_s.endswith('.value') and '_pawn_hash_table.probe(' in hit_s.replace('this.', '') and \
            miss_s is not None and miss_s == stored and 'score_pawns_for_side' in miss_s and terms == ['engine::BLACK', 'engine::WHITE']
    except Unknown as u:
        raise AnalysisBroken('C14: score_pawns branches on `%s`, which the rule does not know' % u)
    ctx.ob('C14.R1.hit-equals-miss', 'score_pawns', bool(okr),
           'a cache hit returns the stored value and a miss stores and returns the freshly computed value of the same expression', site=sp.loc())
    ctx.assume('the pawn key is a function of the pawn placement only (C04: pawn key purity)')


# ---------------------------------------------------------------------------------------------------------------------------
def r2(ctx, p):
    insts = sorted({f.ctargs for f in p.funcs.values() if f.cls == 'engine::HashMap' and short(f.name) == 'probe'})
    ctx.floor('C14.R2.instantiations', len(insts), 2, 'HashMap instantiations (pawn cache, transposition table)')
    for cta in insts:
        cls = 'engine::HashMap<%s>' % cta
        qual = 'engine::HashMap<%s>' % cta.replace(',', ', ')
        m = {short(f.name): f for f in p.funcs.values() if f.cls == 'engine::HashMap' and f.ctargs == cta and f.body is not None}
        for need in ('probe', 'insert', 'clear'):
            if need not in m:
                raise AnalysisBroken('C14: %s::%s not found' % (cls, need))
        probe, insert, clear = m['probe'], m['insert'], m['clear']
        for f in (probe, insert, clear):
            ctx.analysed(f)
        tag = 'pawn cache' if 'Score' in cls else 'transposition table'
        # probe: found = <conjunction> ; which fields of the slot does a hit require?
        fa = [x for x in probe.all_nodes() if x['k'] == 'BinaryOperator' and x.get('op') == '=' and cn(probe, kids(x)[0]) == 'found']
        if len(fa) != 1:
            raise AnalysisBroken('C14: probe does not assign `found` exactly once')
        atoms = conj(probe, kids(fa[0])[1])
        if not any(a[0] == 'eq' and set(a[1:]) == {'entry.key', 'key'} for a in atoms):
            # another spelling of the same conjunction (a negated disjunction, a reference to the slot): the normaliser's atoms
            from rules.norm import Norm as _Nh, Unknown as _Uh
            nh_ = _Nh(probe, keep=('entry', 'key'))

            def spread(e_, truth_):
                e0 = nh_.strip(e_)
                while e0 is not None and e0['k'] in ('ParenExpr',) and kids(e0):
                    e0 = nh_.strip(kids(e0)[0])
                if e0['k'] == 'UnaryOperator' and e0.get('op') == '!':
                    return spread(kids(e0)[0], not truth_)
                if e0['k'] == 'BinaryOperator' and ((e0.get('op') == '&&' and truth_) or (e0.get('op') == '||' and not truth_)):
                    return spread(kids(e0)[0], truth_) + spread(kids(e0)[1], truth_)
                return [nh_.atom(e0, truth_)]
            try:
                na_ = spread(kids(fa[0])[1], True)
            except _Uh:
                na_ = None
            if na_ is not None:
                conv = []
                for a in na_:
                    if a[0] == 'truthy':
                        conv.append(('ne' if a[2] else 'eq', a[1], 0))
                    elif a[0] == 'in' and isinstance(a[2], frozenset) and len(a[2]) == 1:
                        conv.append(('eq', a[1], next(iter(a[2]))))
                    else:
                        conv.append(a)
                atoms = conv
        slot = [x for x in probe.all_nodes() if x['k'] == 'VarDecl' and x.get('name') == 'entry']
        slot_e = cn(probe, kids(slot[0])[0]) if slot and kids(slot[0]) else ''
        key_eq = any(a[0] == 'eq' and set(a[1:]) == {'entry.key', 'key'} for a in atoms)
        markers = [a for a in atoms if a[0] in ('ne', 'eq', 'ge', 'le') and a[1].startswith('entry.') and a[1] != 'entry.key' and isinstance(a[2], int)]
        # the slot is a function of the key alone: key & (Size-1) or key % Size (Size is a power of two), possibly through a helper
        from rules.norm import Norm as _Ns
        def slot_of(f_, node):
            t_ = _Ns(f_).s(node).replace(' ', '')
            m_ = re.search(r'data_\[(.*)\]', t_)
            return m_.group(1) if m_ else t_
        size_ = int(cta.rsplit(',', 1)[1]) if cta.rsplit(',', 1)[1].strip().isdigit() else None

        def slot_ok(t_):
            m1 = re.fullmatch(r'\((\d+)&key\)', t_) or re.fullmatch(r'\(key&(\d+)\)', t_)
            m2 = re.fullmatch(r'\(key%(\d+)\)', t_)
            return bool(size_ and ((m1 and int(m1.group(1)) + 1 == size_) or (m2 and int(m2.group(1)) == size_)) and size_ & (size_ - 1) == 0)
        p_slot = slot_of(probe, kids(slot[0])[0]) if slot and kids(slot[0]) else ''
        ctx.ob('C14.R2.probe-key', tag, key_eq and slot_ok(p_slot),
               'a hit requires the stored key to equal the probed key in the slot selected by the key', site=probe.loc())
        # clear: every slot receives a value that the marker test rejects
        st = [x for x in clear.all_nodes() if x['k'] in ('BinaryOperator', 'CXXOperatorCallExpr') and x.get('op') == '=']
        loops = [x for x in clear.all_nodes() if x['k'] == 'ForStmt']
        full = False
        cleared = {}
        if len(loops) == 1 and len(st) == 1 and clear.inside(st[0], loops[0]):
            cf = counting_for(clear, loops[0])
            bound = loops[0]['ch'][2]
            size = [x.get('cv') for x in walk(bound) if x.get('cv') is not None and x['k'] != 'IntegerLiteral'] + \
                   [x.get('cv') for x in walk(bound) if x['k'] == 'SubstNonTypeTemplateParmExpr']
            lhs = kids(st[0])[0] if st[0]['k'] == 'BinaryOperator' else kids(st[0])[1]
            rhs = kids(st[0])[-1]
            full = bool(cf) and for_init_const(loops[0]) == 0 and cf[2] == '<' and 'data_[' in cn(clear, lhs) and \
                const_of(strip_casts(cf[1])) == const_of(strip_casts(_size_of(p, cta)))
            r = _unbool(rhs)
            while r['k'] in ('MaterializeTemporaryExpr', 'CXXBindTemporaryExpr', 'ExprWithCleanups', 'CXXFunctionalCastExpr') and kids(r):
                r = _unbool(kids(r)[-1])
            if cn(clear, lhs).endswith('.key'):
                cleared = {'key': const_of(r)}
            elif r['k'] in ('CXXTemporaryObjectExpr', 'CXXConstructExpr', 'InitListExpr', 'CXXScalarValueInitExpr') and not kids(r):
                cleared = {'key': 0, 'epoch': 0, 'value': 0}          # value-initialised Entry
            elif r['k'] in ('InitListExpr', 'CXXConstructExpr') and kids(r) and all(const_of(strip_casts(z)) is not None or not kids(z) for z in kids(r)):
                vals = [const_of(strip_casts(z)) if const_of(strip_casts(z)) is not None else 0 for z in kids(r)]
                cleared = dict(zip(['key', 'epoch', 'value'], vals + [0] * 3))
        # other spellings of "give every slot this value": std::fill / std::fill_n / assign over the whole container
        recognised = len(loops) == 1 and len(st) == 1
        if not recognised:
            for x, cfid2, nm2 in clear.calls():
                a2 = kids(x)[1:]
                val2 = None
                if nm2 == 'std::fill' and len(a2) == 3 and [cn(clear, y).replace('this.', '') for y in a2[:2]] == ['data_.begin()', 'data_.end()']:
                    val2 = a2[2]
                elif nm2 == 'std::fill_n' and len(a2) == 3 and cn(clear, a2[0]).replace('this.', '') == 'data_.begin()' and \
                        (const_of(strip_casts(a2[1])) == int(cta.split(',')[-1]) or cn(clear, a2[1]).replace('this.', '') == 'data_.size()'):
                    val2 = a2[2]
                elif short(nm2) == 'assign' and 'data_' in cn(clear, x) and len(a2) == 2 and \
                        (const_of(strip_casts(a2[0])) == int(cta.split(',')[-1]) or cn(clear, a2[0]).replace('this.', '') == 'data_.size()'):
                    val2 = a2[1]
                if val2 is not None:
                    r = _unbool(val2)
                    while r['k'] in ('MaterializeTemporaryExpr', 'CXXBindTemporaryExpr', 'ExprWithCleanups', 'CXXFunctionalCastExpr') and kids(r):
                        r = _unbool(kids(r)[-1])
                    if r['k'] in ('CXXTemporaryObjectExpr', 'CXXConstructExpr', 'InitListExpr', 'CXXScalarValueInitExpr') and not kids(r):
                        cleared = {'key': 0, 'epoch': 0, 'value': 0}
                        full = True
                        recognised = True
        if not recognised:
            raise AnalysisBroken('C14: %s::clear() is written in a form the rule does not know' % cls)
        ctx.ob('C14.R2.clear-covers', tag, full, 'clear() visits every slot of the table', site=clear.loc())
        # a cleared slot must fail the hit test for every key: some marker atom must be false on the cleared entry
        rejects = False
        why = 'no field of a cleared slot contradicts the hit test: key %s is found again when it maps to a cleared slot' % cleared.get('key')
        for a in markers:
            fld = a[1].split('.', 1)[1]
            if fld in cleared and cleared[fld] is not None:
                v = cleared[fld]
                holds = {'ne': v != a[2], 'eq': v == a[2], 'ge': v >= a[2], 'le': v <= a[2]}[a[0]]
                if not holds:
                    rejects = True
                    why = 'cleared slots have %s == %s, and a hit needs %s' % (fld, v, ' '.join(map(str, a)))
                    marker = (fld, a)
        ctx.ob('C14.R2.cleared-slot-misses', tag, rejects and bool(cleared),
               'after clear() (and before any insert) no key can hit: ' + why, site=probe.loc())
        # insert never writes the "empty" marker; the epoch counter starts non-zero and only grows
        if rejects:
            fld, a = marker
            iv = [x for x in insert.all_nodes() if x['k'] in ('InitListExpr', 'CXXConstructExpr', 'CXXTemporaryObjectExpr') and len(kids(x)) == 3]
            oki = False
            if iv:
                order = ['key', 'epoch', 'value']
                src = cn(insert, kids(iv[0])[order.index(fld)]) if fld in order else ''
                oki = src == 'epoch_' and cn(insert, kids(iv[0])[0]) == 'key'
            ep = [fl for fl in p.record(cls)['fields'] if fl['name'] == 'epoch_']
            init_ok = len(ep) == 1 and (ep[0].get('init_cv') or 0) >= 1
            for f in p.funcs.values():
                if f.cls == 'engine::HashMap' and f.ctargs == cta:
                    for i in f.d.get('inits', []):
                        if i.get('field') == 'epoch_' and (i.get('init') or {}).get('k') != 'CXXDefaultInitExpr':
                            init_ok = init_ok and (const_of(strip_casts(i['init'])) or 0) >= 1
            wr = []
            for f in m.values():
                for x in f.all_nodes():
                    r = x.get('ref') or {}
                    if r.get('k') == 'Field' and short(r['n']) == 'epoch_':
                        from prog import access_kind
                        k = access_kind(f, x)
                        if k in ('write', 'rmw', 'addr'):
                            wr.append((f, x, k))
            grow = all(k == 'rmw' and f.parent(x).get('op') == '+=' for f, x, k in wr)
            ctx.ob('C14.R2.insert-marks', tag, oki and init_ok and grow,
                   'insert stores the current epoch, which starts at >= 1 and is only ever increased, so written slots never look empty '
                   '(wrap-around after 2^32 epochs not considered)', site=insert.loc())
        # insert stores key and value of its arguments in the probed slot
        sl = [x for x in insert.all_nodes() if x['k'] in ('BinaryOperator', 'CXXOperatorCallExpr') and x.get('op') == '=']
        oks = len(sl) == 1 and slot_of(insert, kids(sl[0])[0] if sl[0]['k'] == 'BinaryOperator' else kids(sl[0])[1]) == p_slot and slot_ok(p_slot)
        ctx.ob('C14.R2.insert-slot', tag, oks, 'insert writes the slot that probe reads for the same key', site=insert.loc())


# ---------------------------------------------------------------------------------------------------------------------------
def _size_of(p, cta):
    """the Size template argument as a pseudo node"""
    return {'k': 'IntegerLiteral', 'cv': int(cta.split(',')[-1])}


def limits(p):
    mate = p.val('engine::VALUE_MATE')
    md = p.val('engine::MAX_DEPTH')
    return mate - md        # win_in(MAX_DEPTH): first mate score


def r3(ctx, p):
    lim = limits(p)
    b = Bound(p, ctx)
    evals = [f for f in p.funcs.values() if f.name.endswith('::strongSideScore') and f.ctargs and f.body is not None]
    ctx.floor('C14.R3.evaluators', len(evals), 17, 'endgame evaluators')
    tot = None
    for f in sorted(evals, key=lambda f: f.ctargs):
        r, sites = b.summary(f)
        ok = -lim < r[0] and r[1] < lim
        ctx.ob('C14.R3.endgame-bound', short(f.ctargs), ok,
               'every result lies in [%d, %d], strictly inside the non-mate range (-%d, %d)' % (r[0], r[1], lim, lim), site=f.loc(),
               detail={'returns': [(l, list(v)) for l, v in sites]})
        tot = hull(tot, r)
    base = p.fn('engine::endgame::EndgameBase::score')
    b.endgame = tot
    rb, _ = b.summary(base)
    ctx.ob('C14.R3.perspective-bound', 'EndgameBase::score', -lim < rb[0] and rb[1] < lim,
           'either sign of an evaluator result stays inside the non-mate range: [%d, %d]' % rb, site=base.loc())
    for a in sorted(b.assumed):
        ctx.assume(a)
    return rb


def r4(ctx, p, eg):
    lim = limits(p)
    none = p.val('engine::VALUE_NONE')
    # game phase weight in [0, MAX]
    b = Bound(p, ctx, endgame=eg)
    gw = p.fn(PS + 'game_phase_weight')
    w, _ = b.summary(gw)
    mx = p.val('engine::MAX_PIECE_WEIGTHS')
    ctx.ob('C14.R4.weight-range', 'game_phase_weight', w[0] >= 0 and w[1] <= mx and mx > 0,
           'the game-phase weight lies in [0, MAX_PIECE_WEIGTHS] = [0, %d] (computed [%d, %d])' % (mx, w[0], w[1]), site=gw.loc())
    comb = p.fn(PS + 'combine')
    rets = [n for n in comb.all_nodes() if n['k'] == 'ReturnStmt']
    s = cn(comb, kids(rets[0])[0]).replace('this.', '') if len(rets) == 1 else ''
    okc = s in ('(((score.mg*_weight)+(score.eg*(MAX_PIECE_WEIGTHS-_weight)))/MAX_PIECE_WEIGTHS)',
                '(((score.eg*(MAX_PIECE_WEIGTHS-_weight))+(score.mg*_weight))/MAX_PIECE_WEIGTHS)')
    ctx.ob('C14.R4.combine', 'combine', okc,
           'combine is the convex combination (mg*w + eg*(MAX-w))/MAX, so it lies between the two components', site=comb.loc())
    sc = p.fn(PS + 'score')
    wa = [x for x in sc.all_nodes() if x['k'] == 'BinaryOperator' and x.get('op') == '=' and cn(sc, kids(x)[0]).replace('this.', '') == '_weight']
    cmb = [n for n, c, nm in sc.calls() if nm == PS + 'combine']
    okw = len(wa) == 1 and cn(sc, kids(wa[0])[1]).replace('this.', '') == 'game_phase_weight(position)' and \
        all(sc.cfg.node_dominates(wa[0], c) for c in cmb) and \
        {f.name for f, x, k in p.field_accesses('engine::PositionScorer', '_weight') if k in ('write', 'rmw', 'addr')} <= {PS + 'score'}
    ctx.ob('C14.R4.weight-set', 'score', okw, 'the weight used by combine is the one computed for this position, assigned before combine is called', site=sc.loc())
    b.weight = (0, mx)
    r, sites = b.summary(sc)
    ok = -lim < r[0] and r[1] < lim and not (r[0] <= none <= r[1])
    ctx.ob('C14.R4.general-bound', 'PositionScorer::score', ok,
           'every result of the evaluation lies in [%d, %d], strictly inside the non-mate range (-%d, %d) and away from VALUE_NONE = %d'
           % (r[0], r[1], lim, lim, none), site=sc.loc(), detail={'returns': [(l, list(v)) for l, v in sites],
                                                                  'per function': {(k if isinstance(k, str) else k[0]).split('(')[0]: list(v[0]) for k, v in b.memo.items()}})
    ctx.info['bounds'] = {(k if isinstance(k, str) else k[0]).split('(')[0]: list(v[0]) for k, v in b.memo.items()}
    for a in sorted(b.assumed):
        ctx.assume(a)


# ---------------------------------------------------------------------------------------------------------------------------
def r5(ctx, p):
    from prog import access_kind
    sc = p.fn(PS + 'score')
    setups = [(n, c) for n, c, nm in sc.calls() if nm == PS + 'setup']
    cols = sorted(p.funcs[c].targs for n, c in setups if c in p.funcs)
    ctx.ob('C14.R5.setup-both', 'score', cols == ['engine::BLACK', 'engine::WHITE'],
           'score() prepares the scratch tables of both colours (%s)' % cols, site=sc.loc())
    setup_fns = {c for n, c in setups}
    setup_reach = p.reachable_from(list(setup_fns))
    # readers outside setup must be reachable only through calls of score() that come after both setup calls
    later_calls = [(n, c) for n, c, nm in sc.calls() if c in p.funcs and nm.startswith(PS) and short(nm) not in ('setup',) and
                   all(sc.cfg.node_dominates(s, n) for s, _ in setups)]
    early_calls = [(n, c) for n, c, nm in sc.calls() if c in p.funcs and nm.startswith('engine::') and (n, c) not in later_calls and
                   c not in setup_fns and p.funcs[c].body is not None]
    early_reach = p.reachable_from([c for n, c in early_calls]) if early_calls else set()
    later_reach = p.reachable_from([c for n, c in later_calls])
    callers_ok = {}
    n_reads = 0
    for m in SCRATCH:
        for f, x, k in p.field_accesses('engine::PositionScorer', m):
            if k == 'ctorinit':
                continue
            # index expressions: [colour][kind]
            idx = []
            cur = x
            par = f.parent(cur)
            while par is not None and par['k'] in ('ArraySubscriptExpr', 'ImplicitCastExpr'):
                if par['k'] == 'ArraySubscriptExpr':
                    idx.append(kids(par)[1])
                cur = par
                par = f.parent(cur)
            ak = access_kind(f, cur) if idx else k
            if ak in ('write',):
                continue
            n_reads += 1
            where = short(f.name)
            if f.id in setup_reach:
                # inside setup: own colour only, and an assignment to the same element dominates the read
                col = cn(f, idx[0]) if idx else ''
                own = col in ('side', '0', '1') and const_of(strip_casts(idx[0])) == {'engine::WHITE': 0, 'engine::BLACK': 1}.get(f.targs, -1) if idx else False
                elem = tuple(cn(f, i) for i in idx)
                dom = False
                for f2, y, k2 in p.field_accesses('engine::PositionScorer', m):
                    if f2.id != f.id:
                        continue
                    idx2, cur2 = [], y
                    par2 = f.parent(cur2)
                    while par2 is not None and par2['k'] in ('ArraySubscriptExpr', 'ImplicitCastExpr'):
                        if par2['k'] == 'ArraySubscriptExpr':
                            idx2.append(kids(par2)[1])
                        cur2 = par2
                        par2 = f.parent(cur2)
                    asg = f.parent(cur2)
                    if tuple(cn(f, i) for i in idx2) == elem and asg is not None and asg.get('op') == '=' and kids(asg)[0] is cur2 and \
                            f.cfg.node_dominates(asg, cur) and not f.inside(cur, asg):
                        dom = True
                ok = own and (dom or (ak in ('call', 'rmw') and _out_param_written_first(p, f, cur)))
                what = 'setup reads only its own colour\'s element %s%s after assigning it' % (m, ''.join('[%s]' % e for e in elem))
            else:
                ok = f.id in later_reach and f.id not in early_reach and f.id not in setup_reach or short(f.name) == 'print_stats'
                what = '%s is read in %s, which runs only after both setup<> calls of the same score() call' % (m, where)
            ctx.ob('C14.R5.write-before-read', '%s:%s:%d' % (where, m, x.get('l', 0)), ok, what, site=f.loc(x), sample=False)
        # every element kind that is read is assigned in setup
    ctx.floor('C14.R5.reads', n_reads, 15, 'reads of scratch members')
    # kinds read vs kinds assigned for _attacked_by_bb
    kinds_w, kinds_r = set(), set()
    for f, x, k in p.field_accesses('engine::PositionScorer', '_attacked_by_bb'):
        par = f.parent(x)
        idx, cur = [], x
        while par is not None and par['k'] in ('ArraySubscriptExpr', 'ImplicitCastExpr'):
            if par['k'] == 'ArraySubscriptExpr':
                idx.append(kids(par)[1])
            cur = par
            par = f.parent(cur)
        if len(idx) == 2:
            kd = const_of(strip_casts(idx[1]))
            asg = f.parent(cur)
            if asg is not None and asg.get('op') == '=' and kids(asg)[0] is cur:
                kinds_w.add(kd)
            elif access_kind(f, cur) != 'write':
                kinds_r.add(kd)
    ctx.ob('C14.R5.kinds-covered', '_attacked_by_bb', kinds_r <= kinds_w and None not in kinds_r,
           'every piece-kind slot of _attacked_by_bb that is read (%s) is assigned by setup (%s)' % (sorted(kinds_r), sorted(kinds_w)), site='engine/score.cpp')
    for m in STATS:
        rd = sorted({short(f.name) for f, x, k in p.field_accesses('engine::PositionScorer', m) if k not in ('write', 'ctorinit') and
                     not _stat_selfupdate(f, x)})
        ctx.ob('C14.R5.stats-unread', m, set(rd) <= {'print_stats', 'score_pieces', 'score_pieces_for_side', 'score_pawns_for_side'} and
               _stats_reads_fresh(p, m),
               'statistics member %s influences results only through values written earlier in the same call (readers: %s)' % (m, rd), site='engine/score.cpp')


def _out_param_written_first(p, f, arg):
    """arg is passed by reference: the callee assigns the parameter before any other use of it"""
    call = f.parent(arg)
    while call is not None and call['k'] not in ('CallExpr', 'CXXMemberCallExpr'):
        call = f.parent(call)
    if call is None:
        return False
    args = kids(call)[1:]
    pos = next((i for i, a in enumerate(args) if a is arg or f.inside(arg, a)), None)
    callee = p.funcs.get(call.get('callee', {}).get('fid'))
    if pos is None or callee is None or callee.body is None or pos >= len(callee.params):
        return False
    pid = callee.params[pos]['id']
    uses = [x for x in callee.all_nodes() if x.get('ref', {}).get('k') == 'Parm' and x['ref'].get('id') == pid]
    first = [x for x in uses if callee.parent(x) is not None and callee.parent(x).get('op') == '=' and kids(callee.parent(x))[0] is x]
    return bool(first) and all(u is first[0] or callee.cfg.node_dominates(callee.parent(first[0]), u) for u in uses)


def _stat_selfupdate(f, x):
    return False


def _stats_reads_fresh(p, m):
    """reads of a statistics member outside print_stats must be of an element assigned earlier in the same function"""
    from prog import access_kind
    for f, x, k in p.field_accesses('engine::PositionScorer', m):
        if k in ('write', 'ctorinit') or short(f.name) == 'print_stats':
            continue
        idx, cur = [], x
        par = f.parent(cur)
        while par is not None and par['k'] in ('ArraySubscriptExpr', 'ImplicitCastExpr'):
            if par['k'] == 'ArraySubscriptExpr':
                idx.append(kids(par)[1])
            cur = par
            par = f.parent(cur)
        if access_kind(f, cur) == 'write':
            continue
        elem = tuple(cn(f, i) for i in idx)
        dom = False
        for f2, y, k2 in p.field_accesses('engine::PositionScorer', m):
            if f2.id != f.id:
                continue
            idx2, cur2 = [], y
            par2 = f.parent(cur2)
            while par2 is not None and par2['k'] in ('ArraySubscriptExpr', 'ImplicitCastExpr'):
                if par2['k'] == 'ArraySubscriptExpr':
                    idx2.append(kids(par2)[1])
                cur2 = par2
                par2 = f.parent(cur2)
            asg = f.parent(cur2)
            if tuple(cn(f, i) for i in idx2) == elem and asg is not None and asg.get('op') == '=' and \
                    (kids(asg)[0] is cur2 or (asg['k'] == 'CXXOperatorCallExpr' and kids(asg)[1] is cur2)) and \
                    f.cfg.node_dominates(asg, cur) and not f.inside(cur, asg):
                dom = True
        if not dom:
            return False
    return True
