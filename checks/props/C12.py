"""C12 — KPK knowledge equals the game-theoretic truth.

Partial: the truth of the ~196 000 entries is the fix-point of a game, i.e. a
computation, and computing it is not static analysis of this code. Decided are
necessary conditions on the retrograde solver: R1 its successor relation
(king steps for the side to move, single push, double push only over an
empty square, side flipped in every successor, better/worse result roles);
R2 index packing and bit addressing agree between writer and reader;
R3 normalisation applies the same flips to all three squares; R4 terminal
classification clauses; R5 the fix-point driver revisits until nothing
changes and only ever refines UNKNOWN entries; R6 the evaluator consults the
table after normalising.

Conditions are compared as sets of normalised atoms (rules/atoms.py), so
`r != RANK_7`, `r < RANK_7` and `!(r == RANK_7)` are the same guard."""
import re

from facts import AnalysisBroken
from prog import walk, kids, short, access_kind
from rules import pack
from rules.atoms import conj, disj, facts_atoms, norm_atom, cn, show, _unbool
from rules.common import strip_casts, const_of, guard_facts, counting_for
from rules.effects import single_def

LEVEL = 'other'
EXPLANATION = ('Partial: the move relation, index plumbing, normalisation, terminal clauses and fix-point driver of the '
               'retrograde solver are decided structurally; equality of the computed table with the game-theoretic values '
               'is not (it needs the fix-point itself, i.e. executing or re-implementing the solver).')
BB = 'engine::bitbase::'
W, B = 0, 1


def IN(e, *vals):
    return ('in', e, frozenset(vals))


def per_side(f, n, inline=True):
    """expression -> {WHITE: canon, BLACK: canon}: a conditional on `side` is resolved per value"""
    n = _unbool(n)
    if n['k'] == 'ConditionalOperator':
        c, a, b = kids(n)
        at = norm_atom(f, c)
        if at[0] == 'in' and at[1] == 'side':
            ra, rb = per_side(f, a, inline), per_side(f, b, inline)
            return {v: (ra[v] if v in at[2] else rb[v]) for v in (W, B)}
    r = n.get('ref')
    if inline and r and r['k'] == 'Local':
        d = single_def(f, r['id'])
        if d is not None and _unbool(d)['k'] == 'ConditionalOperator':
            return per_side(f, d, inline)
    s = cn(f, n, inline=False)
    return {W: s, B: s}


def assigns(f, root=None):
    """[(lhs canon, rhs node, node)] for plain assignments under root"""
    out = []
    for x in (walk(root) if root is not None else f.all_nodes()):
        if x['k'] == 'BinaryOperator' and x.get('op') == '=':
            out.append((cn(f, kids(x)[0]), kids(x)[1], x))
        elif x['k'] == 'CXXOperatorCallExpr' and x.get('op') == '=':
            out.append((cn(f, kids(x)[1]), kids(x)[2], x))
    return out


def decl(f, name):
    d = [x for x in f.all_nodes() if x['k'] == 'VarDecl' and x.get('name') == name]
    if len(d) != 1:
        raise AnalysisBroken('C12: local %s of %s not found (or declared twice)' % (name, f.name))
    return d[0]


def has_decl(f, name):
    return any(x['k'] == 'VarDecl' and x.get('name') == name for x in f.all_nodes())


VOCAB = ('side', 'rank(wPawn)', 'wKing', 'bKing', 'nextPawnSq', 'kingMoves', 'wPawn')


def same(ctx, rule, key, found, want, what, site):
    ok = found == want
    if not ok:
        # an atom over something the rules of the KPK move relation do not mention cannot be judged
        for a in found - want:
            names = [x for x in a[1:] if isinstance(x, str)]
            if any(not any(x == v or x.startswith(v) for v in VOCAB) for x in names):
                raise AnalysisBroken('C12: %s is governed by `%s`, which the rule does not know' % (key, ' '.join(map(str, a))))
    det = {}
    if not ok:
        det = {'missing': show(want - found), 'unexpected': show(found - want)}
    ctx.ob(rule, key, ok, what, site=site, detail=det)
    return ok


def call_name(n):
    n = _unbool(n)
    return short(n.get('callee', {}).get('n', '')) if n is not None and n['k'] in ('CallExpr', 'CXXMemberCallExpr') else None


def full_sweep(f, loop):
    """`for (idx = 0; idx < MAX_INDEX; ++idx)` whose variable the body does not write"""
    cf = counting_for(f, loop)
    if not cf:
        return False
    ks = loop['ch']
    cond = next((c for c in ks if c and c.get('k') == 'BinaryOperator' and c.get('op') in ('<', '!=')), None)
    init = next((c for c in ks if c and c.get('k') == 'DeclStmt'), None)
    if cond is None or init is None:
        return False
    v = [x for x in walk(init) if x['k'] == 'VarDecl']
    return len(v) == 1 and kids(v[0]) and const_of(strip_casts(kids(v[0])[0])) == 0 and cn(f, kids(cond)[1]) == 'MAX_INDEX' and \
        cn(f, kids(cond)[0]) == v[0]['name']


def check(ctx):
    p = ctx.prog()
    us = p.fn(BB + 'update_score')
    ini = p.fn(BB + 'initial_score')
    gi = p.fn(BB + 'getIndex')
    pi = p.fn(BB + 'parse_index')
    chk = p.fn(BB + 'check')
    init = p.fn(BB + 'init')
    norm = p.fn(BB + 'normalize')
    for f in (us, ini, gi, pi, chk, init, norm):
        ctx.analysed(f)
    RK = p.enum('engine::Rank')
    RES = p.enum(BB + 'Result')
    pawn_ranks = frozenset(range(RK['RANK_2'], RK['RANK_7'] + 1))
    below7 = IN('rank(wPawn)', *[v for v in pawn_ranks if v != RK['RANK_7']])
    on2 = IN('rank(wPawn)', RK['RANK_2'])
    UNK, WIN = RES['kUNKNOWN'], RES['kWIN']

    def anchor(f, st):
        if st['k'] == 'DoStmt':
            return kids(st)[1]            # the loop condition: dominated by what precedes the loop, dominates what follows it
        return st['ch'][0] if st['k'] == 'ForStmt' else kids(st)[0] if st['k'] == 'WhileStmt' else st

    def noresults(g):
        # leaving an `if (results[i] == better) return` behind is not a condition on the move
        # a pawn of the table stands on ranks 2..7 (C12.R2.max-index), so rank tests are compared on that range only
        out = set()
        ins = {}
        for a in g:
            if any(isinstance(x, str) and x.startswith('results[') for x in a):
                continue
            if a[0] == 'in':
                dom = pawn_ranks if a[1] == 'rank(wPawn)' else None
                cur = ins.get(a[1], dom)
                ins[a[1]] = (a[2] & cur) if cur is not None else a[2]
                continue
            out.add(a)
        for e, vals in ins.items():       # several tests of one quantity are one test of their intersection
            if e == 'rank(wPawn)' and vals == pawn_ranks:
                continue
            out.add(('in', e, vals))
        return frozenset(out)

    # ---- R1 successor relation -------------------------------------------------------------------------------
    succ = [n for n, cfid, nm in us.calls() if nm == BB + 'getIndex']
    ctx.floor('C12.R1.successors', len(succ), 3, 'successor index computations')
    pc = [n for n, cfid, nm in us.calls() if nm == BB + 'parse_index']
    if len(pc) == 1 and len(kids(pc[0])) - 1 != 5:
        raise AnalysisBroken('C12: parse_index is no longer called with an index and four out-parameters (side, white king, pawn, black '
                             'king) in update_score; the successor rules follow those four variables by name')
    ctx.ob('C12.R1.decode', 'update_score', len(pc) == 1 and [cn(us, a) for a in kids(pc[0])[1:]] == ['idx', 'side', 'wKing', 'wPawn', 'bKing']
           and all(us.cfg.node_dominates(pc[0], s) for s in succ),
           'the position is decoded from the index being updated before any successor is formed', site=us.loc())
    classes = {}
    for n in succ:
        loops = [x for x in us.ancestors(n) if x['k'] in ('WhileStmt', 'ForStmt', 'DoStmt')]
        g = noresults(facts_atoms(us, guard_facts(us, n)))
        if loops:
            kind = 'king'
        else:
            # by where the pawn goes: straight to the fourth rank, or one rank up
            from rules.norm import Norm as _Nk
            tgt_ = _Nk(us).s(kids(n)[3])
            if tgt_.startswith('make_square(%d,' % RK['RANK_4']):
                kind = 'double'
            elif on2 in g and 'rank(wPawn)' not in tgt_:
                kind = 'double'
            else:
                kind = 'single'
        if kind in classes:
            raise AnalysisBroken('C12: two successors of kind %s in update_score' % kind)
        classes[kind] = (n, g)
    ok = set(classes) == {'king', 'single', 'double'}
    ctx.ob('C12.R1.classes', 'update_score', ok, 'successors: king steps, single pawn push, double pawn push (%s)' % sorted(classes), site=us.loc())
    if ok:
        n, g = classes['king']
        args = [per_side(us, a) for a in kids(n)[1:]]
        flip = cn(us, kids(n)[1]) == '!(side)' or args[0] == {W: 'BLACK', B: 'WHITE'}
        lp = [x for x in us.ancestors(n) if x['k'] == 'WhileStmt']
        okk = False
        lv = '?'
        own = None
        if lp:
            lv = cn(us, kids(lp[0])[0])
            if has_decl(us, lv):
                d0 = _unbool(kids(decl(us, lv))[0])
                if call_name(d0) == 'king_attacks':
                    inner = _unbool(kids(d0)[1])
                    if call_name(inner) == 'square_bb':
                        own = per_side(us, kids(inner)[1])
            step_ok = has_decl(us, 'nextKingSq') and cn(us, kids(decl(us, 'nextKingSq'))[0]) == 'pop_lsb(&(%s))' % lv and \
                us.inside(decl(us, 'nextKingSq'), lp[0])
            okk = flip and args[1] == {W: 'nextKingSq', B: 'wKing'} and args[2] == {W: 'wPawn', B: 'wPawn'} and \
                args[3] == {W: 'bKing', B: 'nextKingSq'} and own == {W: 'wKing', B: 'bKing'} and step_ok
        ctx.ob('C12.R1.king-steps', 'update_score', bool(okk),
               'the side to move may step its own king to each of its neighbours; the other king and the pawn stay; the turn passes',
               site=us.loc(n), detail={'args': str(args), 'own king': str(own)})
        lg = frozenset(a for a in g if a != ('truthy', lv, True))
        same(ctx, 'C12.R1.king-steps-unconditional', 'update_score', lg, frozenset(),
             'king steps are explored for every position (no further condition)', us.loc(n))

        n, g = classes['single']
        args = [cn(us, a) for a in kids(n)[1:]]
        same(ctx, 'C12.R1.single-push-guard', 'update_score', noresults(g), frozenset({IN('side', W), below7}),
             'exactly White (the pawn\'s side) with the pawn below rank 7 may push one square', us.loc(n))
        tgt = [(l, r, x) for l, r, x in assigns(us) if l == 'nextPawnSq']
        npd = decl(us, 'nextPawnSq')
        t1 = cn(us, kids(npd)[0]) in ('make_square((rank(wPawn)+1),file(wPawn))', 'make_square((1+rank(wPawn)),file(wPawn))')
        ctx.ob('C12.R1.single-push', 'update_score', args == ['BLACK', 'wKing', 'nextPawnSq', 'bKing'] and t1 and
               us.cfg.node_dominates(npd, n) and not any(us.cfg.node_dominates(x, n) for l, r, x in tgt),
               'the pawn advances one rank on its file, both kings stay, Black moves next', site=us.loc(n), detail={'args': args})

        n, g = classes['double']
        args = [cn(us, a) for a in kids(n)[1:]]
        want = frozenset({IN('side', W), on2,
                          ('ne', 'nextPawnSq', 'wKing'), ('ne', 'bKing', 'nextPawnSq')})
        # rank == RANK_2 subsumes rank != RANK_7
        same(ctx, 'C12.R1.double-push-guard', 'update_score', g, want,
             'the double push needs White to move, the pawn on rank 2 and the rank-3 square free of both kings', us.loc(n))
        tests = [c for c, t in guard_facts(us, n) if 'nextPawnSq' in cn(us, c) and _unbool(c).get('op') not in ('&&', '||')]
        order_ok = len(tgt) == 1 and cn(us, tgt[0][1]) == 'make_square(RANK_4,file(wPawn))' and \
            all(us.cfg.node_dominates(t_, tgt[0][2]) for t_ in tests) and us.cfg.node_dominates(tgt[0][2], n) and \
            all(us.cfg.node_dominates(npd, t_) for t_ in tests)
        ctx.ob('C12.R1.double-push', 'update_score', order_ok and args == ['BLACK', 'wKing', 'nextPawnSq', 'bKing'],
               'the emptiness test is made on the single-push square, then the pawn lands on rank 4 of its file; Black moves next',
               site=us.loc(n), detail={'args': args})
    roles = {nm: per_side(us, kids(decl(us, nm))[0]) for nm in ('betterResult', 'worseResult')}
    ctx.ob('C12.R1.roles', 'update_score', roles == {'betterResult': {W: 'kWIN', B: 'kDRAW'}, 'worseResult': {W: 'kDRAW', B: 'kWIN'}},
           'White aims for WIN, Black for DRAW (%s)' % roles, site=us.loc())
    n_early = n_unk = 0
    for n in succ:
        par = us.parent(n)
        while par is not None and par['k'] != 'VarDecl':
            par = us.parent(par)
        iv = par.get('name') if par else None
        blk = us.parent(us.parent(par)) if par else None     # DeclStmt -> CompoundStmt
        if blk is None or blk['k'] != 'CompoundStmt':
            continue
        for s in kids(blk):
            if s['k'] == 'IfStmt' and norm_atom(us, kids(s)[0]) == ('eq',) + tuple(sorted(['betterResult', 'results[%s]' % iv])):
                r = [x for x in walk(kids(s)[1]) if x['k'] == 'ReturnStmt']
                if len(r) == 1 and cn(us, kids(r[0])[0]) == 'betterResult' and us.cfg.node_dominates(n, s):
                    n_early += 1
            if s['k'] == 'CompoundAssignOperator' and s.get('op') == '|=' and cn(us, kids(s)[0]) == 'isUnknown' and \
                    norm_atom(us, kids(s)[1]) == ('eq', 'results[%s]' % iv, UNK) and us.cfg.node_dominates(n, s):
                n_unk += 1
    fin = [x for x in kids(us.body) if x['k'] == 'ReturnStmt']
    fin_ok = len(fin) == 1 and cn(us, kids(fin[0])[0]) == '(isUnknown?kUNKNOWN:worseResult)'
    iu = decl(us, 'isUnknown')
    iu_ok = const_of(strip_casts(kids(iu)[0])) == 0 and not [1 for l, r, x in assigns(us) if l == 'isUnknown']
    if not (n_early == len(succ) and n_unk == len(succ)) and any(x['k'] == 'LambdaExpr' for x in us.all_nodes()):
        raise AnalysisBroken('C12: update_score inspects successors through a local lambda; the minimax rule does not read through it')
    ctx.ob('C12.R1.minimax', 'update_score', n_early == len(succ) and n_unk == len(succ) and fin_ok and iu_ok,
           'a position takes the better result as soon as one successor has it, stays UNKNOWN while some successor is UNKNOWN, else gets the worse one '
           '(%d/%d early returns, %d/%d UNKNOWN tests)' % (n_early, len(succ), n_unk, len(succ)), site=us.loc())

    # ---- R2 PACK --------------------------------------------------------------------------------------------------
    ret = [x for x in gi.all_nodes() if x['k'] == 'ReturnStmt']
    if len(ret) != 1:
        raise AnalysisBroken('C12: getIndex has %d returns' % len(ret))
    e = _unbool(kids(ret[0])[0])
    if e.get('ref', {}).get('k') == 'Local':
        d = single_def(gi, e['ref']['id'])
        if d is None:
            raise AnalysisBroken('C12: getIndex result is not a single-definition local')
        e = d
    enc = {}
    for t in pack.flatten_or(e):
        tk = pack.term(t)
        if tk is None:
            raise AnalysisBroken('C12: non-constant shift in getIndex')
        enc[cn(gi, tk[0])] = tk[1]
    dec = {}
    for l, r, x in assigns(pi):
        r = _unbool(r)
        if call_name(r) == 'make_square':
            rk, fl = [_unbool(a) for a in kids(r)[1:]]
            if rk['k'] == 'BinaryOperator' and rk.get('op') == '+':
                a, b = [_unbool(y) for y in kids(rk)]
                if const_of(a) is not None:
                    a, b = b, a
                fa = pack.extract_field(a)
                dec[l + '.rank'] = (fa[0], fa[1], const_of(b)) if fa else None
            ff = pack.extract_field(fl)
            dec[l + '.file'] = (ff[0], ff[1]) if ff else None
        else:
            fr = pack.extract_field(r)
            dec[l] = (fr[0], fr[1]) if fr else None
    rank2 = p.enum('engine::Rank')['RANK_2']
    widths = {'wKing': 6, 'bKing': 6, 'side': 1, 'file(wPawn)': 2, '(rank(wPawn)-RANK_2)': 3}
    layout_ok = set(enc) == set(widths)
    if layout_ok:
        spans = sorted((enc[k], enc[k] + widths[k]) for k in enc)
        layout_ok = all(spans[i][1] <= spans[i + 1][0] for i in range(len(spans) - 1))
        rd = {'wKing': dec.get('wKing'), 'bKing': dec.get('bKing'), 'side': dec.get('side'),
              'file(wPawn)': dec.get('wPawn.file'), '(rank(wPawn)-RANK_2)': (dec.get('wPawn.rank') or (None, None, None))[:2]}
        layout_ok = layout_ok and all(rd[k] == (enc[k], (1 << widths[k]) - 1) for k in enc) and \
            (dec.get('wPawn.rank') or (0, 0, None))[2] == rank2
    ctx.ob('C12.R2.index-pack', 'getIndex~parse_index', layout_ok,
           'getIndex packs white king(6 bits) black king(6) side(1) pawn file(2) pawn rank-2(3) without overlap and parse_index reads each field '
           'back from the same bits into the same variable (re-adding RANK_2)', site=gi.loc(), detail={'encoder': str(enc), 'decoder': str(dec)})
    mi = p.val(BB + 'MAX_INDEX')
    ctx.ob('C12.R2.max-index', 'MAX_INDEX', layout_ok and mi == (5 << enc['(rank(wPawn)-RANK_2)'] | 3 << enc['file(wPawn)'] | 1 << enc['side'] |
                                                                    63 << enc['bKing'] | 63 << enc['wKing']) + 1,
           'MAX_INDEX is one more than the largest packed index (pawn ranks 2..7, files a..d): %d' % mi, site='engine/bitbase.cpp')
    bbv = p.var(BB + 'BITBASE')
    ctx.ob('C12.R2.bitbase-size', 'BITBASE', bbv['dims'] == [(mi + 31) // 32], 'BITBASE has one bit per index', site='engine/bitbase.cpp')

    def addr(f, n):
        """BITBASE[a] op (1 << b) -> (op, a, b)"""
        n = _unbool(n)
        ks = kids(n)
        if len(ks) != 2:
            return None
        a, b = _unbool(ks[0]), _unbool(ks[1])

        def thru(x_):
            # a single-definition local standing for the table word
            if (x_.get('ref') or {}).get('k') == 'Local':
                d_ = single_def(f, x_['ref']['id'])
                if d_ is not None:
                    return _unbool(d_)
            return x_
        # second spelling: (BITBASE[a] >> b) & 1
        for u_, one_ in ((a, b), (b, a)):
            if n.get('op') == '&' and const_of(one_) == 1 and u_['k'] == 'BinaryOperator' and u_.get('op') == '>>':
                w0, s0 = thru(_unbool(kids(u_)[0])), _unbool(kids(u_)[1])
                if w0['k'] == 'ArraySubscriptExpr' and cn(f, kids(w0)[0]) == 'BITBASE':
                    w_ = _unbool(kids(w0)[1])
                    wn_ = sn_ = None
                    if w_['k'] == 'BinaryOperator' and (w_.get('op'), const_of(_unbool(kids(w_)[1]))) in (('/', 32), ('>>', 5)):
                        wn_ = cn(f, kids(w_)[0])
                    if s0['k'] == 'BinaryOperator' and (s0.get('op'), const_of(_unbool(kids(s0)[1]))) in (('&', 31), ('%', 32)):
                        sn_ = cn(f, kids(s0)[0])
                    return ('&', wn_, sn_)
        a = thru(a)
        if a['k'] != 'ArraySubscriptExpr' or cn(f, kids(a)[0]) != 'BITBASE':
            return None
        if b['k'] != 'BinaryOperator' or b.get('op') != '<<' or const_of(_unbool(kids(b)[0])) != 1:
            return None
        w = _unbool(kids(a)[1])
        s = _unbool(kids(b)[1])
        wn = sn = None
        if w['k'] == 'BinaryOperator' and (w.get('op'), const_of(_unbool(kids(w)[1]))) in (('/', 32), ('>>', 5)):
            wn = cn(f, kids(w)[0])
        if s['k'] == 'BinaryOperator' and (s.get('op'), const_of(_unbool(kids(s)[1]))) in (('&', 31), ('%', 32)):
            sn = cn(f, kids(s)[0])
        return (n.get('op'), wn, sn)
    # reader: the masked word must reach the bool result as "non-zero" (conversion to bool or != 0); resolving single-definition locals
    rds, how = [], []
    for x in chk.all_nodes():
        if x['k'] != 'ReturnStmt':
            continue
        e = _unbool(kids(x)[0])
        test = 'nonzero'
        if e['k'] == 'BinaryOperator' and e.get('op') in ('!=', '>', '<', '==', '>=', '<='):
            l, r = [_unbool(y) for y in kids(e)]
            if const_of(r) != 0:
                raise AnalysisBroken('C12: result of bitbase::check is an unrecognised comparison')
            test = e['op']
            e = l
        via = None
        if e.get('ref', {}).get('k') == 'Local':
            d = single_def(chk, e['ref']['id'])
            if d is None:
                raise AnalysisBroken('C12: result of bitbase::check comes from a local with several definitions')
            via = (e.get('t') or '').replace('const ', '')
            e = _unbool(d)
        a = addr(chk, e)
        if a is None:
            raise AnalysisBroken('C12: reader expression of bitbase::check not recognised (%s)' % cn(chk, e))
        rds.append(a)
        # `> 0` on a signed 32-bit copy loses bit 31; `== 0` etc. invert the meaning
        signed_copy = via in ('int', 'int32_t', 'long', 'short', 'signed char', 'char')
        how.append(test == 'nonzero' and via in (None, 'bool', 'uint32_t', 'unsigned int', 'uint64_t', 'unsigned long', 'int', 'int32_t') or
                   test == '!=' and via not in ('bool',) or
                   test == '>' and not signed_copy and via != 'bool')
    wrs = [addr(init, x) for x in init.all_nodes() if x['k'] == 'CompoundAssignOperator' and 'BITBASE' in cn(init, x)]
    if any(w is None for w in wrs):
        raise AnalysisBroken('C12: writer expression of bitbase::init not recognised')
    ctx.ob('C12.R2.bit-addressing', 'check~init', rds == [('&', 'idx', 'idx')] and wrs == [('|=', 'idx', 'idx')],
           'the win bit of index idx is bit idx%%32 of word idx/32 for both writer and reader (%s / %s)' % (rds, wrs), site=chk.loc())
    ctx.ob('C12.R2.bit-test', 'check', all(how) and bool(how),
           'the masked word is reported as "bit set" exactly when it is non-zero (bit 31 included: no signed `> 0` test on a 32-bit copy)', site=chk.loc())
    ck = decl(chk, 'idx')
    ctx.ob('C12.R2.check-index', 'check', cn(chk, kids(ck)[0]) == 'getIndex(side,wKing,wPawn,bKing)' and
           [q['name'] for q in chk.params] == ['side', 'wKing', 'wPawn', 'bKing'],
           'check() looks up the index of exactly its arguments', site=chk.loc())
    ctx.ob('C12.R2.signatures', 'getIndex/parse_index', [q['name'] for q in gi.params] == ['side', 'wKing', 'wPawn', 'bKing'] and
           [q['name'] for q in pi.params] == ['idx', 'side', 'wKing', 'wPawn', 'bKing'],
           'argument order (side, white king, pawn, black king) is shared by getIndex, parse_index and check', site=gi.loc())

    # ---- R3 normalisation ----------------------------------------------------------------------------------------------
    from rules.cases import effects_under as _eun
    FL = p.enum('engine::File')
    bad_n = None
    for fv in (FL['FILE_C'], FL['FILE_D'], FL['FILE_E'], FL['FILE_H']):
        for ss in (W, B):
            got = _eun(norm, kids(norm.body), {'file(strongPawn)': fv, 'strongSide': ss},
                       keep=('strongKing', 'strongPawn', 'weakKing', 'side', 'strongSide'))
            want_ = []
            if fv > FL['FILE_D']:
                want_ += ['(%s=flip_horizontally(%s))' % (v_, v_) for v_ in ('strongKing', 'strongPawn', 'weakKing')]
            if ss == B:
                want_ += ['(%s=flip_vertically(%s))' % (v_, v_) for v_ in ('strongKing', 'strongPawn', 'weakKing')] + ['(side=!(side))']
            if sorted(got) != sorted(want_):
                extra_ = [g_ for g_ in got if g_ not in want_]
                miss_ = [w_ for w_ in want_ if w_ not in got]
                if extra_ and not all(re.fullmatch(r'\((strongKing|strongPawn|weakKing|side)=.*\)', e_) for e_ in extra_):
                    raise AnalysisBroken('C12.R3: normalize does `%s`, which the rule does not know' % extra_[0])
                if bad_n is None:
                    bad_n = 'pawn file %d, strong side %s: %s, expected %s' % (fv, 'black' if ss == B else 'white', got, want_)
    ctx.ob('C12.R3.normalize', 'normalize', bad_n is None,
           'normalisation mirrors all three squares together: horizontally when the pawn is on files e-h, vertically (and swaps the side '
           'to move) when Black owns the pawn%s' % ('' if bad_n is None else ' — ' + bad_n), site=norm.loc())

    # ---- R4 terminal rules --------------------------------------------------------------------------------------------------
    pc = [n for n, cfid, nm in ini.calls() if nm == BB + 'parse_index']
    ctx.ob('C12.R4.decode', 'initial_score', len(pc) == 1 and [cn(ini, a) for a in kids(pc[0])[1:]] == ['idx', 'side', 'wKing', 'wPawn', 'bKing'],
           'the position classified is the one decoded from the index', site=ini.loc())
    # the classification as a decision function of its eleven atoms, compared row by row with the rule (2048 rows); how the
    # ifs are nested or merged does not matter
    import itertools
    from rules.norm import Norm, decision, Unknown
    nmi = Norm(ini)
    BK = nmi.s(kids(decl(ini, 'bKingMoves'))[0])
    BC = nmi.s(kids(decl(ini, 'blackInCheck'))[0])
    NP = nmi.s(kids(decl(ini, 'nextPawnSquare'))[0])
    sqp = 'square_bb(wPawn)'

    def top_parts(x):
        x = x[1:-1] if x.startswith('(') and x.endswith(')') else x
        parts, depth, cur = [], 0, ''
        for ch in x:
            if ch in '([':
                depth += 1
            elif ch in ')]':
                depth -= 1
            if ch == '&' and depth == 0:
                parts.append(cur)
                cur = ''
            else:
                cur += ch
        return parts + [cur]

    def band(x, y):
        return '(' + '&'.join(sorted(top_parts(x) + [y])) + ')'
    X_expr = [band(BK, sqp)]
    N_expr = [band(BK, 'square_bb(%s)' % NP)]
    names = ['A1', 'A2', 'A3', 'S', 'C', 'M', 'R7', 'K1', 'K2', 'N', 'X']
    bad = None
    n_rows = 0
    try:
        for bits in itertools.product((False, True), repeat=len(names)):
            v = dict(zip(names, bits))
            val = {'distance(wKing,bKing)': 1 if v['A1'] else 3, 'side': 0 if v['S'] else 1, 'rank(wPawn)': RK['RANK_7'] if v['R7'] else RK['RANK_4'],
                   ('eq',) + tuple(sorted(['wKing', 'wPawn'])): v['A2'], ('eq',) + tuple(sorted(['bKing', 'wPawn'])): v['A3'],
                   ('eq',) + tuple(sorted(['wKing', NP])): v['K1'], ('eq',) + tuple(sorted(['bKing', NP])): v['K2'],
                   BC: v['C'], BK: v['M']}
            for e in X_expr:
                val[e] = v['X']
            for e in N_expr:
                val[e] = v['N']
            if v['X'] and not v['M'] or v['N'] and not v['M']:
                continue            # a subset of the king moves cannot be non-empty when the set is empty
            n_rows += 1
            r = decision(ini, val, nmi)
            got = cn(ini, kids(r)[0]) if r is not None else None
            white = v['S']
            if v['A1'] or v['A2'] or v['A3'] or (white and v['C']):
                want = 'kINVALID'
            elif not white and not v['M']:
                want = 'kDRAW'
            elif white and v['R7'] and not v['K1'] and not v['K2'] and not v['N']:
                want = 'kWIN'
            elif not white and v['X']:
                want = 'kDRAW'
            else:
                want = 'kUNKNOWN'
            if got != want and bad is None:
                bad = (dict((k_, v[k_]) for k_ in names if v[k_]), got, want)
    except Unknown as u:
        raise AnalysisBroken('C12: initial_score tests `%s`, which is not one of the atoms of the terminal rules' % u)
    ctx.ob('C12.R4.terminal', 'initial_score', bad is None and n_rows >= 1000,
           'terminal classification as a decision table over 11 atoms (%d consistent rows): illegal set-ups INVALID; Black to move without a king '
           'move is stalemate (DRAW); a safe promotion is a WIN; Black capturing the pawn is a DRAW; everything else UNKNOWN%s'
           % (n_rows, '' if bad is None else ' — with %s the code answers %s, the rules %s' % bad), site=ini.loc())

    def and_parts(f, n, out):
        n = _unbool(n)
        if n['k'] == 'BinaryOperator' and n.get('op') == '&':
            for x in kids(n):
                and_parts(f, x, out)
        else:
            out.add(cn(f, n))
        return out
    parts = and_parts(ini, kids(decl(ini, 'bKingMoves'))[0], set())
    bparts = and_parts(ini, kids(decl(ini, 'blackInCheck'))[0], set())
    nps = cn(ini, kids(decl(ini, 'nextPawnSquare'))[0])
    ok = parts == {'king_attacks(square_bb(bKing))', '~(king_attacks(square_bb(wKing)))', '~(pawn_attacks(square_bb(wPawn)))'} and \
        bparts == {'pawn_attacks(square_bb(wPawn))', 'square_bb(bKing)'} and \
        nps in ('make_square((rank(wPawn)+1),file(wPawn))', 'make_square((1+rank(wPawn)),file(wPawn))')
    ctx.ob('C12.R4.terminal-terms', 'initial_score', ok,
           'the black king may go to any neighbour not attacked by the white king or the pawn; Black is in check when the pawn attacks its king; '
           'the promotion square is one rank ahead', site=ini.loc(), detail={'found': str((sorted(parts), sorted(bparts), nps))})
    pa = [x['callee'].get('targs') for x in ini.all_nodes() if x.get('callee', {}).get('n') == 'engine::pawn_attacks']
    ctx.ob('C12.R4.pawn-colour', 'initial_score', len(pa) >= 2 and all(t == 'engine::WHITE' for t in pa),
           'pawn attacks are computed for a white pawn (%s)' % pa, site=ini.loc())

    # ---- R5 fix-point driver -----------------------------------------------------------------------------------------------------
    wl = [n for n in init.all_nodes() if n['k'] in ('WhileStmt', 'DoStmt')]
    okd = len(wl) == 1
    if okd:
        condn = kids(wl[0])[0] if wl[0]['k'] == 'WhileStmt' else kids(wl[0])[1]
        body = kids(wl[0])[1] if wl[0]['k'] == 'WhileStmt' else kids(wl[0])[0]
        flag = cn(init, condn)
        resets = [x for l, r, x in assigns(init, body) if l == flag and const_of(strip_casts(r)) == 0]
        sets = [x for x in walk(body) if x['k'] == 'CompoundAssignOperator' and x.get('op') == '|=' and cn(init, kids(x)[0]) == flag] + \
               [x for l, r, x in assigns(init, body) if l == flag and const_of(strip_casts(r)) == 1]
        upd = [x for l, r, x in assigns(init, body) if l == 'results[idx]' and cn(init, r) == 'update_score(results,idx)']
        okd = len(resets) == 1 and len(sets) == 1 and len(upd) == 1
        if okd:
            s = sets[0]
            NEW = (('ne', 'results[idx]', UNK), ('ne', 'update_score(results,idx)', UNK))
            if s['k'] == 'CompoundAssignOperator':
                okset = norm_atom(init, kids(s)[1]) in NEW
            else:
                okset = any(a_ in facts_atoms(init, guard_facts(init, s)) for a_ in NEW)
            fors = [x for x in walk(body) if x['k'] == 'ForStmt']
            okd = okset and init.cfg.node_dominates(upd[0], s) and \
                ('eq', 'results[idx]', UNK) in facts_atoms(init, guard_facts(init, upd[0])) and \
                len(fors) == 1 and init.inside(upd[0], fors[0]) and init.inside(s, fors[0]) and not init.inside(resets[0], fors[0]) and \
                full_sweep(init, fors[0])
    ctx.ob('C12.R5.fixpoint', 'init', bool(okd),
           'the solver sweeps all indices, refines only UNKNOWN entries, and repeats until a sweep changes nothing', site=init.loc())
    first = [x for l, r, x in assigns(init) if l == 'results[idx]' and cn(init, r) == 'initial_score(idx)']
    okf = len(first) == 1
    if okf:
        fl = [x for x in init.ancestors(first[0]) if x['k'] == 'ForStmt']
        g = frozenset(a for a in facts_atoms(init, guard_facts(init, first[0])) if a[1] != 'idx')
        okf = len(fl) == 1 and full_sweep(init, fl[0]) and not g and (not wl or init.cfg.node_dominates(anchor(init, fl[0]), anchor(init, wl[0])))
    ctx.ob('C12.R5.seed', 'init', bool(okf), 'every index is first classified by initial_score, before the fix-point iteration', site=init.loc())
    fin = [x for x in init.all_nodes() if x['k'] == 'CompoundAssignOperator' and x.get('op') == '|=' and 'BITBASE' in cn(init, x)]
    okp = len(fin) == 1
    if okp:
        flagn = cn(init, kids(wl[0])[0] if wl and wl[0]['k'] == 'WhileStmt' else kids(wl[0])[1]) if wl else None
        g = frozenset(a for a in facts_atoms(init, guard_facts(init, fin[0])) if a[1] != 'idx' and a[1] != flagn)
        fl = [x for x in init.ancestors(fin[0]) if x['k'] == 'ForStmt']
        okp = g == frozenset({('eq', 'results[idx]', WIN)}) and len(fl) == 1 and full_sweep(init, fl[0]) and \
            (not wl or init.cfg.node_dominates(anchor(init, wl[0]), anchor(init, fl[0])))
    ctx.ob('C12.R5.publish', 'init', bool(okp), 'after the fix-point, a table bit is set exactly for the indices whose result is WIN', site=init.loc())
    from rules.fill import fill_sites
    fs = fill_sites(p, {BB + 'BITBASE'})
    full = [s for s in fs if s[0].name == BB + 'init' and s[5] == (0, s[4] - 1)]
    others = [s for s in fs if s not in full and s[2] != 'read']
    okc = len(full) == 1
    fills_ = [n_ for n_, _c, nm_ in init.calls() if nm_.split('<')[0] in ('std::fill', 'std::fill_n')]
    if not full and len(fills_) == 1 and fin:
        # std::fill(std::begin(BITBASE), std::end(BITBASE), 0)
        a_ = [cn(init, x_) for x_ in kids(fills_[0])[1:]]
        okc = a_[:2] == ['begin(BITBASE)', 'end(BITBASE)'] and const_of(strip_casts(kids(fills_[0])[3])) == 0 and \
            init.cfg.node_dominates(fills_[0], anchor(init, [x for x in init.ancestors(fin[0]) if x['k'] == 'ForStmt'][0]))
    elif okc and fin:
        l1 = [x for x in init.ancestors(full[0][1]) if x['k'] == 'ForStmt']
        l2 = [x for x in init.ancestors(fin[0]) if x['k'] == 'ForStmt']
        okc = len(l1) == 1 and len(l2) == 1 and init.cfg.node_dominates(anchor(init, l1[0]), anchor(init, l2[0]))
    ctx.ob('C12.R5.cleared', 'BITBASE', okc, 'the table is cleared completely before bits are set', site=init.loc())
    wr_fns = {f.name for f, n, k_ in p.global_accesses(BB + 'BITBASE') if k_ in ('write', 'rmw', 'addr')}
    ctx.ob('C12.R5.single-writer', 'BITBASE', wr_fns == {BB + 'init'}, 'only bitbase::init writes the table (%s)' % sorted(wr_fns), site=init.loc())

    # ---- R6 consumer ---------------------------------------------------------------------------------------------------------------
    kpk = [f for f in p.funcs.values() if f.name.endswith('::strongSideScore') and f.ctargs == 'engine::endgame::kKPK']
    if len(kpk) != 1:
        raise AnalysisBroken('Endgame<kKPK>::strongSideScore not found')
    k = kpk[0]
    ctx.analysed(k)
    nc = [n for n, cfid, nm in k.calls() if nm == BB + 'normalize']
    cc = [n for n, cfid, nm in k.calls() if nm == BB + 'check']
    ok = len(nc) == 1 and len(cc) == 1 and k.cfg.node_dominates(nc[0], cc[0])
    if ok:
        na = [cn(k, a).replace('this.', '') for a in kids(nc[0])[1:]]
        ca = [cn(k, a) for a in kids(cc[0])[1:]]
        ok = na[0] == 'strongSide' and na[1:] == ca and len(set(ca)) == 4 and all(has_decl(k, v) for v in ca)
        if ok:
            srcs = [cn(k, kids(decl(k, v))[0]).replace('this.', '') for v in ca]
            ok = srcs == ['position.color()', 'position.piece_position(strongKing,0)',
                          'position.piece_position(make_piece(strongSide,PAWN),0)', 'position.piece_position(weakKing,0)']
            # verdict mapping, per case of the lookup: the returned score is KNOWN_WIN + ... for a set bit and a drawish base otherwise
            from rules.norm import Norm as _N, decision as _decision, Unknown as _Unknown
            plain = _N(k, inline=False)
            chk = plain.s(cc[0])
            kw, pd = p.val('engine::VALUE_KNOWN_WIN'), p.val('engine::VALUE_POSITIVE_DRAW')
            bases = {}
            for hit in (True, False):
                nmk = _N(k, assume={('truthy', chk, True): hit})
                try:
                    r = _decision(k, {('truthy', chk, True): hit}, nmk)
                except _Unknown as u:
                    raise AnalysisBroken('C12: the KPK evaluator branches on `%s`, which the rule does not know' % u)
                lin = nmk.linear(kids(r)[0]) if r is not None else None
                bases[hit] = lin
            ok = bases[True] is not None and bases[False] is not None and bases[True][1] == kw and bases[False][1] == pd and \
                bases[True][0] == bases[False][0] and all(c_ >= 0 for c_ in bases[True][0].values())
    ctx.ob('C12.R6.consumer', 'Endgame<kKPK>', bool(ok),
           'the KPK evaluator normalises (side to move, strong king, pawn, weak king) of the position, looks exactly those up, and scores a set bit '
           'as a win and a clear bit as a draw', site=k.loc())
    # a KPK position reaches that evaluator whatever was evaluated before: the dispatcher and everything it calls keep no state
    # between evaluations (C14.R0), and it hands the position to the first evaluator that applies (C13.R4)
    from rules.common import SubCtx as _SC14
    from props.C14 import r0 as _r0
    sub14 = _SC14(ctx)
    _r0(sub14, p)
    bad14 = [r for r in sub14.results if not r[2] and r[0] == 'C14.R0.no-hidden-state' and 'endgame' in (str(r[1]) + str(r[4]) + str(r[3])).lower()]
    ctx.ob('C12.R6.dispatch-stateless', 'endgame::score', not bad14,
           'which evaluator scores a position does not depend on earlier evaluations: nothing reachable from the dispatcher writes a '
           'variable that outlives the call (C14.R0)%s' % ('' if not bad14 else ' — ' + '; '.join('%s at %s' % (r[1], r[4]) for r in bad14[:3])),
           site=bad14[0][4] if bad14 else 'engine/endgame.cpp')
    ctx.note('not decided: that the computed table equals the game-theoretic values (needs the fix-point, i.e. running or re-implementing the solver)')
