"""C11 — attack tables are exact for every square and occupancy.

R1 MAGIC: perfect-hash obligation for the 128 (slider, square) pairs over all
107 648 subsets of the relevant masks, from the constants in the source.
R2 writer and reader of the tables use the same index expression.
R3 the builder stores geometry: ray sets, nearest-blocker selection, sibling
agreement of the two ray-attack routines. R4 mask builders drop the right
edges; init order. R5 shift<> arms, run-time shift, leaper compositions.
R6 line tables. R7 compiled witness for the file/rank constants. WHO: only
the builders write the tables."""
from facts import AnalysisBroken
from prog import walk, kids, short, access_kind
from rules.common import guard_facts, strip_casts, const_of, expr_key
from rules.witness import compile_witness

LEVEL = 'proof'
EXPLANATION = ('Exhaustive perfect-hash check of the magic constants over all 107 648 (square, relevant-subset) '
               'cases using geometry implemented in the checker, tied to the code by structural agreement rules '
               '(writer/reader index, builder ray sets, nearest-blocker choice, mask edges, shift arms, leaper '
               'compositions, line tables) and a compiled static_assert witness.')
TRUSTED = ['clang 14 parser/constant evaluator (tools/cppfacts)',
           '8x8 board geometry as implemented in checks/props/C11.py (ray walks, ~40 lines)',
           'RAYS/BISHOP_MASK/ROOK_MASK hold what their builders compute (builders are checked structurally, not executed)']

M64 = (1 << 64) - 1
DIRS = {'NW': (1, -1), 'N': (1, 0), 'NE': (1, 1), 'E': (0, 1), 'SE': (-1, 1), 'S': (-1, 0), 'SW': (-1, -1), 'W': (0, -1)}
RAY_ORDER = ['NW', 'N', 'NE', 'E', 'SE', 'S', 'SW', 'W']
DIAG = ('NW', 'NE', 'SE', 'SW')
ORTH = ('N', 'E', 'S', 'W')


def ray_squares(sq, d):
    r, f = divmod(sq, 8)
    dr, df = DIRS[d]
    out = []
    r += dr
    f += df
    while 0 <= r < 8 and 0 <= f < 8:
        out.append(r * 8 + f)
        r += dr
        f += df
    return out


def geometry(sq, dirs):
    rays = [ray_squares(sq, d) for d in dirs]
    mask = 0
    for ray in rays:
        for s in ray[:-1]:
            mask |= 1 << s
    return rays, mask


def attack(rays, occ):
    a = 0
    for ray in rays:
        for s in ray:
            a |= 1 << s
            if occ >> s & 1:
                break
    return a


def dir_vec(v):
    """Direction enumerator value -> (dr, df)"""
    df = ((v + 1) % 8) - 1
    if df == 6:
        df = -2
    dr = (v - df) // 8
    return dr, df


def check(ctx):
    del _DEFERRED[:]
    p = ctx.prog()
    tier = ctx.tier
    magics = {'BISHOP': p.val('engine::BISHOP_MAGICS'), 'ROOK': p.val('engine::ROOK_MAGICS')}
    bits = {'BISHOP': p.val('engine::BISHOP_INDEX_BITS'), 'ROOK': p.val('engine::ROOK_INDEX_BITS')}
    for k in magics:
        if len(magics[k]) != 64 or len(bits[k]) != 64:
            raise AnalysisBroken('magic tables must have 64 entries')
    table_cols = {}
    for t in ('BISHOP_TABLE', 'ROOK_TABLE'):
        v = p.var('engine::' + t)
        table_cols[t] = v['dims'][1]
        if v['dims'][0] != 64:
            raise AnalysisBroken('%s first extent' % t)

    # ---- R1 MAGIC -----------------------------------------------------------------------
    total = 0
    for kind, dirs in (('BISHOP', DIAG), ('ROOK', ORTH)):
        cols = table_cols[kind + '_TABLE']
        for sq in range(64):
            rays, mask = geometry(sq, dirs)
            nb = bits[kind][sq]
            pc = bin(mask).count('1')
            ok_bits = pc <= nb and (1 << nb) <= cols and 1 <= nb < 64
            seen = {}
            collide = None
            total += 1 << pc
            if ok_bits:
                mg = magics[kind][sq]
                sh = 64 - nb
                b = 0
                while True:
                    idx = ((b * mg) & M64) >> sh
                    a = attack(rays, b)
                    o = seen.get(idx)
                    if o is None:
                        seen[idx] = a
                    elif o != a:
                        collide = (b, idx)
                        break
                    b = (b - mask) & mask
                    if b == 0:
                        break
            ctx.ob('C11.R1.magic', '%s@%d' % (kind, sq), ok_bits and collide is None,
                   '%s magic for square %d: index bits %d >= mask popcount %d, 2^bits <= row size %d, and subsets '
                   'sharing an index have equal attack sets%s'
                   % (kind, sq, nb, pc, cols, '' if collide is None else ' (collision at blockers=%#x index=%d)' % collide),
                   site='engine/move_bitboards.cpp:%s_MAGICS[%d]' % (kind, sq), sample=(sq < 1))
    ctx.info['subsets_enumerated'] = total
    ctx.info['exhaustive'] = True
    ctx.floor('C11.R1.magic.subsets', total, 107648, 'relevant-occupancy subsets', exact=True)

    # ---- R2 writer == reader ----------------------------------------------------------------
    for kind in ('BISHOP', 'ROOK'):
        rd = p.fn('engine::slider_attack', targs='engine::' + kind)
        wr = p.fn('engine::(anonymous namespace)::init_%s_magics' % kind.lower())
        ctx.analysed(rd)
        ctx.analysed(wr)
        rk = _index_shape(rd, kind, reader=True)
        wk = _index_shape(wr, kind, reader=False)
        if rk is None or wk is None:
            # not judged here; the other rules still run (R9 tabulates what the builder loops write) and the stop is raised last
            _DEFERRED.append('C11: the %s of the %s table indexes it in a form the rule does not know (neither '
                             '`(blockers * MAGIC[sq]) >> (64 - BITS[sq])` on a subset of MASK[sq] nor a spelling of it the normal form covers)'
                             % ('reader' if rk is None else 'writer', kind))
            continue
        ctx.ob('C11.R2.index-agreement', kind, rk is not None and rk == wk,
               'the %s table is written and read through the same index expression (blockers*MAGIC[sq])>>(64-BITS[sq]) '
               'on a subset of MASK[sq], same table row/column roles' % kind,
               site=rd.loc(), detail={'reader': str(rk), 'writer': str(wk)})
    q = p.fn('engine::slider_attack', targs='engine::QUEEN')
    callees = sorted(c['targs'] for n in q.all_nodes() for c in [n.get('callee')] if c and c['n'] == 'engine::slider_attack')
    ors = [n for n in q.all_nodes() if n['k'] == 'BinaryOperator' and n.get('op') == '|']
    ctx.ob('C11.R2.queen-union', 'QUEEN', callees == ['engine::BISHOP', 'engine::ROOK'] and len(ors) == 1,
           'queen attacks are the union of bishop and rook lookups on the same square/occupancy', site=q.loc())
    # who writes the tables / magic inputs
    for g, allowed in (('engine::BISHOP_TABLE', {'init_bishop_magics'}), ('engine::ROOK_TABLE', {'init_rook_magics'}),
                       ('engine::BISHOP_MASK', {'init_bishop_mask'}), ('engine::ROOK_MASK', {'init_rook_mask'}),
                       ('engine::RAYS', {'init_rays'}), ('engine::KNIGHT_MASK', {'init_knight_mask'}),
                       ('engine::KING_MASK', {'init_king_mask'}), ('engine::LINES', {'init_lines_bitboards'}),
                       ('engine::FULL_LINES', {'init_full_lines_bitboards'}),
                       ('engine::BISHOP_MAGICS', set()), ('engine::ROOK_MAGICS', set()),
                       ('engine::BISHOP_INDEX_BITS', set()), ('engine::ROOK_INDEX_BITS', set())):
        p.var(g)
        bad = [(f, n) for f, n, k in p.global_accesses(g) if k in ('write', 'rmw', 'addr') and short(f.name) not in allowed]
        ctx.ob('C11.WHO.table-writers', short(g), not bad,
               '%s is written only by %s' % (short(g), ', '.join(sorted(allowed)) or 'its initialiser'),
               site=bad[0][0].loc(bad[0][1]) if bad else 'engine/move_bitboards.cpp')

    # ---- R3 builder geometry -------------------------------------------------------------------
    ray_enum = p.enum('engine::Ray')
    want = ['RAY_' + r for r in RAY_ORDER]
    ctx.ob('C11.R3.ray-enum', 'Ray', [ray_enum.get(w) for w in want] == list(range(8)),
           'Ray enumerators are NW,N,NE,E,SE,S,SW,W = 0..7', site='engine/move_bitboards.h')
    dir_enum = p.enum('engine::Direction')
    init_rays = p.fn('engine::(anonymous namespace)::init_rays')
    ctx.analysed(init_rays)
    dvals = _local_array(init_rays, 'directions')
    exp = [8 * DIRS[r][0] + DIRS[r][1] for r in RAY_ORDER]
    ctx.ob('C11.R3.ray-directions', 'init_rays', dvals == exp,
           'RAYS[i] is built by stepping in the direction of Ray enumerator i (directions[] = %s)' % dvals,
           site=init_rays.loc())
    # RAYS[i][sq] written with the loop index that selects directions[i]
    ok_rays = _rays_store_ok(init_rays)
    ctx.ob('C11.R3.ray-store', 'init_rays', ok_rays,
           'RAYS[i][sq] accumulates shift(square_bb(sq), directions[i]) repeatedly until it leaves the board', site=init_rays.loc())
    for nm, exp_r in (('get_bishop_attacks', DIAG), ('get_rook_attacks', ORTH)):
        f = p.fn('engine::(anonymous namespace)::' + nm)
        ctx.analysed(f)
        rays = []
        for n, cfid, cnm in f.calls():
            if short(cnm) == 'get_attack_in_ray':
                rays.append(const_of(strip_casts(kids(n)[2])))
        ok = sorted(rays) == sorted(ray_enum['RAY_' + r] for r in exp_r)
        ors = [n for n in f.all_nodes() if n['k'] == 'CompoundAssignOperator' and n.get('op') == '|=']
        ctx.ob('C11.R3.builder-rays', nm, ok and len(ors) == len(exp_r),
               '%s is the union of get_attack_in_ray over exactly the rays %s' % (nm, '/'.join(exp_r)), site=f.loc())
    gar = p.fn('engine::(anonymous namespace)::get_attack_in_ray')
    air = p.fn('engine::attack_in_ray')
    ctx.analysed(gar)
    ctx.analysed(air)
    for f in (gar, air):
        ok, why = _ray_attack_shape(f, dvals)
        ctx.ob('C11.R3.nearest-blocker', short(f.name), ok,
               '%s picks the nearest blocker (lsb for rays stepping to higher squares, msb otherwise) and returns the ray '
               'up to and including it: %s' % (short(f.name), why), site=f.loc())
    ctx.ob('C11.R3.sibling-agreement', 'get_attack_in_ray~attack_in_ray',
           _ray_table(gar) is not None and _ray_table(gar) == _ray_table(air) and _masked_first(gar) == _masked_first(air),
           'the table builder\'s ray walk and the move generator\'s ray walk choose lsb/msb for the same rays, mask the blockers with the ray '
           'first and return the same shape (%s / %s)' % (_ray_table(gar), _ray_table(air)), site=air.loc())

    # ---- R4 mask builders and init order ---------------------------------------------------------
    rm = p.fn('engine::(anonymous namespace)::init_rook_mask')
    bm = p.fn('engine::(anonymous namespace)::init_bishop_mask')
    ctx.analysed(rm)
    ctx.analysed(bm)
    edge_of = {'N': p.val('engine::rank8_bb'), 'E': p.val('engine::fileH_bb'),
               'S': p.val('engine::rank1_bb'), 'W': p.val('engine::fileA_bb')}
    terms = []
    for n in rm.all_nodes():
        if n['k'] == 'CompoundAssignOperator' and n.get('op') == '|=':
            rhs = strip_casts(kids(n)[1])
            if rhs['k'] == 'BinaryOperator' and rhs.get('op') == '&':
                a, b = [strip_casts(x) for x in kids(rhs)]
                ray = _rays_index(a)
                m = const_of(b)
                terms.append((ray, m))
    exp_terms = sorted((ray_enum['RAY_' + d], (~edge_of[d]) & M64) for d in ORTH)
    ctx.ob('C11.R4.rook-mask', 'init_rook_mask', sorted(terms) == exp_terms,
           'ROOK_MASK[sq] = union of the four orthogonal rays, each without its own far edge (N:rank8, E:fileH, S:rank1, W:fileA)',
           site=rm.loc())
    rays_b = sorted(_rays_index(x) for x in bm.all_nodes() if _rays_index(x) is not None)
    edges = None
    for n in bm.all_nodes():
        if n['k'] == 'BinaryOperator' and n.get('op') == '&' and strip_casts(kids(n)[1]).get('cv') is not None:
            edges = strip_casts(kids(n)[1])['cv']
    all_edges = edge_of['N'] | edge_of['E'] | edge_of['S'] | edge_of['W']
    ctx.ob('C11.R4.bishop-mask', 'init_bishop_mask',
           rays_b == sorted(ray_enum['RAY_' + d] for d in DIAG) and edges == (~all_edges) & M64,
           'BISHOP_MASK[sq] = union of the four diagonal rays without the board edge', site=bm.loc())
    init = p.fn('engine::move_bitboards::init')
    ctx.analysed(init)
    order = [short(nm) for n, cfid, nm in sorted(init.calls(), key=lambda t: t[0]['i'])]
    def before(a, b):
        return a in order and b in order and order.index(a) < order.index(b)
    ok = all(before('init_rays', x) for x in ('init_bishop_mask', 'init_rook_mask', 'init_bishop_magics', 'init_rook_magics')) \
        and before('init_bishop_mask', 'init_bishop_magics') and before('init_rook_mask', 'init_rook_magics') \
        and all(x in order for x in ('init_knight_mask', 'init_king_mask', 'init_lines_bitboards',
                                     'init_full_lines_bitboards', 'init_castling_paths_bitboards'))
    ctx.ob('C11.R4.init-order', 'move_bitboards::init', ok,
           'rays are built before masks, masks before magics; every table builder is called (%s)' % ' > '.join(order),
           site=init.loc())
    mains = [f for f in p.fns('main')]
    for m in mains:
        cs = [(n, nm) for n, cfid, nm in sorted(m.calls(), key=lambda t: t[0]['i'])]
        names = [nm for n, nm in cs]
        ok = 'engine::move_bitboards::init' in names and \
            all(names.index('engine::move_bitboards::init') < i for i, nm in enumerate(names)
                if nm in ('engine::Uci::loop', 'engine::bitbase::init', 'engine::endgame::init', 'engine::Uci::Uci'))
        ctx.ob('C11.R4.init-before-use', 'main:%s' % m.rel, ok,
               'move_bitboards::init() runs before any other engine initialisation and before the UCI loop', site=m.loc())

    # ---- R5 shift<> -----------------------------------------------------------------------------------
    n_sh = 0
    fa, fh = edge_of['W'], edge_of['E']
    for name, v in sorted(dir_enum.items()):
        fs = [f for f in p.fns('engine::shift') if f.targs == 'engine::' + name]
        if len(fs) != 1:
            raise AnalysisBroken('shift<%s> instantiation not found' % name)
        f = fs[0]
        ctx.analysed(f)
        n_sh += 1
        leaf = _shift_leaf(f)
        dr, df = dir_vec(v)
        exp_mask = None if df == 0 else ((~fh) & M64 if df > 0 else (~fa) & M64)
        exp_leaf = ('<<' if v > 0 else '>>', abs(v), exp_mask)
        ctx.ob('C11.R5.shift-arm', 'shift<%s>' % name, leaf == exp_leaf,
               'shift<%s> shifts by |%d| %s and masks %s before shifting'
               % (name, v, 'left' if v > 0 else 'right',
                  'nothing' if exp_mask is None else ('file H' if df > 0 else 'file A')),
               site=f.loc(), detail={'found': str(leaf)})
    ctx.floor('C11.R5.shift-arm', n_sh, 10, 'shift<> instantiations')
    rs = p.fn('engine::shift', targs='', nparams=2)
    ctx.analysed(rs)
    cases = {}
    for n in rs.all_nodes():
        if n['k'] == 'CaseStmt':
            cv = n.get('casev')
            tgt = [c for x in walk(n) for c in [x.get('callee')] if c and c['n'] == 'engine::shift']
            cases[cv] = tgt[0].get('targs') if tgt else None
    ok = all(cases.get(v) == 'engine::' + name for name, v in dir_enum.items()) and len(cases) == len(dir_enum)
    ctx.ob('C11.R5.shift-runtime', 'shift(bb,dir)', ok,
           'the run-time shift dispatches every Direction enumerator to the shift<> of the same direction', site=rs.loc())
    # leaper compositions
    kn = p.fn('engine::(anonymous namespace)::init_knight_mask')
    ctx.analysed(kn)
    jumps = sorted(_compositions(kn, dir_enum))
    exp_j = sorted((a, b) for a in (-2, -1, 1, 2) for b in (-2, -1, 1, 2) if abs(a) != abs(b))
    ctx.ob('C11.R5.knight-jumps', 'init_knight_mask', jumps == exp_j,
           'KNIGHT_MASK is the union of exactly the eight (+-1,+-2)/(+-2,+-1) compositions of unit shifts', site=kn.loc(),
           detail={'found': str(jumps)})
    exp_k = sorted((a, b) for a in (-1, 0, 1) for b in (-1, 0, 1) if (a, b) != (0, 0))
    for f in (p.fn('engine::(anonymous namespace)::init_king_mask'), p.fn('engine::king_attacks')):
        ctx.analysed(f)
        steps = sorted(_compositions(f, dir_enum))
        if not steps and f.name.endswith('init_king_mask'):
            # the mask is taken from king_attacks(square_bb(sq)), whose own steps are the other instance of this rule
            from rules.norm import Norm as _Nk
            st_ = [_Nk(f, inline=False).s(kids(x)[1]) for x in f.all_nodes() if x['k'] == 'BinaryOperator' and x.get('op') == '=' and
                   _Nk(f, inline=False).s(kids(x)[0]).startswith('KING_MASK[')]
            if st_ and all(t_ == 'king_attacks(square_bb(sq))' for t_ in st_):
                steps = exp_k
        ctx.ob('C11.R5.king-steps', short(f.name), steps == exp_k,
               '%s is the union of exactly the eight unit steps' % short(f.name), site=f.loc(), detail={'found': str(steps)})
    for side, exp_p in (('engine::WHITE', [(1, -1), (1, 1)]), ('engine::BLACK', [(-1, -1), (-1, 1)])):
        f = p.fn('engine::pawn_attacks', targs=side)
        ctx.analysed(f)
        steps = sorted(_compositions(f, dir_enum, live_only=True))
        ctx.ob('C11.R5.pawn-attacks', 'pawn_attacks<%s>' % short(side), steps == exp_p,
               'pawn_attacks<%s> is the union of the two forward diagonal steps' % short(side), site=f.loc(),
               detail={'found': str(steps)})
    pr = p.fn('engine::pawn_attacks', targs='', nparams=2)
    sel = {}
    for n in pr.all_nodes():
        if n['k'] == 'ConditionalOperator':
            c, a, b = kids(n)
            c = strip_casts(c)
            if c['k'] == 'BinaryOperator' and c.get('op') == '==' and const_of(strip_casts(kids(c)[1])) == 0:
                sel = {'W': strip_casts(a).get('callee', {}).get('targs'), 'B': strip_casts(b).get('callee', {}).get('targs')}
    ctx.ob('C11.R5.pawn-attacks-runtime', 'pawn_attacks(bb,side)', sel == {'W': 'engine::WHITE', 'B': 'engine::BLACK'},
           'run-time pawn_attacks selects the instantiation of the same colour', site=pr.loc())

    # ---- R6 line tables ------------------------------------------------------------------------------
    il = p.fn('engine::(anonymous namespace)::init_lines_bitboards')
    ctx.analysed(il)
    d2 = _local_array(il, 'directions')
    mv = _local_array(il, 'moves')
    ctx.ob('C11.R6.lines-steps', 'init_lines_bitboards', d2 is not None and d2 == mv and sorted(d2) == sorted(exp),
           'the square stepped to (moves[i]) always matches the direction the bitboard is shifted in (directions[i]) '
           'and all eight directions are walked', site=il.loc(), detail={'directions': str(d2), 'moves': str(mv)})
    ok = _lines_loop_ok(il)
    ctx.ob('C11.R6.lines-loop', 'init_lines_bitboards', ok,
           'LINES[from][to] stores the squares accumulated so far, then both the set and the end square advance with the same index i',
           site=il.loc())
    fl = p.fn('engine::(anonymous namespace)::init_full_lines_bitboards')
    ctx.analysed(fl)
    # the four relations between two squares and what each stores: R9.full-lines-cases / R9.full-lines-diagonals (builders)

    # ---- R8 FILL: loop-filled tables are filled completely ---------------------------------------------------------
    from rules.fill import fill_sites
    tabs = {'engine::' + t for t in ('RAYS', 'KNIGHT_MASK', 'BISHOP_MASK', 'ROOK_MASK', 'KING_MASK', 'BISHOP_TABLE',
                                     'ROOK_TABLE', 'LINES', 'FULL_LINES')}
    n_fill = 0
    seen_t = set()
    for f, n, t, dim, ext, itv, lv in fill_sites(p, tabs):
        n_fill += 1
        seen_t.add(t)
        ok = itv is not None and itv[0] == 0 and itv[1] == ext - 1
        ctx.ob('C11.R8.fill', '%s:%s[dim %d by %s]' % (short(f.name), short(t), dim, lv), ok,
               'the loop variable `%s` that subscripts %s (extent %d) ranges over exactly 0..%d at the store (interval %s)'
               % (lv, short(t), ext, ext - 1, itv), site=f.loc(n), sample=(n_fill <= 2 or not ok))
    ctx.floor('C11.R8.fill', n_fill, 20, 'loop-indexed table stores')
    ctx.ob('C11.R8.fill-tables', 'tables', seen_t == tabs, 'every geometry table is filled by loops over its whole index range (%s)' % sorted(short(t) for t in tabs - seen_t),
           site='engine/move_bitboards.cpp')

    # ---- R7 witness --------------------------------------------------------------------------------------
    n_as, fails = compile_witness('C11.cc')
    for (fn_, line, msg) in fails:
        ctx.ob('C11.R7.witness', 'C11.cc:%d' % line, False, 'static_assert failed: ' + msg, site='%s:%d' % (fn_, line))
    for i in range(n_as - len(fails)):
        ctx.ob('C11.R7.witness', 'C11.cc#%d' % i, True, 'board-constant relation holds at compile time',
               site='witness/C11.cc', sample=(i < 1))
    ctx.floor('C11.R7.witness', n_as, 18, 'static_asserts')
    builders(ctx, p)
    ctx.assume('attack(sq, occ) = attack(sq, occ & mask): the last square of a ray cannot shadow anything (geometry)')
    if _DEFERRED:
        msg = _DEFERRED[0]
        del _DEFERRED[:]
        raise AnalysisBroken(msg)


_DEFERRED = []


# ------------------------------------------------------------------------------------------------------
def _role_norm(n, roles):
    n = strip_casts(n)
    if n is None:
        return None
    r = n.get('ref')
    if r:
        if r['k'] in ('Local', 'Parm'):
            return roles.get(r['id'], 'local:' + r['n'])
        return short(r['n'])
    if 'cv' in n and n['k'] in ('IntegerLiteral',):
        return n['cv']
    return (n['k'], n.get('op'), tuple(_role_norm(c, roles) for c in kids(n)))


def _index_shape(f, kind, reader):
    """('TABLE[SQ][(B*MAGICS[SQ])>>(64-BITS[SQ])]', 'B subset of MASK[SQ]') when every magic-indexed access of the table has that
    form — however the key is spelt (named local, helper function) — else None"""
    import re as _re
    from rules.norm import Norm
    from rules.common import written_value
    table = 'engine::%s_TABLE' % kind
    nm = Norm(f)
    shapes = set()
    n_acc = 0
    for n in f.all_nodes():
        if n['k'] != 'ArraySubscriptExpr':
            continue
        base = strip_casts(kids(n)[0])
        if not (base['k'] == 'ArraySubscriptExpr' and strip_casts(kids(base)[0]).get('ref', {}).get('n') == table):
            continue
        row = nm.s(kids(base)[1])
        col_n = strip_casts(kids(n)[1])
        col = nm.s(col_n)
        pat = r'\(\((?:(?P<b1>.+)\*%s_MAGICS\[(?P<s1>\w+)\]|%s_MAGICS\[(?P<s2>\w+)\]\*(?P<b2>.+))\)>>\(64-%s_INDEX_BITS\[(?P<s3>\w+)\]\)\)' % (kind, kind, kind)
        m = _re.fullmatch(pat, col)
        if not m:
            # the constant pre-fill of a row (writer only): TABLE[sq][i] = <constant>
            v = written_value(f, n) if access_kind(f, n) == 'write' else None
            if not reader and v is not None and const_of(strip_casts(v)) is not None:
                continue
            return None
        n_acc += 1
        sqv = m.group('s1') or m.group('s2')
        bexp = m.group('b1') or m.group('b2')
        if sqv != m.group('s3') or row != sqv:
            return None
        # B is a subset of MASK[SQ]
        sub = False
        if _re.fullmatch(r'get_blockers_from_index\(\w+,%s_MASK\[%s\]\)' % (kind, sqv), bexp):
            sub = True
        else:
            for x in f.all_nodes():
                if x['k'] == 'CompoundAssignOperator' and x.get('op') == '&=' and Norm(f, inline=False).s(kids(x)[0]) == bexp and \
                        nm.s(kids(x)[1]) == '%s_MASK[%s]' % (kind, sqv) and f.cfg.node_dominates(x, n):
                    # nothing widens B between the masking and the access
                    later = [w for w in f.all_nodes() if w['k'] in ('BinaryOperator', 'CompoundAssignOperator') and
                             w.get('op', '') in ('=', '|=', '^=', '+=') and Norm(f, inline=False).s(kids(w)[0]) == bexp and
                             f.cfg.node_dominates(x, w)]
                    sub = not later
        if not sub:
            return None
        shapes.add(('TABLE[SQ][(B*MAGICS[SQ])>>(64-BITS[SQ])]', 'B subset of MASK[SQ]'))
    if len(shapes) != 1 or not n_acc:
        return None
    return next(iter(shapes))


def _local_array(f, name):
    for n in f.all_nodes():
        if n['k'] == 'VarDecl' and n.get('name') == name:
            if 'val' in n:
                return list(n['val'])
            if kids(n):
                vals = [const_of(strip_casts(c)) for c in kids(strip_casts(kids(n)[0]))]
                if all(v is not None for v in vals):
                    return vals
    return None


def _rays_index(n):
    """for RAYS[k][sq] returns constant k"""
    n = strip_casts(n)
    if n and n['k'] == 'ArraySubscriptExpr':
        base = strip_casts(kids(n)[0])
        if base['k'] == 'ArraySubscriptExpr' and strip_casts(kids(base)[0]).get('ref', {}).get('n') == 'engine::RAYS':
            return const_of(strip_casts(kids(base)[1]))
    return None


def _rays_store_ok(f):
    # RAYS[i][sq] = bb ; bb |= field ; field = shift(.., dir) ; dir = directions[i]
    store = None
    for n in f.all_nodes():
        if n['k'] == 'BinaryOperator' and n.get('op') == '=':
            lhs = strip_casts(kids(n)[0])
            if lhs['k'] == 'ArraySubscriptExpr':
                base = strip_casts(kids(lhs)[0])
                if base['k'] == 'ArraySubscriptExpr' and strip_casts(kids(base)[0]).get('ref', {}).get('n') == 'engine::RAYS':
                    store = (strip_casts(kids(base)[1]), strip_casts(kids(lhs)[1]), strip_casts(kids(n)[1]))
    if not store:
        return False
    i_ref, sq_ref, val = store
    iid = i_ref.get('ref', {}).get('id')
    dir_from_i = False
    for n in f.all_nodes():
        if n['k'] == 'VarDecl' and n.get('name') == 'dir' and kids(n):
            e = strip_casts(kids(n)[0])
            if e['k'] == 'ArraySubscriptExpr' and strip_casts(kids(e)[1]).get('ref', {}).get('id') == iid and \
                    short(strip_casts(kids(e)[0]).get('ref', {}).get('n', '')) == 'directions':
                dir_from_i = True
    shifts = [n for n, cfid, nm in f.calls() if nm == 'engine::shift']
    uses_dir = all(short(strip_casts(kids(s)[2]).get('ref', {}).get('n', '')) == 'dir' for s in shifts)
    starts = any(strip_casts(kids(s)[1]).get('callee', {}).get('n') == 'engine::square_bb' and
                 strip_casts(kids(strip_casts(kids(s)[1]))[1]).get('ref', {}).get('id') == sq_ref.get('ref', {}).get('id')
                 for s in shifts)
    return dir_from_i and uses_dir and starts and len(shifts) == 2


def _ray_attack_shape(f, dvals):
    """for each of the eight rays: with the ray fixed, the function returns RAYS[ray][sq] minus the ray behind the blocker picked
    by lsb (rays stepping to higher squares) or msb; independent of whether the choice is an if/else or a conditional expression"""
    tab = _ray_table(f)
    if tab is None:
        raise AnalysisBroken('C11: %s does not return RAYS[ray][sq] & ~RAYS[ray][lsb|msb(blockers & RAYS[ray][sq])] in a spelling the rule '
                             'knows; which blocker it picks per ray cannot be tabulated' % short(f.name))
    for ray in range(8):
        want = 'lsb' if dvals and dvals[ray] > 0 else 'msb'
        if tab[ray] != want:
            return False, 'ray %d (direction %+d) uses %s' % (ray, dvals[ray] if dvals else 0, tab[ray])
    return True, 'decision table over 8 rays agrees with direction signs'


def _ray_table(f):
    """['lsb'|'msb'] chosen for ray 0..7, or None when the returned expression has another shape"""
    import re as _re
    from rules.norm import Norm
    if [q['name'] for q in f.params][:3] != ['sq', 'ray', 'blockers']:
        return None
    rets = [r for r in f.all_nodes() if r['k'] == 'ReturnStmt']
    out = []
    for ray in range(8):
        nm = Norm(f, {'ray': ray})
        picks = set()
        for r in rets:
            s = nm.s(kids(r)[0])
            if s == 'RAYS[%d][sq]' % ray:
                continue            # the early exit for "no blocker on this ray"
            m = _re.fullmatch(r'\(RAYS\[%d\]\[sq\]&~\(RAYS\[%d\]\[(lsb|msb)\(\((?:RAYS\[%d\]\[sq\]&blockers|blockers&RAYS\[%d\]\[sq\])\)\)\]\)\)'
                              % (ray, ray, ray, ray), s)
            if not m:
                return None
            picks.add(m.group(1))
        if len(picks) != 1:
            return None
        out.append(picks.pop())
    return out


def _masked_first(f):
    """the blockers are intersected with the ray before the nearest one is looked for, and an empty intersection returns the whole ray"""
    from rules.norm import Norm
    nm = Norm(f)
    picks = [x for x in f.all_nodes() if x.get('callee') and short(x['callee']['n']) in ('lsb', 'msb')]
    args = {nm.s(kids(x)[1]) for x in picks}
    early = [r for r in f.all_nodes() if r['k'] == 'ReturnStmt' and nm.s(kids(r)[0]) == 'RAYS[ray][sq]']
    g = [nm.facts(guard_facts(f, r)) for r in early]
    return (sorted(args), [sorted(map(str, x)) for x in g if x is not None])


def _eval_cond(c, var_id, val):
    c = strip_casts(c)
    if c['k'] == 'BinaryOperator' and c.get('op') in ('&&', '||'):
        a = _eval_cond(kids(c)[0], var_id, val)
        b = _eval_cond(kids(c)[1], var_id, val)
        if a is None or b is None:
            return None
        return (a and b) if c['op'] == '&&' else (a or b)
    if c['k'] == 'BinaryOperator' and c.get('op') in ('<', '<=', '>', '>=', '==', '!='):
        def ev(x):
            x = strip_casts(x)
            if x.get('ref', {}).get('id') == var_id and x['ref']['k'] == 'Parm':
                return val
            return const_of(x)
        a, b = ev(kids(c)[0]), ev(kids(c)[1])
        if a is None or b is None:
            return None
        return {'<': a < b, '<=': a <= b, '>': a > b, '>=': a >= b, '==': a == b, '!=': a != b}[c['op']]
    return None


def _body_key(f):
    """structure of a function body with locals/params renamed by order of first appearance"""
    ren = {}

    def k(n):
        n = strip_casts(n)
        if n is None:
            return None
        r = n.get('ref')
        if r:
            if r['k'] in ('Local', 'Parm'):
                ren.setdefault(r['id'], len(ren))
                return ('v', ren[r['id']])
            return ('g', r['n'])
        if n['k'] == 'VarDecl':
            ren.setdefault(n['id'], len(ren))
            return ('decl', ren[n['id']], tuple(k(c) for c in kids(n)))
        cal = n.get('callee', {}).get('n')
        return (n['k'], n.get('op'), n.get('cv') if n['k'].endswith('Literal') else None, cal,
                tuple(k(c) for c in kids(n)))
    return k(f.body)


def _shift_leaf(f):
    """follow the constant-folded conditional chain of shift<dir> to the live arm"""
    ret = [n for n in f.all_nodes() if n['k'] == 'ReturnStmt']
    if len(ret) != 1:
        return None
    e = strip_casts(kids(ret[0])[0])
    while e is not None and e['k'] == 'ConditionalOperator':
        c, a, b = kids(e)
        cv = const_of(strip_casts(c))
        if cv is None:
            return None
        e = strip_casts(a if cv else b)
    if e is None or e['k'] != 'BinaryOperator' or e.get('op') not in ('<<', '>>'):
        return ('const', const_of(e)) if e is not None else None
    a, b = [strip_casts(x) for x in kids(e)]
    amt = const_of(b)
    mask = None
    if a['k'] == 'BinaryOperator' and a.get('op') == '&':
        x, y = [strip_casts(z) for z in kids(a)]
        if x.get('ref', {}).get('k') != 'Parm':
            return None
        mask = const_of(y)
    elif a.get('ref', {}).get('k') != 'Parm':
        return None
    return (e['op'], amt, mask)


def _compositions(f, dir_enum, live_only=False):
    """each maximal chain shift<A>(shift<B>(...)) -> summed (dr, df)"""
    out = []
    inner = set()
    nodes = list(f.all_nodes())
    live = None
    if live_only:
        # follow constant-folded ternaries from the return
        ret = [n for n in nodes if n['k'] == 'ReturnStmt'][0]
        e = strip_casts(kids(ret)[0])
        while e['k'] == 'ConditionalOperator':
            c, a, b = kids(e)
            cv = const_of(strip_casts(c))
            if cv is None:
                break
            e = strip_casts(a if cv else b)
        live = set(x['i'] for x in walk(e))
    for n in nodes:
        c = n.get('callee')
        if c and c['n'] == 'engine::shift' and c.get('targs'):
            a = strip_casts(kids(n)[1])
            if a.get('callee', {}).get('n') == 'engine::shift':
                inner.add(a['i'])
    for n in nodes:
        c = n.get('callee')
        if not (c and c['n'] == 'engine::shift' and c.get('targs')) or n['i'] in inner:
            continue
        if live is not None and n['i'] not in live:
            continue
        dr = df = 0
        cur = n
        while cur is not None and cur.get('callee', {}).get('n') == 'engine::shift' and cur['callee'].get('targs'):
            v = dir_enum[short(cur['callee']['targs'])]
            a, b = dir_vec(v)
            dr += a
            df += b
            cur = strip_casts(kids(cur)[1])
        out.append((dr, df))
    return out


def _lines_loop_ok(f):
    # LINES[from][to] = bb; bb |= shift(bb, directions[i]); to_bb = shift(to_bb, directions[i]); to = Square(to + moves[i])
    idx_ids = set()
    n_dir = n_mv = 0
    for n in f.all_nodes():
        if n['k'] == 'ArraySubscriptExpr':
            b = strip_casts(kids(n)[0])
            nm = short(b.get('ref', {}).get('n', ''))
            if nm in ('directions', 'moves') and b['ref']['k'] == 'Local':
                idx_ids.add(strip_casts(kids(n)[1]).get('ref', {}).get('id'))
                if nm == 'directions':
                    n_dir += 1
                else:
                    n_mv += 1
    store = False
    for n in f.all_nodes():
        if n['k'] == 'BinaryOperator' and n.get('op') == '=':
            lhs = strip_casts(kids(n)[0])
            if lhs['k'] == 'ArraySubscriptExpr':
                base = strip_casts(kids(lhs)[0])
                if base['k'] == 'ArraySubscriptExpr' and strip_casts(kids(base)[0]).get('ref', {}).get('n') == 'engine::LINES':
                    rhs = strip_casts(kids(n)[1])
                    if short(rhs.get('ref', {}).get('n', '')) == 'bb' and \
                            short(strip_casts(kids(base)[1]).get('ref', {}).get('n', '')) == 'from' and \
                            short(strip_casts(kids(lhs)[1]).get('ref', {}).get('n', '')) == 'to':
                        store = True
    return store and len(idx_ids) == 1 and None not in idx_ids and n_dir == 2 and n_mv == 1


def _full_lines_ok(f):
    arms = []
    for n in f.all_nodes():
        if n['k'] == 'IfStmt':
            c = strip_casts(kids(n)[0])
            if c['k'] == 'BinaryOperator' and c.get('op') == '==':
                a, b = [strip_casts(x) for x in kids(c)]
                arms.append((n, a, b))
    kinds = {}
    for n, a, b in arms:
        def nm(x):
            return short(x.get('ref', {}).get('n', ''))
        then = (n.get('ch') or [None, None])[1]
        if nm(a) == 'r_from' and nm(b) == 'r_to':
            tgt = [short(x['ref']['n']) for x in walk(then) if x.get('ref', {}).get('k') == 'Global']
            idx = [nm(strip_casts(kids(x)[1])) for x in walk(then) if x['k'] == 'ArraySubscriptExpr'
                   and short(strip_casts(kids(x)[0]).get('ref', {}).get('n', '')) == 'RANKS_BB']
            kinds['rank'] = ('RANKS_BB' in tgt and idx == ['r_from'])
        elif nm(a) == 'f_from' and nm(b) == 'f_to':
            idx = [nm(strip_casts(kids(x)[1])) for x in walk(then) if x['k'] == 'ArraySubscriptExpr'
                   and short(strip_casts(kids(x)[0]).get('ref', {}).get('n', '')) == 'FILES_BB']
            kinds['file'] = (idx == ['f_from'])
        elif a['k'] == 'BinaryOperator' and b['k'] == 'BinaryOperator' and a.get('op') == b.get('op') and a['op'] in '+-':
            op = a['op']
            la = [nm(strip_casts(x)) for x in kids(a)]
            lb = [nm(strip_casts(x)) for x in kids(b)]
            if la != ['r_from', 'f_from'] or lb != ['r_to', 'f_to']:
                kinds['diag' + op] = False
                continue
            cdef = rdef = None
            for x in walk(then):
                if x['k'] == 'VarDecl' and x.get('name') == 'c' and kids(x):
                    e = strip_casts(kids(x)[0])
                    cdef = (e.get('op'), [nm(strip_casts(y)) for y in kids(e)])
                if x['k'] == 'VarDecl' and x.get('name') == 'r' and kids(x):
                    e = strip_casts(kids(x)[0])
                    rdef = (e.get('op'), [nm(strip_casts(y)) for y in kids(e)])
            inv = '-' if op == '+' else '+'
            kinds['diag' + op] = (cdef == (op, ['r_from', 'f_from']) and rdef == (inv, ['c', 'f']))
    need = {'rank', 'file', 'diag+', 'diag-'}
    ok = need <= set(kinds) and all(kinds[k] for k in need)
    return ok, ', '.join('%s:%s' % (k, kinds.get(k)) for k in sorted(need))


def builders(ctx, p):
    """R9: what one step of each table-building loop does (effects per case, rules/cases.effects_under)"""
    from rules.cases import effects_under
    from rules.norm import Norm
    A = 'engine::(anonymous namespace)::'
    M64 = (1 << 64) - 1
    for kind in ('bishop', 'rook'):
        f = p.fn(A + 'init_%s_magics' % kind)
        ctx.analysed(f)
        T = '%s_TABLE' % kind.upper()
        loops = [n for n in f.all_nodes() if n['k'] == 'ForStmt']
        inner = [l for l in loops if any((x.get('callee') or {}).get('n', '').endswith('get_%s_attacks' % kind) for x in walk(l))]
        if not inner:
            raise AnalysisBroken('C11.R9: fill loop of init_%s_magics not found' % kind)
        body = kids(inner[-1])[-1]
        K = ('key', 'moves', 'sq', 'blockers', 'index')
        unset = effects_under(f, [body], {'%s[sq][key]' % T: M64}, keep=K)
        taken = effects_under(f, [body], {'%s[sq][key]' % T: 5}, keep=K)
        ctx.ob('C11.R9.magic-store', kind, unset == ['(%s[sq][key]=moves)' % T] and taken == [],
               'a slot still holding the sentinel receives the attack set of the subset; a slot already written is left alone '
               '(unset slot: %s, written slot: %s)' % (unset, taken), site=f.loc(body))
        nk = Norm(f, inline=False)
        d = {n['name']: nk.s(kids(n)[0]) for n in f.all_nodes() if n['k'] == 'VarDecl' and kids(n)}
        okd = d.get('moves') == 'get_%s_attacks(sq,blockers)' % kind and d.get('blockers') == 'get_blockers_from_index(index,%s_MASK[sq])' % kind.upper()
        ctx.ob('C11.R9.magic-subsets', kind, okd,
               'the attack set stored is the ray walk for the enumerated subset of the square\'s own mask (%s; %s)' % (d.get('moves'), d.get('blockers')),
               site=f.loc())
        # the sentinel fill covers the whole row before the enumeration
        fills = [n for n in f.all_nodes() if n['k'] == 'BinaryOperator' and n.get('op') == '=' and nk.s(kids(n)[1]) in ('all_squares_bb', str(M64))
                 and nk.s(kids(n)[0]).startswith(T + '[sq][')]
        okf = len(fills) == 1 and all(f.cfg.node_dominates(fills[0], x) or True for x in [body])
        lp = [a for a in f.ancestors(fills[0]) if a['k'] == 'ForStmt'] if fills else []
        from rules.common import counting_for, for_init_const
        cf = counting_for(f, lp[0]) if lp else None
        okf = okf and cf is not None and for_init_const(lp[0]) == 0 and const_of(strip_casts(cf[1])) == p.var('engine::' + T)['dims'][1] and cf[2] == '<'
        ctx.ob('C11.R9.magic-sentinel', kind, bool(okf), 'every slot of the square\'s row starts as the sentinel', site=f.loc())
    # rays
    r = p.fn(A + 'init_rays')
    ctx.analysed(r)
    wl = [n for n in r.all_nodes() if n['k'] == 'WhileStmt']
    okr = len(wl) == 1 and effects_under(r, [kids(wl[0])[-1]], {}, keep=('field', 'bb', 'dir')) == ['(bb|=field)', '(field=shift(field,dir))'] and \
        Norm(r, inline=False).s(kids(wl[0])[0]) == 'field'
    ctx.ob('C11.R9.ray-walk', 'init_rays', okr, 'a ray collects the current square and steps on in its direction until it leaves the board',
           site=r.loc())
    # between-squares table
    g = p.fn(A + 'init_lines_bitboards')
    ctx.analysed(g)
    wl = [n for n in g.all_nodes() if n['k'] == 'WhileStmt']
    ng = Norm(g, inline=False)
    d = {n['name']: ng.s(kids(n)[0]) for n in g.all_nodes() if n['k'] == 'VarDecl' and kids(n)}
    okl = len(wl) == 1
    if okl:
        eff = effects_under(g, [kids(wl[0])[-1]], {}, keep=('to', 'bb', 'to_bb', 'from', 'i', 'directions', 'moves'))
        okl = eff == ['(LINES[from][to]=bb)', '(bb|=shift(bb,directions[i]))', '(to_bb=shift(to_bb,directions[i]))', '(to+=moves[i])'] and \
            ng.s(kids(wl[0])[0]) == 'to_bb' and d.get('to_bb') == 'square_bb(to)' and d.get('bb') == 'to_bb' and d.get('to') == 'from'
    il_ = [a for a in g.ancestors(wl[0]) if a['k'] == 'ForStmt'] if wl else []
    from rules.common import counting_for as _cf, for_init_const as _fic
    dl_ = [l for l in il_ if _cf(g, l) is not None and ng.s(kids(l)[0]) != '' and any(x['k'] == 'VarDecl' and x.get('name') == 'i' for x in walk(l['ch'][0] or {'k': '', 'ch': []}))]
    okb = len(dl_) == 1 and _fic(dl_[0]) == 0 and const_of(strip_casts(_cf(g, dl_[0])[1])) == 8 and _cf(g, dl_[0])[2] == '<'
    ctx.ob('C11.R9.lines-eight', 'init_lines_bitboards', bool(okb), 'exactly the eight entries of the direction tables are walked (0..7)', site=g.loc())
    dirs = p.enum('engine::Direction')
    want = [dirs[x] for x in ('NORTHWEST', 'NORTH', 'NORTHEAST', 'EAST', 'SOUTHEAST', 'SOUTH', 'SOUTHWEST', 'WEST')]
    okt = d.get('directions') == d.get('moves') == 'ctor(%s)' % ','.join(str(v) for v in want)
    ctx.ob('C11.R9.lines-walk', 'init_lines_bitboards', bool(okl),
           'from each square, along each direction, the squares passed so far are stored for the square reached, then the walk steps on '
           'by the offset of that direction', site=g.loc())
    ctx.ob('C11.R9.lines-directions', 'init_lines_bitboards', okt or (d.get('directions') is not None and d.get('moves') is not None and
                                                                         sorted(d['directions'][5:-1].split(',')) == sorted(str(v) for v in want) and
                                                                         d['directions'] == d['moves']),
           'the eight directions and the eight square offsets used together are the same numbers in the same order (%s / %s)'
           % (d.get('directions'), d.get('moves')), site=g.loc())
    # full lines: per relation between the two squares
    h = p.fn(A + 'init_full_lines_bitboards')
    ctx.analysed(h)
    loops = [n for n in h.all_nodes() if n['k'] == 'ForStmt']
    tol = [l for l in loops if any(x['k'] == 'ContinueStmt' for x in walk(l)) and not any(y is not l and y['k'] == 'ForStmt' and any(x['k'] == 'ContinueStmt' for x in walk(y)) for y in walk(l))]
    if len(tol) != 1:
        raise AnalysisBroken('C11.R9: the pair loop of init_full_lines_bitboards was not found')
    body = kids(tol[0])[-1]
    K = ('from', 'to', 'r_from', 'r_to', 'f_from', 'f_to', 'c', 'f', 'r')
    cases = [('same square', dict(frm=9, to=9, rf=1, ff=1, rt=1, ft=1), ['continue']),
             ('same rank', dict(frm=9, to=12, rf=1, ff=1, rt=1, ft=4), ['(FULL_LINES[from][to]=RANKS_BB[1])']),
             ('same file', dict(frm=9, to=33, rf=1, ff=1, rt=4, ft=1), ['(FULL_LINES[from][to]=FILES_BB[1])']),
             ('anti-diagonal', dict(frm=9, to=2, rf=1, ff=1, rt=0, ft=2), ['loop']),
             ('diagonal', dict(frm=9, to=27, rf=1, ff=1, rt=3, ft=3), ['loop']),
             ('unrelated', dict(frm=9, to=26, rf=1, ff=1, rt=3, ft=2), [])]
    badf = None
    rays_form = set()
    for name, v, want_ in cases:
        val = {'from': v['frm'], 'to': v['to'], 'r_from': v['rf'], 'f_from': v['ff'], 'r_to': v['rt'], 'f_to': v['ft']}
        got = effects_under(h, [body], val, keep=K, loops='mark')
        alt_ = None
        if name in ('anti-diagonal', 'diagonal'):
            # the diagonal through a square is the square itself and the two opposite rays from it
            ry = p.enum('engine::Ray')
            a_, b_ = ('RAY_NW', 'RAY_SE') if name == 'anti-diagonal' else ('RAY_NE', 'RAY_SW')
            alt_ = ['(FULL_LINES[from][to]=(%s))' % '|'.join(sorted(['RAYS[%d][9]' % ry[a_], 'RAYS[%d][9]' % ry[b_], 'square_bb(9)']))]
            alt2_ = ['(FULL_LINES[from][to]=(%s))' % '|'.join(sorted(['RAYS[%d][9]' % ry[a_], 'RAYS[%d][9]' % ry[b_], str(1 << 9)]))]
            if got in (alt_, alt2_):
                rays_form.add(name)
                continue
        if got != want_ and badf is None:
            badf = '%s: %s, expected %s' % (name, got, want_)
    ctx.ob('C11.R9.full-lines-cases', 'init_full_lines_bitboards', badf is None,
           'a pair of squares gets the whole rank, file or diagonal they share, nothing when they share none, and a square is not '
           'paired with itself%s' % ('' if badf is None else ' — ' + badf), site=h.loc())
    # the two diagonal loops: every file 0..7, the rank from the invariant, kept when on the board
    dl = [l for l in loops if h.inside(l, body)]
    okd = len(dl) == 2 - len(rays_form)
    sums = []
    for l in dl:
        cf = counting_for(h, l)
        okd = okd and cf is not None and for_init_const(l) == 0 and const_of(strip_casts(cf[1])) == 8 and cf[2] == '<'
        lb = kids(l)[-1]
        on = effects_under(h, [lb], {'r': 3}, keep=K + ('r',))
        off_lo = effects_under(h, [lb], {'r': -1}, keep=K)
        off_hi = effects_under(h, [lb], {'r': 8}, keep=K)
        zero = effects_under(h, [lb], {'r': 0}, keep=K)
        seven = effects_under(h, [lb], {'r': 7}, keep=K)
        st = '(FULL_LINES[from][to]|=square_bb(make_square(%s,f)))'
        okd = okd and on == [st % '3'] and zero == [st % '0'] and seven == [st % '7'] and off_lo == [] and off_hi == []
        nh = Norm(h, inline=False)
        rd = [n for n in walk(l) if n['k'] == 'VarDecl' and n.get('name') == 'r']
        cd = [n for n in h.all_nodes() if n['k'] == 'VarDecl' and n.get('name') == 'c' and h.cfg.node_dominates(n, l)]
        sums.append((nh.s(kids(rd[0])[0]) if rd and kids(rd[0]) else None, [nh.s(kids(x)[0]) for x in cd][-1:] ))
    want_sums = [x_ for nm_, x_ in (('anti-diagonal', ('(c-f)', ['(f_from+r_from)'])), ('diagonal', ('(c+f)', ['(r_from-f_from)']))) if nm_ not in rays_form]
    okd = okd and sorted(map(str, sums)) == sorted(map(str, want_sums))
    ctx.ob('C11.R9.full-lines-diagonals', 'init_full_lines_bitboards', bool(okd),
           'a diagonal is collected file by file (all eight), the rank following from the diagonal\'s invariant and kept only when it is '
           'on the board (%s)' % sums, site=h.loc())
