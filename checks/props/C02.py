"""C02 — making a move follows the rules of chess.

Partial: the field-update discipline of Position::do_move is decided for every
path class; the resulting values for all (position, move) pairs are not
enumerated. R1 the three board primitives keep every redundant board
representation and the key in step, and nobody else writes them. R2 the
half-move clock is written exactly once on every path: incremented for
castling and for non-pawn non-capture moves, reset otherwise. R3 the six
castling-right revocation classes, each exactly once with the right mask,
and the side-indexed tables behind them. R4 side flip, ply counter, history
push and e.p. square on every path. R5/R6 the symbolic board effect of each
path class equals the rule of chess for that kind of move."""
import re

from facts import AnalysisBroken
from prog import walk, kids, short, access_kind
from rules.common import strip_casts, const_of, guard_facts, written_value, all_guards, counting_for, local_writes
from rules.effects import canon, summaries

LEVEL = 'other'
EXPLANATION = ('Partial: for every path class of do_move (castling K/Q, en passant, capture x promotion, quiet) the '
               'symbolic board effect is compared with the rule of chess for that kind of move; the clock, rights, '
               'e.p. square, side, ply and history updates are checked on every path; the primitives are checked to '
               'update all redundant representations consistently. The FEN of the result for each concrete pair is not enumerated.')
POS = 'engine::Position'
GROUP = ('_board', '_by_color_bb', '_by_piece_kind_bb', '_piece_position', '_piece_count')


def check(ctx):
    p = ctx.prog()
    do = p.fn(POS + '::do_move')
    ctx.analysed(do)
    sq = p.enum('engine::Square')
    cas = p.enum('engine::Castling')

    # ---- R1 SYNC + WHO -----------------------------------------------------------------------------------
    prim = {n: p.fn(POS + '::' + n) for n in ('add_piece', 'remove_piece', 'move_piece')}
    ctors = p.fns(POS + '::Position')
    allowed = set(f.id for f in prim.values()) | set(f.id for f in ctors)
    for fld in GROUP:
        bad = [(f, n) for f, n, k in p.field_accesses(POS, fld) if k in ('write', 'rmw', 'addr') and f.id not in allowed]
        ctx.ob('C02.R1.who', fld, not bad,
               '%s is written only by add_piece/remove_piece/move_piece and the FEN constructor' % fld,
               site=bad[0][0].loc(bad[0][1]) if bad else 'engine/position.cpp')
    from props.C03 import _once_every_path
    want = {'add_piece': {'_board': ['square'], '_by_color_bb': ['get_color(piece)'], '_by_piece_kind_bb': ['get_piece_kind(piece)'],
                          '_piece_position': ['piece', '_piece_count[piece]'], '_piece_count': ['piece']},
            'remove_piece': {'_board': ['square'], '_by_color_bb': ['get_color(piece)'], '_by_piece_kind_bb': ['get_piece_kind(piece)'],
                             '_piece_position': None, '_piece_count': ['piece']},
            'move_piece': {'_board': None, '_by_color_bb': ['get_color(piece)'], '_by_piece_kind_bb': ['get_piece_kind(piece)'],
                           '_piece_position': None}}
    for nm, f in prim.items():
        ctx.analysed(f)
        for fld, idx_want in want[nm].items():
            ws = [n for g, n, k in p.field_accesses(POS, fld) if g is f and k in ('write', 'rmw')]
            if not ws and idx_want is None:
                # the list may be written through a pointer into it; what is written is decided by list-move/list-remove
                ws = [n for g, n, k in p.field_accesses(POS, fld) if g is f and k == 'addr']
            ok = bool(ws)
            why = ''
            if ok and idx_want is not None:
                # the (single) write is unconditional and indexed as expected
                w = ws[0]
                sub = w
                idxs = []
                cur = f.parent(w)
                while cur is not None and cur['k'] in ('ArraySubscriptExpr', 'ImplicitCastExpr'):
                    if cur['k'] == 'ArraySubscriptExpr':
                        idxs.append(canon(f, kids(cur)[1], inline=False))
                    cur = f.parent(cur)
                ok = idxs == idx_want and len(ws) == 1 and _once_every_path(f, ws)
                if not ok and fld == '_piece_position' and idxs == ['piece', '++(_piece_count[piece])'] and len(ws) == 1:
                    # list[count++] = square: the slot is the old count when the increment is the postfix one
                    from props.C16fen import _post_inc
                    ok = _post_inc(f) and _once_every_path(f, ws)
                why = 'index %s' % idxs
            ctx.ob('C02.R1.sync', '%s:%s' % (nm, fld), ok,
                   '%s updates %s (%s) on every path' % (nm, fld, why or 'list/board cells'), site=f.loc(ws[0]) if ws else f.loc())
        # bitboard operands: the squares written
        bbs = [n for n in f.all_nodes() if n['k'] == 'CompoundAssignOperator' and n.get('op') in ('|=', '^=') and
               short(strip_casts(kids(strip_casts(kids(n)[0]))[0] if strip_casts(kids(n)[0])['k'] == 'ArraySubscriptExpr' else kids(n)[0]).get('ref', {}).get('n', '') if False else '') == '']
        ops = [(n.get('op'), canon(f, kids(n)[1])) for n in f.all_nodes()
               if n['k'] == 'CompoundAssignOperator' and '_by_' in canon(f, kids(n)[0], inline=False)]
        exp = {'add_piece': [('|=', 'square_bb(square)')] * 2, 'remove_piece': [('^=', 'square_bb(square)')] * 2,
               'move_piece': [('^=', '(square_bb(from)|square_bb(to))')] * 2}[nm]
        ctx.ob('C02.R1.bitboards', nm, ops == exp,
               '%s applies %s to the colour and the kind bitboard' % (nm, exp[0]), site=f.loc(), detail={'found': str(ops)})
    # move_piece: board cells
    mp = prim['move_piece']
    cells = [(canon(mp, kids(f_)[1], inline=False) if False else None) for f_ in []]
    bw = []
    for g, n, k in p.field_accesses(POS, '_board'):
        if g is mp and k == 'write':
            par = mp.parent(n)
            while par['k'] != 'ArraySubscriptExpr':
                par = mp.parent(par)
            bw.append((canon(mp, kids(par)[1], inline=False), canon(mp, written_value(mp, n), inline=False)))
    ctx.ob('C02.R1.move-cells', 'move_piece', sorted(bw) == [('from', 'NO_PIECE'), ('to', 'piece')],
           'move_piece empties `from` and puts the moved piece on `to` (%s)' % bw, site=mp.loc())
    # piece list maintenance loops: replace `from` by `to`; remove by swapping with the last entry
    ok = _list_loop(mp, find='from', repl='to')
    ctx.ob('C02.R1.list-move', 'move_piece', ok, 'the piece list entry equal to `from` is replaced by `to`', site=mp.loc())
    rp = prim['remove_piece']
    from rules.norm import Norm as _Nm
    ok = _list_loop(rp, find='square', repl='_piece_position[piece][(_piece_count[piece]-1)]')
    # ... and the count drops by one afterwards
    cw = [n for g, n, k in p.field_accesses(POS, '_piece_count') if g is rp and k in ('write', 'rmw')]
    dec = False
    for w in cw:
        par = rp.parent(w)
        while par is not None and par['k'] in ('ArraySubscriptExpr', 'ImplicitCastExpr'):
            par = rp.parent(par)
        if par is None:
            continue
        if par['k'] == 'CompoundAssignOperator' and par.get('op') == '-=' and const_of(strip_casts(kids(par)[1])) == 1:
            dec = True
        if par['k'] == 'UnaryOperator' and par.get('op') == '--':
            dec = True
        if par['k'] == 'BinaryOperator' and par.get('op') == '=' and _Nm(rp, keep=('piece',)).s(kids(par)[1]) == '(_piece_count[piece]-1)':
            dec = True
    ctx.ob('C02.R1.list-remove', 'remove_piece', ok and dec and len(cw) == 1,
           'the removed square\'s list slot is overwritten by the last entry, then the count drops by one', site=rp.loc())

    # ---- R2 half-move clock -----------------------------------------------------------------------------------
    def hm_event(f, n):
        r = None
        if n['k'] == 'UnaryOperator' and n.get('op') == '++':
            t = strip_casts(kids(n)[0])
            if t.get('ref', {}).get('n') == POS + '::_half_move_counter':
                return ('inc',)
        if n['k'] == 'BinaryOperator' and n.get('op') == '=':
            t = strip_casts(kids(n)[0])
            if t.get('ref', {}).get('n') == POS + '::_half_move_counter':
                v = const_of(strip_casts(kids(n)[1]))
                return ('reset',) if v == 0 else ('assign', canon(f, kids(n)[1]))
        if n['k'] == 'CompoundAssignOperator':
            t = strip_casts(kids(n)[0])
            if t.get('ref', {}).get('n') == POS + '::_half_move_counter':
                return ('inc',) if n.get('op') == '+=' and const_of(strip_casts(kids(n)[1])) == 1 else ('assign', '?')
        return None
    hm_nodes = [n for f, n, k in p.field_accesses(POS, '_half_move_counter') if f is do and k in ('write', 'rmw')]
    ctx.floor('C02.R2.clock-writes', len(hm_nodes), 2, 'half-move clock writes in do_move')
    from rules.norm import Norm, cond_value, Unknown
    nm = Norm(do)
    kinds = p.enum('engine::PieceKind')
    events = []
    for n in hm_nodes:
        st = n
        ev = None
        while st is not None and ev is None:
            ev = hm_event(do, st)
            st = do.parent(st) if ev is None else st
        if ev is None:
            raise AnalysisBroken('do_move: write to the half-move clock at %s not understood' % do.loc(n))
        if [a for a in do.ancestors(n) if a['k'] in ('ForStmt', 'WhileStmt', 'DoStmt')]:
            raise AnalysisBroken('do_move: half-move clock written inside a loop')
        events.append((ev[0], all_guards(do, n), n))
    MOVER, VICTIM = 'get_piece_kind(_board[from(move)])', 'make_piece_kind(_board[to(move)])'
    # A read of the board made after the board primitives have run sees the position AFTER the move (printed _board'): on the
    # target square stands the moved piece, or the promotion piece. Such a read is only given a value when no board write can
    # follow it (a read between two primitives is outside what the table models).
    nm.mark_post = {'_board'}
    for e, gf, n in events:
        for c, t in gf:
            for x in walk(c):
                r = x.get('ref') or {}
                if r.get('k') == 'Field' and short(r['n']) == '_board' and nm.written_before(x, r['n']) and nm.written_after(x, r['n']):
                    raise AnalysisBroken('do_move: the half-move clock depends on a board read at %s that lies between two board '
                                         'updates' % do.loc(x))
    for C in (False, True):
        for P in (False, True):
            for X in (False, True):
                for R in ((False, True) if (P and not C) else (False,)):
                    after_kind = kinds['QUEEN'] if R else (kinds['PAWN'] if P else kinds['KNIGHT'])
                    val = {'castling(move)': cas['KING_CASTLING'] if C else cas['NO_CASTLING'],
                           MOVER: kinds['PAWN'] if P else kinds['KNIGHT'], VICTIM: kinds['ROOK'] if X else kinds['NO_PIECE_KIND'],
                           '_board[to(move)]': 4 if X else 0,
                           "get_piece_kind(_board'[to(move)])": after_kind, "make_piece_kind(_board'[to(move)])": after_kind,
                           "_board'[to(move)]": 1, "_board'[from(move)]": 0,
                           'promotion(move)': kinds['QUEEN'] if R else kinds['NO_PIECE_KIND']}
                    try:
                        fired = [e for e, gf, n in events if all(cond_value(nm, c, val) == t for c, t in gf)]
                    except Unknown as u:
                        raise AnalysisBroken('do_move: the half-move clock depends on `%s`, which the rule does not know' % u)
                    want = 'inc' if (C or (not P and not X)) else 'reset'
                    cls = 'castling' if C else 'pawn=%s,capture=%s%s' % (P, X, ',promotion' if R else '')
                    if C and (P or X):
                        continue
                    ctx.ob('C02.R2.clock', cls, fired == [want],
                           'half-move clock for a %s move: written exactly once, as %s (found %s)' % (cls, want, fired), site=do.loc(hm_nodes[0]))

    # ---- R3 castling-right revocation --------------------------------------------------------------------------
    rev = []
    for n in do.all_nodes():
        if n['k'] == 'CXXOperatorCallExpr' and n.get('op') == '&=' and \
                strip_casts(kids(n)[1]).get('ref', {}).get('n') == POS + '::_castling_rights':
            rev.append((n, None, None))
    ctx.floor('C02.R3.revocations', len(rev), 1, 'castling-right revocations in do_move')
    # Decision table: for each colour and each combination of {castling move / which piece moves from where / which piece is
    # captured where} the set of rights the code clears (the AND of the masks of the revocations whose guards hold) must be the
    # set the rules of chess take away. Spelling of the guards and of the masks is irrelevant; an atom outside the table stops
    # the analysis.
    pre_locals = {}
    nmp = Norm(do)
    nmp.mark_post = {'_board'}
    for x in do.all_nodes():
        if x['k'] == 'VarDecl' and kids(x) and not local_writes(do, x['id']):
            d_ = Norm(do, inline=False)
            d_.mark_post = {'_board'}
            t_ = d_.s(kids(x)[0])
            if t_ in ('_board[from(move)]', '_board[to(move)]'):
                pre_locals[x['name']] = t_
    crv = p.val('engine::CASTLING_RIGHTS')
    ksq, qsq = p.val('engine::KING_SIDE_ROOK_SQUARE'), p.val('engine::QUEEN_SIDE_ROOK_SQUARE')
    n_rows = 0
    bad_row = None
    for sd in (0, 1):
        nms = Norm(do, env={'side': sd})
        nms.mark_post = {'_board'}
        entries = []
        for n, m_, g_ in rev:
            ms = nms.s(kids(n)[2])
            expr = re.sub(r'CASTLING_RIGHTS\[(\d)\]', lambda mm: str(crv[int(mm.group(1))]), ms).replace('!(', '~(')
            if not re.fullmatch(r'[0-9~&|()\s]+', expr):
                raise AnalysisBroken('do_move: revocation mask `%s` at %s is not an expression over the castling constants' % (ms, do.loc(n)))
            entries.append((n, eval(expr) & 15, all_guards(do, n)))
        own, opp = crv[sd], crv[1 - sd]
        KC, QC = cas['KING_CASTLING'], cas['QUEEN_CASTLING']
        other_from, other_to = 20, 44
        rows = [dict(C=c, mv='KNIGHT', fr=other_from, vc='NO_PIECE_KIND', to=other_to) for c in (KC, QC)]
        for mv in ('KING', 'ROOK', 'KNIGHT', 'PAWN'):
            for fr in (ksq[sd], qsq[sd], other_from):
                for vc in ('ROOK', 'NO_PIECE_KIND', 'KNIGHT'):
                    for to_ in (ksq[1 - sd], qsq[1 - sd], other_to):
                        if mv == 'PAWN' and fr != other_from:
                            continue            # no pawn stands on a home rank
                        rows.append(dict(C=cas['NO_CASTLING'], mv=mv, fr=fr, vc=vc, to=to_))
        for row in rows:
            n_rows += 1
            if True:
                promo = row['mv'] == 'PAWN'          # the pawn row stands for a promotion to a rook landing on the corner
                after = kinds['ROOK'] if promo else kinds[row['mv']]
                val = {'castling(move)': row['C'], MOVER: kinds[row['mv']], VICTIM: kinds[row['vc']],
                       'from(move)': row['fr'], 'to(move)': row['to'], '_enpassant_square': sq['NO_SQUARE'],
                       '_board[to(move)]': 0 if row['vc'] == 'NO_PIECE_KIND' else kinds[row['vc']] + 6 * (1 - sd),
                       '_board[from(move)]': kinds[row['mv']] + 6 * sd,
                       "get_piece_kind(_board'[to(move)])": after, "make_piece_kind(_board'[to(move)])": after,
                       "get_piece_kind(_board'[from(move)])": kinds['NO_PIECE_KIND'], "make_piece_kind(_board'[from(move)])": kinds['NO_PIECE_KIND'],
                       "_board'[from(move)]": 0, "_board'[to(move)]": 4,
                       'promotion(move)': kinds['ROOK'] if promo else kinds['NO_PIECE_KIND']}
                for t_, v_ in (('KING_SIDE_ROOK_SQUARE', ksq), ('QUEEN_SIDE_ROOK_SQUARE', qsq)):
                    for i_ in (0, 1):
                        val['%s[%d]' % (t_, i_)] = v_[i_]
                # locals that hold a board cell read before the move (checked below) keep that value after it
                for lname, cell in pre_locals.items():
                    if cell == '_board[from(move)]':
                        val['get_piece_kind(%s)' % lname] = val['make_piece_kind(%s)' % lname] = kinds[row['mv']]
                        val[lname] = kinds[row['mv']] + 6 * sd
                    else:
                        val['get_piece_kind(%s)' % lname] = val['make_piece_kind(%s)' % lname] = kinds[row['vc']]
                        val[lname] = 0 if row['vc'] == 'NO_PIECE_KIND' else kinds[row['vc']] + 6 * (1 - sd)
                expect = 0
                if row['mv'] == 'KING':
                    expect |= own
                if row['mv'] == 'ROOK' and row['fr'] == ksq[sd]:
                    expect |= own & KC
                if row['mv'] == 'ROOK' and row['fr'] == qsq[sd]:
                    expect |= own & QC
                if row['vc'] == 'ROOK' and row['to'] == ksq[1 - sd]:
                    expect |= opp & KC
                if row['vc'] == 'ROOK' and row['to'] == qsq[1 - sd]:
                    expect |= opp & QC
                if row['C'] != cas['NO_CASTLING']:
                    expect = own            # the other atoms are placeholders: the castling arm does not look at them
            left = 15
            try:
                for n, mv_, gf in entries:
                    if all(cond_value(nms, c, val) == t for c, t in gf):
                        left &= mv_
            except Unknown as u:
                raise AnalysisBroken('do_move: a castling-right revocation depends on `%s`, which the table does not know' % u)
            if (15 & ~left) != expect and bad_row is None:
                bad_row = ('side %s, %s: rights cleared %s, the rules take away %s'
                           % ('WHITE' if sd == 0 else 'BLACK',
                              'castling move' if row['C'] != cas['NO_CASTLING'] else
                              '%s moves from square %d, captures %s on square %d' % (row['mv'] + (' (promoting to a rook)' if row['mv'] == 'PAWN' else ''),
                                                                                     row['fr'], row['vc'], row['to']),
                              bin(15 & ~left), bin(expect)))
    ctx.ob('C02.R3.revocation-table', 'do_move', bad_row is None,
           'over %d combinations of colour, castling / moving piece and origin / captured piece and target, the castling rights '
           'cleared are exactly those the move takes away%s' % (n_rows, '' if bad_row is None else ' — ' + bad_row),
           site=do.loc(rev[0][0]))
    tabs = {'engine::KING_SIDE_ROOK_SQUARE': [sq['SQ_H1'], sq['SQ_H8']], 'engine::QUEEN_SIDE_ROOK_SQUARE': [sq['SQ_A1'], sq['SQ_A8']],
            'engine::CASTLING_RIGHTS': [cas['W_CASTLING'], cas['B_CASTLING']]}
    for t, v in tabs.items():
        ctx.ob('C02.R3.tables', short(t), p.val(t) == v, '%s[WHITE,BLACK] = %s' % (short(t), v), site='engine/types.h')
    ok = cas['W_CASTLING'] == cas['W_OO'] | cas['W_OOO'] and cas['B_CASTLING'] == cas['B_OO'] | cas['B_OOO'] and \
        cas['KING_CASTLING'] == cas['W_OO'] | cas['B_OO'] and cas['QUEEN_CASTLING'] == cas['W_OOO'] | cas['B_OOO'] and \
        sorted([cas['W_OO'], cas['W_OOO'], cas['B_OO'], cas['B_OOO']]) == [1, 2, 4, 8]
    ctx.ob('C02.R3.masks', 'Castling', ok, 'castling masks are the four one-bit rights combined by colour and by wing', site='engine/types.h')
    # operator! on Castling is bitwise complement
    neg = [f for f in p.fns('engine::operator!') if 'Castling' in f.id]
    okn = len(neg) == 1 and any(n['k'] == 'UnaryOperator' and n.get('op') == '~' for n in neg[0].all_nodes())
    ctx.ob('C02.R3.complement', 'operator!(Castling)', okn, '`!rights` is the bitwise complement used to clear bits', site=neg[0].loc() if neg else '')

    # ---- R4 per-path bookkeeping -----------------------------------------------------------------------------------
    seps = [n for n, cfid, nm in do.calls() if nm == POS + '::set_enpassant_square']
    ctx.ob('C02.R4.ep-once', 'do_move', _once_every_path(do, seps),
           'set_enpassant_square is called exactly once on every path of do_move', site=do.loc())
    # decision table: which e.p. square do_move leaves, per colour x {castling, piece kind, rank left, rank reached, e.p. capture}
    from rules.cases import case_events
    RK = p.enum('engine::Rank')
    n_rows = 0
    bad_row = None
    n_set = len([n for n in seps if const_of(strip_casts(kids(n)[1])) != sq['NO_SQUARE']])
    for sd in (0, 1):
        own2, own4 = (RK['RANK_2'], RK['RANK_4']) if sd == 0 else (RK['RANK_7'], RK['RANK_5'])
        opp2, opp4 = (RK['RANK_7'], RK['RANK_5']) if sd == 0 else (RK['RANK_2'], RK['RANK_4'])
        behind = '(to(move)-8)' if sd == 0 else '(to(move)+8)'
        for C in (cas['NO_CASTLING'], cas['KING_CASTLING']):
            for mv in ('PAWN', 'KNIGHT', 'ROOK'):
                for rf in (own2, opp2, RK['RANK_3'] if sd == 0 else RK['RANK_6']):
                    for rt in (own4, opp4, RK['RANK_3'] if sd == 0 else RK['RANK_6']):
                        for E in (False, True):
                            if E and (mv != 'PAWN' and False):
                                continue
                            if C != cas['NO_CASTLING'] and (mv != 'KNIGHT' or E):
                                continue
                            n_rows += 1
                            val = {'castling(move)': C, MOVER: kinds[mv], VICTIM: kinds['NO_PIECE_KIND'], '_board[to(move)]': 0,
                                   'make_piece_kind(_board[from(move)])': kinds[mv], 'get_piece_kind(_board[to(move)])': kinds['NO_PIECE_KIND'],
                                   'rank(from(move))': rf, 'rank(to(move))': rt, 'promotion(move)': kinds['NO_PIECE_KIND'],
                                   ('eq',) + tuple(sorted(['_enpassant_square', 'to(move)'])): E}
                            for lname, cell in pre_locals.items():
                                k_ = kinds[mv] if cell == '_board[from(move)]' else kinds['NO_PIECE_KIND']
                                val['get_piece_kind(%s)' % lname] = val['make_piece_kind(%s)' % lname] = k_
                                val[lname] = (k_ + 6 * sd) if k_ else 0
                            ev = case_events(do, val, {'side': sd}, lambda nm_: nm_ == POS + '::set_enpassant_square',
                                             'e.p. square: side=%d castling=%d mover=%s' % (sd, C, mv))
                            want = behind if (C == cas['NO_CASTLING'] and mv == 'PAWN' and rf == own2 and rt == own4) else str(sq['NO_SQUARE'])
                            got = [e[1].replace(' ', '') for e in ev]
                            if got != [want] and bad_row is None:
                                bad_row = ('%s, %s %s from rank index %d to rank index %d%s: e.p. square set to %s, should be %s'
                                           % ('WHITE' if sd == 0 else 'BLACK', 'castling,' if C != cas['NO_CASTLING'] else '', mv, rf, rt,
                                              ' (capturing e.p.)' if E else '', got, want))
    ctx.ob('C02.R4.ep-set', 'do_move', bad_row is None,
           'over %d combinations: the e.p. square after the move is the square behind a pawn that went from its rank 2 to its '
           'rank 4 (7 to 5 for Black), and none otherwise%s' % (n_rows, '' if bad_row is None else ' — ' + bad_row), site=do.loc())
    ctx.floor('C02.R4.ep-set', n_set, 1, 'e.p. square settings')
    pushes = [n for n, cfid, nm in do.calls() if short(nm) == 'push_back' and '_history' in canon(do, n, inline=False)]
    hist_w = [n for f, n, k in p.field_accesses(POS, '_history') if f is do and k in ('write', 'rmw')]
    keymut = [n for n, cfid, nm in do.calls() if nm.startswith('engine::HashKey::') and short(nm) != 'get_key']
    prim_calls = [n for n, cfid, nm in do.calls() if nm.startswith(POS + '::') and short(nm) in ('move_piece', 'add_piece', 'remove_piece', 'change_current_side')]
    hp = pushes or hist_w
    ok = bool(hp) and _once_every_path(do, hp[:1] if len(hp) == 1 else hp) and \
        all(do.cfg.path_avoiding(do.cfg.position(hp[0]), set(), {m['i']}) is None for m in keymut + prim_calls)
    ctx.ob('C02.R4.history-push', 'do_move', ok,
           'the new position\'s key is appended to the history exactly once on every path, after every key update', site=do.loc(hp[0]) if hp else do.loc())

    # ---- R5/R6 board effect of each path class equals the rule of chess ------------------------------------------------------
    from props.C03 import board_path_classes
    dmap, umap, n_ev = board_path_classes(p)
    def sqr(f_):
        return '%d;%d' % (sq['SQ_%s1' % f_], sq['SQ_%s8' % f_])
    FROM, TO = 'from(move);from(move)', 'to(move);to(move)'
    EP = '(to(move)-8);(to(move)+8)'
    PROMO = 'make_piece(0,promotion(move));make_piece(1,promotion(move))'
    kdq = p.enum('engine::PieceKind')['QUEEN']
    pcs = p.enum('engine::Piece')
    PROMO_Q = '%d;%d' % (pcs['W_QUEEN'], pcs['B_QUEEN'])
    spec = {
        ('K', None, None, None): [('move_piece', sqr('E'), sqr('G')), ('move_piece', sqr('H'), sqr('F'))],
        ('Q', None, None, None): [('move_piece', sqr('E'), sqr('C')), ('move_piece', sqr('A'), sqr('D'))],
        (None, True, False, False): [('move_piece', FROM, TO), ('remove_piece', EP)],
        (None, False, False, False): [('move_piece', FROM, TO)],
        (None, False, False, True): [('remove_piece', TO), ('move_piece', FROM, TO)],
        (None, False, True, False): [('remove_piece', FROM), ('add_piece', PROMO_Q, TO)],
        (None, False, True, True): [('remove_piece', TO), ('remove_piece', FROM), ('add_piece', PROMO_Q, TO)],
    }
    for v, want_ev in sorted(spec.items(), key=str):
        name = 'castling-%s' % v[0] if v[0] else 'ep=%d,promo=%d,capture=%d' % (v[1], v[2], v[3])
        got_ev = dmap.get(v)
        ok = got_ev is not None and len(got_ev) == 1 and _same_effect(list(next(iter(got_ev))), want_ev)
        ctx.ob('C02.R5.effect', name, ok,
               'board effect of a %s move is %s' % (name, want_ev), site=do.loc(),
               detail={'found': [list(e) for e in (next(iter(got_ev)) if got_ev else [])]})
    # R6: the en-passant arm is taken only by a pawn landing on the e.p. square: a piece that is not a pawn and lands on the
    # current e.p. square (empty by A-EP) just moves
    from rules.cases import case_events
    kde = p.enum('engine::PieceKind')

    def is_prim(nm):
        return nm.startswith(POS + '::') and short(nm) in ('add_piece', 'remove_piece', 'move_piece')
    okg = True
    found6 = []
    for c_ in (0, 1):
        val6 = {'castling(move)': cas['NO_CASTLING'], 'get_piece_kind(_board[from(move)])': kde['KNIGHT'],
                'make_piece_kind(_board[from(move)])': kde['KNIGHT'],
                ('eq',) + tuple(sorted(['_enpassant_square', 'to(move)'])): True, '_board[to(move)]': 0,
                'make_piece_kind(_board[to(move)])': kde['NO_PIECE_KIND'], 'get_piece_kind(_board[to(move)])': kde['NO_PIECE_KIND'],
                'promotion(move)': kde['NO_PIECE_KIND']}
        ev6 = case_events(do, val6, {'side': c_}, is_prim, 'a knight landing on the e.p. square')
        found6.append(ev6)
        okg = okg and ev6 == [('move_piece', 'from(move)', 'to(move)')]
    ctx.ob('C02.R6.ep-guard', 'do_move', okg,
           'the pawn behind the target is removed only when a PAWN moves onto the current e.p. square: another piece landing there just moves (%s)'
           % found6[0], site=do.loc())
    ctx.ob('C02.R5.classes', 'do_move', set(dmap) == set(spec), 'do_move has exactly the seven path classes of the rules (%s)' % sorted(map(str, dmap)), site=do.loc())
    # replay funnels through parse_uci + do_move
    for hname in ('engine::Uci::position_command', 'engine::Uci::moves_command'):
        h = p.fn(hname)
        ctx.analysed(h)
        calls = [n for n, cfid, nm in h.calls() if nm == POS + '::do_move']
        if not calls:
            # the replay may sit in a helper the reference tree did not have
            for n, cfid, nm in h.calls():
                g = p.funcs.get(cfid)
                if g is not None and p.is_new_function(g) and any(nm2 == POS + '::do_move' for _n, _c, nm2 in g.calls()):
                    raise AnalysisBroken('C02: %s replays its moves in %s, a function the reference tree did not have; the replay rules '
                                         'read the handler\'s own loop' % (short(hname), short(g.name)))
        ok = bool(calls) and all(strip_casts(kids(c)[1]).get('callee', {}).get('n') == POS + '::parse_uci' for c in calls)
        ctx.ob('C02.R5.replay', short(hname), ok, '`position ... moves`/`moves` replay every token through parse_uci + do_move', site=h.loc())
    _replay_all(ctx, p)
    ctx.assume('A-EP, A-PROMO as in C03; the moved piece belongs to the side to move (legal move)')
    ctx.note('not decided: the printed FEN of the result for every (position, move) pair')


def _replay_all(ctx, p):
    """position/moves commands: one turn of the replay loop, per valuation of what it branches on: every word that is not the
    keyword `moves` is played (parse_uci + do_move) and the loop goes on; the only game states in which a listed move may be
    left out are those where no legal move exists (checkmate, stalemate)."""
    import itertools
    from rules.cases import effects_under, OpenAtom
    from rules.norm import Norm
    TERMINAL = ('is_checkmate()', 'is_stalemate()')
    STATE = TERMINAL + ('is_draw()', 'is_repeated()', 'threefold_repetition()', 'rule50()', 'enough_material()', 'is_in_check(')
    for hname in ('engine::Uci::position_command', 'engine::Uci::moves_command'):
        h = p.fn(hname)
        loops = [n for n in h.all_nodes() if n['k'] in ('WhileStmt', 'ForStmt') and
                 any((x.get('callee') or {}).get('n') == POS + '::do_move' for x in walk(n))]
        if len(loops) != 1:
            raise AnalysisBroken('C02: %s replays moves in %d loops, the rule knows the form with one' % (short(hname), len(loops)))
        body = kids(loops[0])[-1]
        keep = tuple(q['name'] for q in h.params) + ('token', 'position')
        nm = Norm(h, keep=keep)
        opened = []
        bad = None
        n_rows = 0
        while True:
            try:
                rows = []
                for is_kw in (True, False):
                    for combo in itertools.product((0, 1), repeat=len(opened)):
                        val = {('eq', '"moves"', 'token'): is_kw}
                        val.update(dict(zip(opened, combo)))
                        rows.append((is_kw, dict(zip(opened, combo)), effects_under(h, [body], val, keep=keep, loops='mark', open_atoms=True)))
                break
            except OpenAtom as oa:
                if oa.what in opened or len(opened) >= 6 or not any(s_ in oa.what for s_ in STATE):
                    raise AnalysisBroken('C02: %s: the replay loop branches on `%s`, which the rule does not know' % (short(hname), oa.what))
                opened.append(oa.what)
        for is_kw, st_, eff in rows:
            n_rows += 1
            if is_kw:
                continue
            if any(v_ and any(t_ in k_ for t_ in TERMINAL) for k_, v_ in st_.items()):
                continue            # no legal move exists in such a position: nothing that follows in the list is a legal move
            plays = [e_ for e_ in eff if re.fullmatch(r'position\.do_move\(position\.parse_uci\(token\)\)', e_.replace(' ', ''))]
            other = [e_ for e_ in eff if e_ not in plays and not re.fullmatch(r'\(\w+=[\w.()]+\)', e_)]
            if len(plays) != 1 or other:
                bad = bad or 'with %s a listed move is not played and the loop does %s' % (
                    ', '.join('%s=%s' % kv for kv in sorted(st_.items())) or 'a word other than `moves`', eff)
        ctx.ob('C02.R5.replay-every-move', short(hname), bad is None,
               'every word of the move list is played through parse_uci + do_move and the loop goes on; only checkmate/stalemate (no '
               'legal move exists) may end the replay early (%d valuations of one turn)%s' % (n_rows, '' if bad is None else ' — ' + bad),
               site=h.loc(loops[0]))


def _same_effect(got, want):
    """equal up to reordering of operations on different squares"""
    def norm(e):
        return tuple(x.replace(' ', '') for x in e)
    g = [norm(e) for e in got]
    w = [norm(e) for e in want]
    if sorted(g) != sorted(w):
        return False
    # per-square order must match
    def per_sq(evs):
        m = {}
        for e in evs:
            for s_ in (e[1:] if e[0] == 'move_piece' else e[-1:]):
                m.setdefault(s_, []).append(e)
        return m
    return per_sq(g) == per_sq(w)


def _list_loop(f, find, repl):
    """an index loop over the piece list that, at the entry equal to `find`, stores `repl` (compared as normal forms, so named
    locals for the last index etc. do not matter). A list maintained in another way (iterators, std::find) is not recognised."""
    from rules.norm import Norm
    nm = Norm(f, keep=('piece',))
    loops = [n for n in f.all_nodes() if n['k'] == 'ForStmt' and any(short(x.get('ref', {}).get('n', '')) == '_piece_position' for x in walk(n['ch'][4]))]
    finds = [n for n in f.all_nodes() if (n.get('callee') or {}).get('n', '').startswith('std::find') and len(kids(n)) == 4]
    if not loops and finds:
        # spelling B: e = std::find(list, list + count, find); if (e != list + count) *e = repl;
        LIST, END = '_piece_position[piece]', '(_piece_count[piece]+_piece_position[piece])'
        ptr_repl = {'_piece_position[piece][(_piece_count[piece]-1)]': '*((%s-1))' % END}.get(repl, repl)
        for fc in finds:
            if [nm.s(a) for a in kids(fc)[1:]] != [LIST, END, find]:
                continue
            par = f.parent(fc)
            while par is not None and par['k'] != 'VarDecl':
                par = f.parent(par) if par['k'] in ('ImplicitCastExpr', 'ExprWithCleanups', 'ParenExpr') else None
            if par is None:
                continue
            e = par['name']
            nme = Norm(f, keep=('piece', e))
            for n in f.all_nodes():
                if n['k'] == 'IfStmt' and len(kids(n)) == 2 and nme.conj(kids(n)[0]) == frozenset({('ne',) + tuple(sorted([END, e]))}):
                    for x in walk(kids(n)[1]):
                        if x['k'] == 'BinaryOperator' and x.get('op') == '=' and nme.s(kids(x)[0]) == '*(%s)' % e and \
                                nme.s(kids(x)[1]) in (repl, ptr_repl):
                            return True
        return False
    if not loops:
        raise AnalysisBroken('%s: the piece list is maintained in a form the rule does not know (no index loop over _piece_position)' % f.name)
    for lp in loops:
        cf = counting_for(f, lp)
        if not cf:
            continue
        iv = next(x['name'] for x in f.all_nodes() if x['k'] == 'VarDecl' and x.get('id') == cf[0])
        # the scan starts at entry 0 and its last index is count-1 (or count-2 when the last entry replaces the found one:
        # then the last entry itself needs no visit); entries at and above count are stale and must not be looked at
        from rules.common import for_init_const
        lf = nm.linear(cf[1])
        if for_init_const(lp) != 0 or lf is None or lf[0] != {'_piece_count[piece]': 1}:
            continue
        last = lf[1] - (1 if cf[2] in ('<', '!=') else 0)
        if last > -1 or last < (-2 if repl.startswith('_piece_position') else -1):
            continue
        for n in walk(lp['ch'][4]):
            if n['k'] == 'IfStmt':
                g = nm.conj(kids(n)[0])
                if g == frozenset({('eq',) + tuple(sorted(['_piece_position[piece][%s]' % iv, find]))}):
                    for x in walk(kids(n)[1]):
                        if x['k'] == 'BinaryOperator' and x.get('op') == '=' and \
                                Norm(f, inline=False).s(kids(x)[0]) == '_piece_position[piece][%s]' % iv and nm.s(kids(x)[1]) == repl:
                            return True
    return False


def _mask_class(mask):
    m = mask.replace(' ', '')
    who = None
    if 'CASTLING_RIGHTS[side]' in m:
        who = 'side'
    elif 'CASTLING_RIGHTS[!(side)]' in m:
        who = '!side'
    if who is None or not m.startswith('!('):
        return None
    if '&KING_CASTLING' in m:
        return (who, 'KING')
    if '&QUEEN_CASTLING' in m:
        return (who, 'QUEEN')
    if re.match(r'^!\(CASTLING_RIGHTS\[(side|!\(side\))\]\)$', m):
        return (who, 'both')
    return None


def _guard_class(gf):
    true = [k.replace(' ', '') for k, t in gf if t]
    false = [k.replace(' ', '') for k, t in gf if not t]
    if '(castling(move)!=NO_CASTLING)' in true:
        return ('castling-move',)
    # a revocation must fire whenever its own condition holds: the only negative preconditions allowed are the
    # structural ones (not a castling move, not an en-passant capture)
    for k in false:
        if k in ('0', '1', 'false', 'true'):
            continue          # `do { } while (false)` of a disabled ASSERT
        if k in ('(castling(move)!=NO_CASTLING)',) or ('_enpassant_square' in k) or \
                (re.match(r'^\(get_piece_kind\(_board\[from\(move\)\]\)==PAWN\)$', k)):
            continue
        return ('blocked-by', k)
    kind = who = sqt = None
    for k in true:
        m = re.match(r"^\((get_piece_kind|make_piece_kind)\(_board('?)\[(from|to)\(move\)\]\)==(KING|ROOK)\)$", k)
        if m and m.group(2):
            # read after the move: the origin square is empty, the target square holds the piece that moved (or was promoted to)
            if m.group(3) == 'from':
                return ('reads-the-vacated-origin-square', k)
            if m.group(4) == 'KING':
                who, kind = 'moved', 'KING'          # a king is never the result of a promotion
            else:
                raise AnalysisBroken('do_move: a rook revocation reads the target square after the move (%s); promotions to a '
                                     'rook make this differ from the moved piece' % k)
        elif m:
            who = 'moved' if m.group(3) == 'from' else 'captured'
            kind = m.group(4)
        m = re.match(r'^\((from|to)\(move\)==(KING_SIDE|QUEEN_SIDE)_ROOK_SQUARE\[(side|!\(side\))\]\)$', k)
        if m:
            sqt = (m.group(1), m.group(2), 'side' if m.group(3) == 'side' else '!side')
    if kind is None:
        return None
    return (who, kind, sqt)
